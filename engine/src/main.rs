mod fw;
mod gen;
mod gen_mesh;
mod oracle;
mod props;

use fw::{Opts, Tier};
use std::path::PathBuf;

macro_rules! dispatch {
    ($id:expr, $f:ident, $($arg:expr),*) => {
        match $id {
            "C01" => fw::$f::<props::c01::C01>($($arg),*),
            "C02" => fw::$f::<props::c02::C02>($($arg),*),
            "C03" => fw::$f::<props::c03::C03>($($arg),*),
            "C04" => fw::$f::<props::c04::C04>($($arg),*),
            "C05" => fw::$f::<props::c05::C05>($($arg),*),
            "C06" => fw::$f::<props::c06::C06>($($arg),*),
            "C07" => fw::$f::<props::c07::C07>($($arg),*),
            "C08" => fw::$f::<props::c08::C08>($($arg),*),
            "C09" => fw::$f::<props::c09::C09>($($arg),*),
            "C10" => fw::$f::<props::c10::C10>($($arg),*),
            "C11" => fw::$f::<props::c11::C11>($($arg),*),
            "C12" => fw::$f::<props::c12::C12>($($arg),*),
            "C13" => fw::$f::<props::c13::C13>($($arg),*),
            "C14" => fw::$f::<props::c14::C14>($($arg),*),
            "C15" => fw::$f::<props::c15::C15>($($arg),*),
            "C16" => fw::$f::<props::c16::C16>($($arg),*),
            "C17" => fw::$f::<props::c17::C17>($($arg),*),
            "C18" => fw::$f::<props::c18::C18>($($arg),*),
            "C19" => fw::$f::<props::c19::C19>($($arg),*),
            "C20" => fw::$f::<props::c20::C20>($($arg),*),
            other => {
                eprintln!("unknown property {other}");
                2
            }
        }
    };
}

fn usage() -> i32 {
    eprintln!("usage: verif-engine run <Cnn> <quick|thorough> [--cases N] [--shards N] | replay <Cnn> <file> | worker <Cnn>");
    2
}

fn main() {
    let args: Vec<String> = std::env::args().collect();
    if args.len() < 3 {
        std::process::exit(usage());
    }
    let id = args[2].as_str();
    let code = match args[1].as_str() {
        "run" => {
            let tier = match args.get(3).map(|s| s.as_str()).or(std::env::var("VERIF_TIER").ok().as_deref().map(|_| "")).unwrap_or("quick") {
                "thorough" => Tier::Thorough,
                _ => Tier::Quick,
            };
            let seed = std::env::var("VERIF_SEED").ok().and_then(|s| s.trim().parse::<i64>().ok()).map(|x| x as u64).unwrap_or(1);
            let mut opts = Opts { tier, seed, shards: 16, cases_override: None, write_evidence: true };
            let mut i = 4;
            while i < args.len() {
                match args[i].as_str() {
                    "--cases" => {
                        opts.cases_override = args.get(i + 1).and_then(|s| s.parse().ok());
                        i += 1;
                    }
                    "--shards" => {
                        opts.shards = args.get(i + 1).and_then(|s| s.parse().ok()).unwrap_or(16);
                        i += 1;
                    }
                    "--no-evidence" => opts.write_evidence = false,
                    _ => {}
                }
                i += 1;
            }
            dispatch!(id, run, &opts)
        }
        "replay" => {
            let Some(p) = args.get(3) else { std::process::exit(usage()) };
            let p = PathBuf::from(p);
            dispatch!(id, replay, &p)
        }
        "worker" => dispatch!(id, worker_main,),
        _ => usage(),
    };
    std::process::exit(code);
}
