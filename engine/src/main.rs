use verif_engine::dispatch;
use verif_engine::fw::{Opts, Tier};
use std::path::PathBuf;

fn unknown(id: &str) -> i32 {
    eprintln!("unknown property {id}");
    2
}

fn usage() -> i32 {
    eprintln!("usage: verif-engine run <Cnn> <quick|thorough> [--cases N] [--shards N] | replay <Cnn> <file> | worker <Cnn>");
    2
}

fn main() {
    let args: Vec<String> = std::env::args().collect();
    if args.len() < 3 {
        std::process::exit(usage());
    }
    let id = args[2].as_str();
    let code = match args[1].as_str() {
        "run" => {
            let tier = match args.get(3).map(|s| s.as_str()).or(std::env::var("VERIF_TIER").ok().as_deref().map(|_| "")).unwrap_or("quick") {
                "thorough" => Tier::Thorough,
                _ => Tier::Quick,
            };
            let seed = std::env::var("VERIF_SEED").ok().and_then(|s| s.trim().parse::<i64>().ok()).map(|x| x as u64).unwrap_or(1);
            let mut opts = Opts { tier, seed, shards: 16, cases_override: None, write_evidence: true };
            let mut i = 4;
            while i < args.len() {
                match args[i].as_str() {
                    "--cases" => {
                        opts.cases_override = args.get(i + 1).and_then(|s| s.parse().ok());
                        i += 1;
                    }
                    "--shards" => {
                        opts.shards = args.get(i + 1).and_then(|s| s.parse().ok()).unwrap_or(16);
                        i += 1;
                    }
                    "--no-evidence" => opts.write_evidence = false,
                    _ => {}
                }
                i += 1;
            }
            dispatch!(id, run, unknown(id), &opts)
        }
        "replay" => {
            let Some(p) = args.get(3) else { std::process::exit(usage()) };
            let p = PathBuf::from(p);
            dispatch!(id, replay, unknown(id), &p)
        }
        "frombytes" => {
            let Some(p) = args.get(3) else { std::process::exit(usage()) };
            let p = PathBuf::from(p);
            dispatch!(id, from_bytes, unknown(id), &p)
        }
        "worker" => dispatch!(id, worker_main, unknown(id),),
        _ => usage(),
    };
    std::process::exit(code);
}
