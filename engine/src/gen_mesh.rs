//! Mesh generators (harness-built, never via engeom algorithms) and harness-side topology labels.

use crate::fw::idx;
use crate::gen::*;
use crate::oracle::{Soup, P3 as Pt3};
use proptest::prelude::*;
use serde::{Deserialize, Serialize};
use std::collections::{BTreeMap, BTreeSet};
use std::f64::consts::PI;

#[derive(Clone, Copy, Debug, Serialize, Deserialize, PartialEq)]
pub enum Height {
    Flat,
    Waves { amp: f64, fx: f64, fy: f64 },
    Dome { amp: f64 },
    Crease { amp: f64 },
}

#[derive(Clone, Debug, Serialize, Deserialize)]
pub enum MeshKind {
    /// jittered grid of nx x ny vertices with a random diagonal per cell
    Grid { nx: usize, ny: usize, sx: f64, sy: f64, jitter: f64, diag: u64, height: Height },
    /// L-shaped outline: a grid with the upper-right quadrant removed
    LGrid { n: usize, s: f64, jitter: f64, diag: u64, height: Height },
    Box { w: f64, h: f64, d: f64 },
    Octa { r: f64 },
    Ico { r: f64, sub: u8 },
    Torus { rr: f64, r: f64, nu: usize, nv: usize },
    /// open tube around z
    Tube { r: f64, h: f64, nu: usize, nv: usize },
    Fan { n: usize, r: f64, z: f64 },
    /// prism over a convex polygon with n sides, capped (closed)
    Prism { n: usize, r: f64, h: f64, skew: f64 },
}

#[derive(Clone, Debug, Serialize, Deserialize)]
pub struct MeshSpec {
    pub kind: MeshKind,
    /// 0 = keep numbering; otherwise seed of a permutation of vertex numbering and face order
    pub shuffle: u64,
    /// faces whose winding is flipped
    pub flips: Vec<u16>,
    /// if true all faces are flipped (all-CW instead of all-CCW)
    pub flip_all: bool,
    /// faces removed (holes)
    pub holes: Vec<u16>,
    pub pose: Iso3D,
    /// optional second component: (kind, offset, bowtie) — bowtie glues one vertex of the second onto one of the first
    pub extra: Option<Box<(MeshKind, P3, bool)>>,
}

fn mix(mut x: u64) -> u64 {
    x = x.wrapping_add(0x9E3779B97F4A7C15);
    x = (x ^ (x >> 30)).wrapping_mul(0xBF58476D1CE4E5B9);
    x = (x ^ (x >> 27)).wrapping_mul(0x94D049BB133111EB);
    x ^ (x >> 31)
}

/// deterministic permutation from a seed (Fisher-Yates with splitmix); seed 0 = identity
pub fn permutation(n: usize, seed: u64) -> Vec<usize> {
    let mut p: Vec<usize> = (0..n).collect();
    if seed == 0 {
        return p;
    }
    let mut s = seed;
    for i in (1..n).rev() {
        s = mix(s);
        let j = (s % (i as u64 + 1)) as usize;
        p.swap(i, j);
    }
    p
}

fn height(h: &Height, x: f64, y: f64, sx: f64, sy: f64) -> f64 {
    match h {
        Height::Flat => 0.0,
        Height::Waves { amp, fx, fy } => amp * (fx * x / sx.max(1e-9) * PI).sin() * (fy * y / sy.max(1e-9) * PI).cos(),
        Height::Dome { amp } => {
            let (u, v) = (x / sx.max(1e-9) - 0.5, y / sy.max(1e-9) - 0.5);
            amp * (1.0 - 2.0 * (u * u + v * v))
        }
        Height::Crease { amp } => amp * (x / sx.max(1e-9) - 0.5).abs(),
    }
}

fn grid(nx: usize, ny: usize, sx: f64, sy: f64, jitter: f64, diag: u64, h: &Height, keep: &dyn Fn(usize, usize) -> bool) -> (Vec<P3>, Vec<[u32; 3]>) {
    let mut v = vec![];
    let (dx, dy) = (sx / (nx as f64 - 1.0), sy / (ny as f64 - 1.0));
    let mut s = diag | 1;
    for j in 0..ny {
        for i in 0..nx {
            s = mix(s);
            let jx = ((s & 0xffff) as f64 / 65535.0 - 0.5) * jitter * dx;
            let jy = (((s >> 16) & 0xffff) as f64 / 65535.0 - 0.5) * jitter * dy;
            let border = i == 0 || j == 0 || i == nx - 1 || j == ny - 1;
            let (x, y) = (i as f64 * dx + if border { 0.0 } else { jx }, j as f64 * dy + if border { 0.0 } else { jy });
            v.push([x, y, height(h, x, y, sx, sy)]);
        }
    }
    let mut f = vec![];
    let mut s = mix(diag ^ 0xabcdef);
    for j in 0..ny - 1 {
        for i in 0..nx - 1 {
            if !keep(i, j) {
                continue;
            }
            s = mix(s);
            let a = (j * nx + i) as u32;
            let b = a + 1;
            let c = a + nx as u32;
            let d = c + 1;
            if s & 1 == 0 {
                f.push([a, b, d]);
                f.push([a, d, c]);
            } else {
                f.push([a, b, c]);
                f.push([b, d, c]);
            }
        }
    }
    compact(v, f)
}

/// drop unused vertices
fn compact(v: Vec<P3>, f: Vec<[u32; 3]>) -> (Vec<P3>, Vec<[u32; 3]>) {
    let mut used = vec![false; v.len()];
    for t in &f {
        for k in t {
            used[*k as usize] = true;
        }
    }
    let mut map = vec![u32::MAX; v.len()];
    let mut nv = vec![];
    for (i, p) in v.iter().enumerate() {
        if used[i] {
            map[i] = nv.len() as u32;
            nv.push(*p);
        }
    }
    let nf = f.iter().map(|t| [map[t[0] as usize], map[t[1] as usize], map[t[2] as usize]]).collect();
    (nv, nf)
}

fn ico(r: f64, sub: u8) -> (Vec<P3>, Vec<[u32; 3]>) {
    let t = (1.0 + 5f64.sqrt()) / 2.0;
    let mut v: Vec<[f64; 3]> = vec![[-1.0, t, 0.0], [1.0, t, 0.0], [-1.0, -t, 0.0], [1.0, -t, 0.0], [0.0, -1.0, t], [0.0, 1.0, t], [0.0, -1.0, -t], [0.0, 1.0, -t], [t, 0.0, -1.0], [t, 0.0, 1.0], [-t, 0.0, -1.0], [-t, 0.0, 1.0]];
    let mut f: Vec<[u32; 3]> = vec![[0, 11, 5], [0, 5, 1], [0, 1, 7], [0, 7, 10], [0, 10, 11], [1, 5, 9], [5, 11, 4], [11, 10, 2], [10, 7, 6], [7, 1, 8], [3, 9, 4], [3, 4, 2], [3, 2, 6], [3, 6, 8], [3, 8, 9], [4, 9, 5], [2, 4, 11], [6, 2, 10], [8, 6, 7], [9, 8, 1]];
    for _ in 0..sub {
        let mut cache: BTreeMap<(u32, u32), u32> = BTreeMap::new();
        let mut nf = vec![];
        let mut mid = |a: u32, b: u32, v: &mut Vec<[f64; 3]>| -> u32 {
            let k = (a.min(b), a.max(b));
            if let Some(i) = cache.get(&k) {
                return *i;
            }
            let (p, q) = (v[a as usize], v[b as usize]);
            v.push([(p[0] + q[0]) / 2.0, (p[1] + q[1]) / 2.0, (p[2] + q[2]) / 2.0]);
            let i = v.len() as u32 - 1;
            cache.insert(k, i);
            i
        };
        for t in &f {
            let ab = mid(t[0], t[1], &mut v);
            let bc = mid(t[1], t[2], &mut v);
            let ca = mid(t[2], t[0], &mut v);
            nf.push([t[0], ab, ca]);
            nf.push([t[1], bc, ab]);
            nf.push([t[2], ca, bc]);
            nf.push([ab, bc, ca]);
        }
        f = nf;
    }
    for p in v.iter_mut() {
        let n = (p[0] * p[0] + p[1] * p[1] + p[2] * p[2]).sqrt();
        *p = [p[0] / n * r, p[1] / n * r, p[2] / n * r];
    }
    (v, f)
}

pub fn build_kind(k: &MeshKind) -> (Vec<P3>, Vec<[u32; 3]>) {
    match k {
        MeshKind::Grid { nx, ny, sx, sy, jitter, diag, height } => grid((*nx).max(2), (*ny).max(2), *sx, *sy, *jitter, *diag, height, &|_, _| true),
        MeshKind::LGrid { n, s, jitter, diag, height } => {
            let n = (*n).max(3);
            let half = (n - 1) / 2;
            grid(n, n, *s, *s, *jitter, *diag, height, &|i, j| !(i >= half && j >= half))
        }
        MeshKind::Box { w, h, d } => {
            let v = vec![[0.0, 0.0, 0.0], [*w, 0.0, 0.0], [*w, *h, 0.0], [0.0, *h, 0.0], [0.0, 0.0, *d], [*w, 0.0, *d], [*w, *h, *d], [0.0, *h, *d]];
            let f = vec![[0, 2, 1], [0, 3, 2], [4, 5, 6], [4, 6, 7], [0, 1, 5], [0, 5, 4], [1, 2, 6], [1, 6, 5], [2, 3, 7], [2, 7, 6], [3, 0, 4], [3, 4, 7]];
            (v, f)
        }
        MeshKind::Octa { r } => {
            let r = *r;
            let v = vec![[r, 0.0, 0.0], [-r, 0.0, 0.0], [0.0, r, 0.0], [0.0, -r, 0.0], [0.0, 0.0, r], [0.0, 0.0, -r]];
            let f = vec![[0, 2, 4], [2, 1, 4], [1, 3, 4], [3, 0, 4], [2, 0, 5], [1, 2, 5], [3, 1, 5], [0, 3, 5]];
            (v, f)
        }
        MeshKind::Ico { r, sub } => ico(*r, (*sub).min(3)),
        MeshKind::Torus { rr, r, nu, nv } => {
            let (nu, nv) = ((*nu).max(3), (*nv).max(3));
            let mut v = vec![];
            for i in 0..nu {
                let a = i as f64 / nu as f64 * 2.0 * PI;
                for j in 0..nv {
                    let b = j as f64 / nv as f64 * 2.0 * PI;
                    let q = rr + r * b.cos();
                    v.push([q * a.cos(), q * a.sin(), r * b.sin()]);
                }
            }
            let mut f = vec![];
            for i in 0..nu {
                for j in 0..nv {
                    let a = (i * nv + j) as u32;
                    let b = (((i + 1) % nu) * nv + j) as u32;
                    let c = (((i + 1) % nu) * nv + (j + 1) % nv) as u32;
                    let d = (i * nv + (j + 1) % nv) as u32;
                    f.push([a, b, c]);
                    f.push([a, c, d]);
                }
            }
            (v, f)
        }
        MeshKind::Tube { r, h, nu, nv } => {
            let (nu, nv) = ((*nu).max(3), (*nv).max(2));
            let mut v = vec![];
            for j in 0..nv {
                for i in 0..nu {
                    let a = i as f64 / nu as f64 * 2.0 * PI;
                    v.push([r * a.cos(), r * a.sin(), h * j as f64 / (nv as f64 - 1.0)]);
                }
            }
            let mut f = vec![];
            for j in 0..nv - 1 {
                for i in 0..nu {
                    let a = (j * nu + i) as u32;
                    let b = (j * nu + (i + 1) % nu) as u32;
                    let c = ((j + 1) * nu + (i + 1) % nu) as u32;
                    let d = ((j + 1) * nu + i) as u32;
                    f.push([a, b, c]);
                    f.push([a, c, d]);
                }
            }
            (v, f)
        }
        MeshKind::Fan { n, r, z } => {
            let n = (*n).max(3);
            let mut v = vec![[0.0, 0.0, *z]];
            for i in 0..n {
                let a = i as f64 / n as f64 * 2.0 * PI;
                let rad = r * (1.0 + 0.3 * ((i * 7 % 5) as f64 / 5.0));
                v.push([rad * a.cos(), rad * a.sin(), 0.0]);
            }
            let mut f = vec![];
            for i in 0..n {
                f.push([0, 1 + i as u32, 1 + ((i + 1) % n) as u32]);
            }
            (v, f)
        }
        MeshKind::Prism { n, r, h, skew } => {
            let n = (*n).max(3);
            let mut v = vec![];
            for k in 0..2 {
                for i in 0..n {
                    let a = (i as f64 + 0.3 * ((i * 3 % 4) as f64 / 4.0)) / n as f64 * 2.0 * PI;
                    v.push([r * a.cos() * (1.0 + skew), r * a.sin(), h * k as f64]);
                }
            }
            let mut f = vec![];
            let nn = n as u32;
            for i in 1..nn - 1 {
                f.push([0, i + 1, i]); // bottom, outward = -z
                f.push([nn, nn + i, nn + i + 1]); // top
            }
            for i in 0..nn {
                let j = (i + 1) % nn;
                f.push([i, j, nn + j]);
                f.push([i, nn + j, nn + i]);
            }
            (v, f)
        }
    }
}

pub struct BuiltMesh {
    pub v: Vec<Pt3>,
    pub f: Vec<[u32; 3]>,
    pub topo: Topo,
}

impl BuiltMesh {
    pub fn soup(&self) -> Soup {
        Soup { v: self.v.clone(), f: self.f.clone() }
    }
    pub fn mesh(&self, solid: bool) -> engeom::Mesh {
        engeom::Mesh::new(self.v.clone(), self.f.clone(), solid)
    }
}

impl MeshSpec {
    pub fn simple(kind: MeshKind) -> Self {
        MeshSpec { kind, shuffle: 0, flips: vec![], flip_all: false, holes: vec![], pose: Iso3D::identity(), extra: None }
    }
    pub fn build(&self) -> Option<BuiltMesh> {
        let (mut v, mut f) = build_kind(&self.kind);
        if let Some(e) = &self.extra {
            let (kind, off, bowtie) = (&e.0, &e.1, e.2);
            let (v2, f2) = build_kind(kind);
            let base = v.len() as u32;
            // bounding boxes to place the second component clear of the first
            let max0 = v.iter().fold([f64::NEG_INFINITY; 3], |m, p| [m[0].max(p[0]), m[1].max(p[1]), m[2].max(p[2])]);
            let min1 = v2.iter().fold([f64::INFINITY; 3], |m, p| [m[0].min(p[0]), m[1].min(p[1]), m[2].min(p[2])]);
            let gap = 0.25 + off[0].abs();
            let shift = [max0[0] - min1[0] + gap, off[1], off[2]];
            if bowtie {
                // glue vertex 0 of the second component onto vertex 0 of the first: a vertex-only contact in the
                // index structure (geometric overlap elsewhere is irrelevant for connectivity)
                let anchor = v[0];
                let p0 = v2[0];
                for p in v2.iter().skip(1) {
                    v.push([anchor[0] + (p[0] - p0[0]) * 0.5 + gap * 0.0, anchor[1] + (p[1] - p0[1]) * 0.5, anchor[2] + (p[2] - p0[2]) * 0.5 + 0.37]);
                }
                for t in &f2 {
                    let m = |k: u32| if k == 0 { 0 } else { base + k - 1 };
                    f.push([m(t[0]), m(t[1]), m(t[2])]);
                }
                let _ = (min1, shift);
            } else {
                for p in &v2 {
                    v.push([p[0] + shift[0], p[1] + shift[1], p[2] + shift[2]]);
                }
                for t in &f2 {
                    f.push([t[0] + base, t[1] + base, t[2] + base]);
                }
            }
        }
        // holes
        if !self.holes.is_empty() && f.len() > 2 {
            let mut rm: BTreeSet<usize> = BTreeSet::new();
            for h in &self.holes {
                rm.insert(idx(*h, f.len()));
            }
            if rm.len() < f.len() - 1 {
                f = f.iter().enumerate().filter(|(i, _)| !rm.contains(i)).map(|(_, t)| *t).collect();
                let (nv, nf) = compact(v, f);
                v = nv;
                f = nf;
            }
        }
        if f.is_empty() {
            return None;
        }
        // flips
        if self.flip_all {
            for t in f.iter_mut() {
                t.swap(1, 2);
            }
        }
        for k in &self.flips {
            let i = idx(*k, f.len());
            f[i].swap(1, 2);
        }
        // shuffle numbering and order
        if self.shuffle != 0 {
            let pv = permutation(v.len(), self.shuffle);
            let mut nv = vec![[0.0; 3]; v.len()];
            for (old, new) in pv.iter().enumerate() {
                nv[*new] = v[old];
            }
            let pf = permutation(f.len(), mix(self.shuffle));
            let mut nf = vec![[0u32; 3]; f.len()];
            for (old, new) in pf.iter().enumerate() {
                let t = f[old];
                let r = (mix(self.shuffle ^ old as u64) % 3) as usize;
                let t = [pv[t[0] as usize] as u32, pv[t[1] as usize] as u32, pv[t[2] as usize] as u32];
                nf[*new] = [t[r], t[(r + 1) % 3], t[(r + 2) % 3]];
            }
            v = nv;
            f = nf;
        }
        let iso = self.pose.to_iso();
        let v: Vec<Pt3> = v.iter().map(|p| iso * pt3(p)).collect();
        let topo = Topo::of(v.len(), &f);
        Some(BuiltMesh { v, f, topo })
    }
}

/// harness-side topology (edge multiset / union-find), independent of engeom
#[derive(Clone, Debug)]
pub struct Topo {
    /// undirected edge -> list of (face, directed as (a,b)?)
    pub edge_faces: BTreeMap<(u32, u32), Vec<(usize, bool)>>,
    pub manifold: bool,
    pub consistent: bool,
    pub closed: bool,
    pub boundary_edges: usize,
    pub components: usize,
    pub vertex_only_contact: bool,
    pub boundary_loops: usize,
}

pub fn find(p: &mut Vec<usize>, i: usize) -> usize {
    let mut r = i;
    while p[r] != r {
        r = p[r];
    }
    let mut c = i;
    while p[c] != r {
        let n = p[c];
        p[c] = r;
        c = n;
    }
    r
}

impl Topo {
    pub fn of(nv: usize, f: &[[u32; 3]]) -> Topo {
        let mut edge_faces: BTreeMap<(u32, u32), Vec<(usize, bool)>> = BTreeMap::new();
        for (i, t) in f.iter().enumerate() {
            for k in 0..3 {
                let (a, b) = (t[k], t[(k + 1) % 3]);
                edge_faces.entry((a.min(b), a.max(b))).or_default().push((i, a < b));
            }
        }
        let manifold = edge_faces.values().all(|l| l.len() <= 2);
        let consistent = edge_faces.values().all(|l| l.len() != 2 || l[0].1 != l[1].1);
        let boundary_edges = edge_faces.values().filter(|l| l.len() == 1).count();
        // face components over shared edges
        let mut p: Vec<usize> = (0..f.len()).collect();
        for l in edge_faces.values() {
            for w in l.windows(2) {
                let (a, b) = (find(&mut p, w[0].0), find(&mut p, w[1].0));
                p[a] = b;
            }
        }
        let mut roots = BTreeSet::new();
        for i in 0..f.len() {
            roots.insert(find(&mut p, i));
        }
        // vertex-only contact: a vertex whose incident faces are not all edge-connected around it
        let mut vfaces: Vec<Vec<usize>> = vec![vec![]; nv];
        for (i, t) in f.iter().enumerate() {
            for k in t {
                vfaces[*k as usize].push(i);
            }
        }
        // edges incident to each vertex, in ascending key order
        let mut vedges: Vec<Vec<(u32, u32)>> = vec![vec![]; nv];
        for e in edge_faces.keys() {
            vedges[e.0 as usize].push(*e);
            if e.1 != e.0 {
                vedges[e.1 as usize].push(*e);
            }
        }
        let mut vertex_only_contact = false;
        for (vi, faces) in vfaces.iter().enumerate() {
            if faces.len() < 2 {
                continue;
            }
            // union faces around this vertex through edges incident to the vertex
            let mut q: BTreeMap<usize, usize> = faces.iter().map(|x| (*x, *x)).collect();
            fn fnd(q: &mut BTreeMap<usize, usize>, i: usize) -> usize {
                let mut r = i;
                while q[&r] != r {
                    r = q[&r];
                }
                r
            }
            for e in &vedges[vi] {
                let l = &edge_faces[e];
                for w in l.windows(2) {
                    let (a, b) = (fnd(&mut q, w[0].0), fnd(&mut q, w[1].0));
                    q.insert(a, b);
                }
            }
            let mut rs = BTreeSet::new();
            for x in faces {
                rs.insert(fnd(&mut q, *x));
            }
            if rs.len() > 1 {
                vertex_only_contact = true;
                break;
            }
        }
        // boundary loops: number of cycles when boundary edges form a 2-regular graph (only meaningful without pinches)
        let mut deg: BTreeMap<u32, usize> = BTreeMap::new();
        let mut bp: BTreeMap<u32, u32> = BTreeMap::new();
        fn bf(p: &mut BTreeMap<u32, u32>, i: u32) -> u32 {
            let mut r = i;
            while p[&r] != r {
                r = p[&r];
            }
            r
        }
        for (e, l) in &edge_faces {
            if l.len() == 1 {
                *deg.entry(e.0).or_default() += 1;
                *deg.entry(e.1).or_default() += 1;
                bp.entry(e.0).or_insert(e.0);
                bp.entry(e.1).or_insert(e.1);
                let (a, b) = (bf(&mut bp, e.0), bf(&mut bp, e.1));
                bp.insert(a, b);
            }
        }
        let keys: Vec<u32> = bp.keys().cloned().collect();
        let mut lr = BTreeSet::new();
        for k in keys {
            lr.insert(bf(&mut bp, k));
        }
        let boundary_loops = lr.len();
        Topo { edge_faces, manifold, consistent, closed: boundary_edges == 0, boundary_edges, components: roots.len(), vertex_only_contact, boundary_loops }
    }
}

// ---------------------------------------------------------------------------------------------
// strategies

pub fn height_fn() -> BoxedStrategy<Height> {
    prop_oneof![
        2 => Just(Height::Flat),
        2 => (unif(0.05, 0.5), unif(0.5, 3.0), unif(0.5, 3.0)).prop_map(|(amp, fx, fy)| Height::Waves { amp, fx, fy }),
        1 => unif(0.1, 0.8).prop_map(|amp| Height::Dome { amp }),
        1 => unif(0.2, 1.0).prop_map(|amp| Height::Crease { amp }),
    ]
    .boxed()
}

pub fn grid_kind(nmax: usize, flat: bool) -> BoxedStrategy<MeshKind> {
    (2usize..=nmax, 2usize..=nmax, unif(0.5, 4.0), unif(0.5, 4.0), unif(0.0, 0.6), any::<u64>(), if flat { Just(Height::Flat).boxed() } else { height_fn() })
        .prop_map(|(nx, ny, sx, sy, jitter, diag, height)| MeshKind::Grid { nx, ny, sx, sy, jitter, diag, height })
        .boxed()
}

pub fn open_kind(nmax: usize) -> BoxedStrategy<MeshKind> {
    prop_oneof![
        4 => grid_kind(nmax, false),
        1 => (3usize..=nmax, unif(1.0, 4.0), unif(0.0, 0.5), any::<u64>(), height_fn()).prop_map(|(n, s, jitter, diag, height)| MeshKind::LGrid { n, s, jitter, diag, height }),
        1 => (unif(0.3, 2.0), unif(0.5, 3.0), 3usize..=nmax.max(4), 2usize..=nmax.max(3)).prop_map(|(r, h, nu, nv)| MeshKind::Tube { r, h, nu, nv }),
        1 => (3usize..=nmax.max(4), unif(0.5, 2.0), unif(0.0, 1.0)).prop_map(|(n, r, z)| MeshKind::Fan { n, r, z }),
    ]
    .boxed()
}

pub fn closed_kind(sub_max: u8) -> BoxedStrategy<MeshKind> {
    prop_oneof![
        3 => (unif(0.3, 3.0), unif(0.3, 3.0), unif(0.3, 3.0)).prop_map(|(w, h, d)| MeshKind::Box { w, h, d }),
        1 => unif(0.3, 2.0).prop_map(|r| MeshKind::Octa { r }),
        2 => (unif(0.3, 2.0), 0u8..=sub_max).prop_map(|(r, sub)| MeshKind::Ico { r, sub }),
        1 => (unif(1.0, 2.0), unif(0.2, 0.7), 3usize..10, 3usize..8).prop_map(|(rr, r, nu, nv)| MeshKind::Torus { rr, r, nu, nv }),
        2 => (3usize..9, unif(0.5, 2.0), unif(0.3, 2.0), unif(0.0, 0.8)).prop_map(|(n, r, h, skew)| MeshKind::Prism { n, r, h, skew }),
    ]
    .boxed()
}

pub fn any_kind(nmax: usize) -> BoxedStrategy<MeshKind> {
    prop_oneof![3 => open_kind(nmax), 2 => closed_kind(1)].boxed()
}

/// well-formed meshes: consistent winding, no holes/flips, random numbering and pose
pub fn clean_mesh(kind: BoxedStrategy<MeshKind>, tmax: f64) -> BoxedStrategy<MeshSpec> {
    (kind, prop_oneof![1 => Just(0u64), 3 => any::<u64>()], iso3(tmax), any::<bool>())
        .prop_map(|(kind, shuffle, pose, flip_all)| MeshSpec { kind, shuffle, flips: vec![], flip_all, holes: vec![], pose, extra: None })
        .boxed()
}

/// arbitrary meshes for connectivity checks: holes, per-face flips, second components, bow-ties
pub fn wild_mesh(nmax: usize) -> BoxedStrategy<MeshSpec> {
    (
        any_kind(nmax),
        prop_oneof![1 => Just(0u64), 3 => any::<u64>()],
        prop_oneof![3 => Just(vec![]), 1 => prop::collection::vec(any::<u16>(), 1..4)],
        prop_oneof![3 => Just(vec![]), 1 => prop::collection::vec(any::<u16>(), 1..5)],
        iso3(10.0),
        prop_oneof![3 => Just(None), 2 => (any_kind(nmax.min(5)), p3(1.0), any::<bool>()).prop_map(|x| Some(Box::new(x)))],
        prop::bool::weighted(0.2),
    )
        .prop_map(|(kind, shuffle, flips, holes, pose, extra, flip_all)| MeshSpec { kind, shuffle, flips, flip_all, holes, pose, extra })
        .boxed()
}

// ---------------------------------------------------------------------------------------------
// query points relative to a mesh

#[derive(Clone, Debug, Serialize, Deserialize)]
pub enum Query {
    OnVertex(u16),
    OnEdge { face: u16, edge: u8, t: f64 },
    InFace { face: u16, b0: f64, b1: f64 },
    /// offset from a point inside a face along the face normal
    Offset { face: u16, b0: f64, b1: f64, d: f64 },
    /// offset from a vertex along an arbitrary direction (near creases: ties / corner regions)
    NearVertex { i: u16, dir: P3, d: f64 },
    Far(P3),
}

pub fn query() -> BoxedStrategy<Query> {
    prop_oneof![
        1 => any::<u16>().prop_map(Query::OnVertex),
        1 => (any::<u16>(), 0u8..3, unif(0.0, 1.0)).prop_map(|(face, edge, t)| Query::OnEdge { face, edge, t }),
        1 => (any::<u16>(), unif(0.0, 1.0), unif(0.0, 1.0)).prop_map(|(face, b0, b1)| Query::InFace { face, b0, b1 }),
        4 => (any::<u16>(), unif(0.0, 1.0), unif(0.0, 1.0), prop_oneof![3 => unif(-1.5, 1.5), 3 => unif(-0.05, 0.05), 1 => logu(-7.0, -1.0), 1 => logu(-7.0, -1.0).prop_map(|d| -d)]).prop_map(|(face, b0, b1, d)| Query::Offset { face, b0, b1, d }),
        2 => (any::<u16>(), unit3(), prop_oneof![2 => unif(0.0, 1.0), 1 => logu(-7.0, 0.0)]).prop_map(|(i, dir, d)| Query::NearVertex { i, dir, d }),
        1 => p3(8.0).prop_map(Query::Far),
    ]
    .boxed()
}

impl Query {
    pub fn resolve(&self, m: &BuiltMesh) -> Pt3 {
        let nf = m.f.len();
        let tri = |fi: usize| {
            let t = m.f[fi];
            (m.v[t[0] as usize], m.v[t[1] as usize], m.v[t[2] as usize])
        };
        let bary = |b0: f64, b1: f64| {
            let (mut u, mut v) = (b0, b1);
            if u + v > 1.0 {
                u = 1.0 - u;
                v = 1.0 - v;
            }
            (u, v)
        };
        match self {
            Query::OnVertex(i) => m.v[idx(*i, m.v.len())],
            Query::OnEdge { face, edge, t } => {
                let (a, b, c) = tri(idx(*face, nf));
                let (p, q) = match edge % 3 {
                    0 => (a, b),
                    1 => (b, c),
                    _ => (c, a),
                };
                p + (q - p) * *t
            }
            Query::InFace { face, b0, b1 } => {
                let (a, b, c) = tri(idx(*face, nf));
                let (u, v) = bary(*b0, *b1);
                a + (b - a) * u + (c - a) * v
            }
            Query::Offset { face, b0, b1, d } => {
                let (a, b, c) = tri(idx(*face, nf));
                let (u, v) = bary(*b0, *b1);
                let p = a + (b - a) * u + (c - a) * v;
                match crate::oracle::tri_normal(&a, &b, &c) {
                    Some(n) => p + n * *d,
                    None => p,
                }
            }
            Query::NearVertex { i, dir, d } => m.v[idx(*i, m.v.len())] + v3(dir) * *d,
            Query::Far(p) => pt3(p),
        }
    }
}

// ---------------------------------------------------------------------------------------------
// A mesh that has been queried and then changed in place (moved, appended to) must answer like a mesh freshly built
// from its current vertices and faces: nothing it remembered from earlier queries may survive the change.

/// Closest-point queries on `m` decided against the exhaustive scan of `soup` (the mesh's CURRENT geometry).
pub fn mesh_answers_for(site: &str, m: &engeom::Mesh, soup: &Soup, queries: &[Pt3], interior_ok: bool) -> Result<(), crate::fw::Failure> {
    let scale = soup.size() + soup.max_abs();
    let tol = 1e-9 * scale;
    for q in queries {
        let (dstar, _, _) = soup.closest(q);
        let sp = match crate::fw::guarded(|| m.surf_closest_to(q)) {
            Ok(s) => s,
            Err(msg) => return Err(crate::fw::failure(format!("{site}/surf_closest_to/panic"), msg)),
        };
        let d = (sp.point - q).norm();
        if interior_ok && d <= tol {
            continue;
        }
        crate::ensure_r!((d - dstar).abs() <= tol, format!("{site}/not_global_optimum"), "after the change the reported closest point is {d:e} from the query, the exhaustive scan of the current faces gives {dstar:e}");
        let on: Vec<usize> = (0..soup.f.len()).filter(|i| soup.dist_to_face(*i, &sp.point) <= tol).collect();
        crate::ensure_r!(!on.is_empty(), format!("{site}/point_not_on_surface"), "after the change the reported point {:?} lies on no face of the current mesh", sp.point);
        let nrm = sp.normal.into_inner();
        let ok = on.iter().any(|i| {
            let (a, b, c) = soup.tri(*i);
            crate::oracle::tri_normal(&a, &b, &c).map(|n| (n - nrm).norm() <= 1e-7).unwrap_or(true)
        });
        crate::ensure_r!(ok, format!("{site}/normal_not_of_current_face"), "after the change the reported normal {:?} is not the normal of a current face containing the reported point (faces {:?})", nrm, on);
    }
    Ok(())
}
