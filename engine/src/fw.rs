//! Framework: property trait, proptest driver, sharding, worker isolation, evidence, replay,
//! known findings.  All randomness comes from proptest strategies seeded from VERIF_SEED.

use proptest::strategy::{BoxedStrategy, Strategy};
use proptest::test_runner::{Config, RngAlgorithm, RngSeed, TestCaseError, TestError, TestRunner};
use serde::de::DeserializeOwned;
use serde::Serialize;
use std::collections::{BTreeMap, HashSet};
use std::io::{BufRead, BufReader, Write};
use std::panic::{catch_unwind, AssertUnwindSafe};
use std::path::{Path, PathBuf};
use std::sync::mpsc;
use std::sync::Mutex;
use std::time::{Duration, Instant};

#[derive(Clone, Copy, PartialEq, Eq, Debug)]
pub enum Tier {
    Quick,
    Thorough,
}

impl Tier {
    pub fn name(self) -> &'static str {
        match self {
            Tier::Quick => "quick",
            Tier::Thorough => "thorough",
        }
    }
    /// pick by tier
    pub fn pick<T>(self, q: T, t: T) -> T {
        match self {
            Tier::Quick => q,
            Tier::Thorough => t,
        }
    }
}

#[derive(Clone, Debug, Default)]
pub struct Pass {
    pub labels: Vec<&'static str>,
    pub nontrivial: bool,
}

#[derive(Clone, Debug)]
pub struct Failure {
    /// call site + failing clause + structural class of the input
    pub sig: String,
    pub msg: String,
}

#[derive(Clone, Debug)]
pub enum Verdict {
    Pass(Pass),
    Discard(&'static str),
    Fail(Failure),
}

impl Verdict {
    pub fn fail(sig: impl Into<String>, msg: impl Into<String>) -> Verdict {
        Verdict::Fail(Failure { sig: sig.into(), msg: msg.into() })
    }
}

/// Accumulates labels during a check and turns into a verdict.
#[derive(Default)]
pub struct Ctx {
    pub labels: Vec<&'static str>,
    pub nontrivial: bool,
}

impl Ctx {
    pub fn new() -> Self {
        Self::default()
    }
    pub fn label(&mut self, l: &'static str) {
        if !self.labels.contains(&l) {
            self.labels.push(l);
        }
    }
    pub fn label_if(&mut self, c: bool, l: &'static str) {
        if c {
            self.label(l)
        }
    }
    pub fn nontrivial(&mut self) {
        self.nontrivial = true;
    }
    pub fn pass(self) -> Verdict {
        Verdict::Pass(Pass { labels: self.labels, nontrivial: self.nontrivial })
    }
}

/// `ensure!(cond, "sig", "fmt", args..)` returns a Fail verdict from the enclosing function.
#[macro_export]
macro_rules! ensure {
    ($cond:expr, $sig:expr, $($arg:tt)*) => {
        if !($cond) {
            return $crate::fw::Verdict::fail($sig, format!($($arg)*));
        }
    };
}

/// `tri!(expr)` for helper functions returning Result<T, Failure>
pub type R<T> = Result<T, Failure>;
pub fn failure(sig: impl Into<String>, msg: impl Into<String>) -> Failure {
    Failure { sig: sig.into(), msg: msg.into() }
}
#[macro_export]
macro_rules! ensure_r {
    ($cond:expr, $sig:expr, $($arg:tt)*) => {
        if !($cond) {
            return Err($crate::fw::failure($sig, format!($($arg)*)));
        }
    };
}

pub trait Property: 'static {
    type Case: Serialize + DeserializeOwned + Clone + std::fmt::Debug + Send + Sync + 'static;
    const ID: &'static str;
    fn rule() -> &'static str;
    fn assumptions() -> Vec<String> {
        vec![]
    }
    fn cases(tier: Tier) -> u32;
    /// If Some, every case is executed in a killable worker process with this per-case deadline.
    fn isolated() -> Option<Duration> {
        None
    }
    fn strategy(tier: Tier) -> BoxedStrategy<Self::Case>;
    fn check(case: &Self::Case) -> Verdict;
    /// Labels that the generator is expected to produce (reported as WARNING when absent).
    fn expected_labels() -> Vec<&'static str> {
        vec![]
    }
    /// Optional extra deterministic phase (e.g. exhaustive enumeration). Returns extra cases.
    fn enumerated(_tier: Tier) -> Vec<Self::Case> {
        vec![]
    }
    fn enumerated_exhaustive() -> bool {
        false
    }
    /// true when the library under test prints to stdout (silenced while cases execute)
    fn quiet_stdout() -> bool {
        false
    }
}

// ---------------------------------------------------------------------------------------------
// panic handling

pub fn install_quiet_panic_hook() {
    std::panic::set_hook(Box::new(|_| {}));
}

/// Run a closure, converting a panic into Err(message)
pub fn guarded<T>(f: impl FnOnce() -> T) -> Result<T, String> {
    match catch_unwind(AssertUnwindSafe(f)) {
        Ok(v) => Ok(v),
        Err(e) => {
            let msg = if let Some(s) = e.downcast_ref::<&str>() {
                s.to_string()
            } else if let Some(s) = e.downcast_ref::<String>() {
                s.clone()
            } else {
                "panic".to_string()
            };
            Err(msg)
        }
    }
}

fn checked<P: Property>(case: &P::Case) -> Verdict {
    match guarded(|| P::check(case)) {
        Ok(v) => v,
        Err(m) => Verdict::fail(format!("{}/harness_or_library_panic", P::ID), format!("uncaught panic: {m}")),
    }
}

// ---------------------------------------------------------------------------------------------
// label interning (for the worker protocol)

static INTERN: Mutex<Option<HashSet<&'static str>>> = Mutex::new(None);
fn intern(s: &str) -> &'static str {
    let mut g = INTERN.lock().unwrap();
    let set = g.get_or_insert_with(HashSet::new);
    if let Some(x) = set.get(s) {
        return x;
    }
    let l: &'static str = Box::leak(s.to_string().into_boxed_str());
    set.insert(l);
    l
}

// ---------------------------------------------------------------------------------------------
// known findings

#[derive(serde::Deserialize, Clone, Debug)]
pub struct KnownEntry {
    pub property: String,
    pub signature: String,
    pub what: String,
    pub status: String,
    #[serde(default)]
    pub commit: Option<String>,
}

pub fn verif_root() -> PathBuf {
    if let Ok(p) = std::env::var("VERIF_ROOT") {
        return PathBuf::from(p);
    }
    // engine binary lives in <root>/engine/target/release/
    let exe = std::env::current_exe().unwrap();
    let mut p = exe.as_path();
    for _ in 0..4 {
        p = p.parent().unwrap_or(Path::new("/verif"));
    }
    if p.join("properties.jsonl").exists() {
        p.to_path_buf()
    } else {
        PathBuf::from("/verif")
    }
}

pub fn load_known(id: &str) -> Vec<KnownEntry> {
    let p = verif_root().join("known_findings.json");
    let Ok(s) = std::fs::read_to_string(&p) else { return vec![] };
    let all: Vec<KnownEntry> = serde_json::from_str(&s).expect("known_findings.json must parse");
    all.into_iter().filter(|e| e.property == id && e.status == "known").collect()
}

// ---------------------------------------------------------------------------------------------
// worker isolation

#[derive(serde::Serialize, serde::Deserialize)]
struct WireVerdict {
    kind: String, // pass | discard | fail
    labels: Vec<String>,
    nontrivial: bool,
    sig: String,
    msg: String,
}

fn to_wire(v: &Verdict) -> WireVerdict {
    match v {
        Verdict::Pass(p) => WireVerdict {
            kind: "pass".into(),
            labels: p.labels.iter().map(|s| s.to_string()).collect(),
            nontrivial: p.nontrivial,
            sig: String::new(),
            msg: String::new(),
        },
        Verdict::Discard(r) => WireVerdict { kind: "discard".into(), labels: vec![], nontrivial: false, sig: r.to_string(), msg: String::new() },
        Verdict::Fail(f) => WireVerdict { kind: "fail".into(), labels: vec![], nontrivial: false, sig: f.sig.clone(), msg: f.msg.clone() },
    }
}

fn from_wire(w: WireVerdict) -> Verdict {
    match w.kind.as_str() {
        "pass" => Verdict::Pass(Pass { labels: w.labels.iter().map(|s| intern(s)).collect(), nontrivial: w.nontrivial }),
        "discard" => Verdict::Discard(intern(&w.sig)),
        _ => Verdict::Fail(Failure { sig: w.sig, msg: w.msg }),
    }
}

/// Child side: read one JSON case per line on stdin, answer one JSON verdict per line.
pub fn worker_main<P: Property>() -> i32 {
    if std::env::var("VERIF_PANIC_TRACE").is_err() {
        install_quiet_panic_hook();
    }
    // address-space limit: an unbounded loop that allocates is killed by the allocator failing.
    unsafe {
        let lim = libc::rlimit { rlim_cur: 8 << 30, rlim_max: 8 << 30 };
        libc::setrlimit(libc::RLIMIT_AS, &lim);
    }
    let stdin = std::io::stdin();
    let stdout = std::io::stdout();
    for line in stdin.lock().lines() {
        let Ok(line) = line else { break };
        if line.trim().is_empty() {
            continue;
        }
        let v = match serde_json::from_str::<P::Case>(&line) {
            Ok(c) => checked::<P>(&c),
            Err(e) => Verdict::fail(format!("{}/harness/bad_case_json", P::ID), e.to_string()),
        };
        let mut out = stdout.lock();
        serde_json::to_writer(&mut out, &to_wire(&v)).unwrap();
        out.write_all(b"\n").unwrap();
        out.flush().unwrap();
    }
    0
}

struct Worker {
    child: std::process::Child,
    stdin: std::process::ChildStdin,
    rx: mpsc::Receiver<String>,
}

impl Worker {
    fn spawn(id: &str) -> Worker {
        let exe = std::env::current_exe().unwrap();
        let mut child = std::process::Command::new(exe)
            .arg("worker")
            .arg(id)
            .stdin(std::process::Stdio::piped())
            .stdout(std::process::Stdio::piped())
            .stderr(if std::env::var("VERIF_PANIC_TRACE").is_ok() { std::process::Stdio::inherit() } else { std::process::Stdio::null() })
            .spawn()
            .expect("spawn worker");
        let stdin = child.stdin.take().unwrap();
        let stdout = child.stdout.take().unwrap();
        let (tx, rx) = mpsc::channel();
        std::thread::spawn(move || {
            let r = BufReader::new(stdout);
            for line in r.lines() {
                match line {
                    Ok(l) => {
                        if tx.send(l).is_err() {
                            break;
                        }
                    }
                    Err(_) => break,
                }
            }
        });
        Worker { child, stdin, rx }
    }
    fn kill(&mut self) {
        let _ = self.child.kill();
        let _ = self.child.wait();
    }
}

pub struct Isolator {
    id: &'static str,
    deadline: Duration,
    worker: Option<Worker>,
    pub restarts: u32,
}

impl Isolator {
    pub fn new(id: &'static str, deadline: Duration) -> Self {
        Isolator { id, deadline, worker: None, restarts: 0 }
    }
    pub fn check<C: Serialize>(&mut self, case: &C) -> Verdict {
        if self.worker.is_none() {
            self.worker = Some(Worker::spawn(self.id));
        }
        let line = serde_json::to_string(case).unwrap();
        let w = self.worker.as_mut().unwrap();
        let ok = w.stdin.write_all(line.as_bytes()).is_ok() && w.stdin.write_all(b"\n").is_ok() && w.stdin.flush().is_ok();
        if !ok {
            w.kill();
            self.worker = None;
            self.restarts += 1;
            return Verdict::fail(format!("{}/worker/died_before_case", self.id), "worker process was dead");
        }
        match w.rx.recv_timeout(self.deadline) {
            Ok(l) => match serde_json::from_str::<WireVerdict>(&l) {
                Ok(wv) => from_wire(wv),
                Err(e) => Verdict::fail(format!("{}/harness/bad_wire", self.id), e.to_string()),
            },
            Err(mpsc::RecvTimeoutError::Timeout) => {
                w.kill();
                self.worker = None;
                self.restarts += 1;
                Verdict::fail(
                    format!("{}/termination/deadline_exceeded", self.id),
                    format!("no answer within {:?} (normal cost is orders of magnitude lower): treated as non-termination", self.deadline),
                )
            }
            Err(mpsc::RecvTimeoutError::Disconnected) => {
                w.kill();
                self.worker = None;
                self.restarts += 1;
                Verdict::fail(
                    format!("{}/termination/worker_killed", self.id),
                    "worker process died while executing the case (abort, stack overflow or memory limit)",
                )
            }
        }
    }
}

impl Drop for Isolator {
    fn drop(&mut self) {
        if let Some(w) = self.worker.as_mut() {
            w.kill();
        }
    }
}

// ---------------------------------------------------------------------------------------------
// run statistics

#[derive(Default)]
pub struct Stats {
    pub evaluations: u64,
    pub discards: BTreeMap<String, u64>,
    pub labels: BTreeMap<&'static str, u64>,
    pub nontrivial_hashes: HashSet<u64>,
    pub samples: Vec<serde_json::Value>,
    pub excluded_known: BTreeMap<String, u64>,
    pub failures: Vec<(Failure, serde_json::Value)>,
    pub replayed: u64,
    pub enumerated: u64,
}

fn hash_json(v: &str) -> u64 {
    // FNV-1a 64
    let mut h: u64 = 0xcbf29ce484222325;
    for b in v.as_bytes() {
        h ^= *b as u64;
        h = h.wrapping_mul(0x100000001b3);
    }
    h
}

impl Stats {
    fn merge(&mut self, o: Stats) {
        self.evaluations += o.evaluations;
        for (k, v) in o.discards {
            *self.discards.entry(k).or_default() += v;
        }
        for (k, v) in o.labels {
            *self.labels.entry(k).or_default() += v;
        }
        self.nontrivial_hashes.extend(o.nontrivial_hashes);
        for s in o.samples {
            if self.samples.len() < 4 {
                self.samples.push(s);
            }
        }
        for (k, v) in o.excluded_known {
            *self.excluded_known.entry(k).or_default() += v;
        }
        self.failures.extend(o.failures);
        self.replayed += o.replayed;
        self.enumerated += o.enumerated;
    }

    /// record a verdict; returns Some(failure) if it is an unknown failure
    fn record<C: Serialize>(&mut self, case: &C, v: Verdict, known: &[KnownEntry]) -> Option<Failure> {
        self.evaluations += 1;
        match v {
            Verdict::Pass(p) => {
                for l in &p.labels {
                    *self.labels.entry(l).or_default() += 1;
                }
                if p.nontrivial {
                    let js = serde_json::to_string(case).unwrap();
                    let h = hash_json(&js);
                    if self.nontrivial_hashes.insert(h) && self.samples.len() < 3 {
                        let mut val: serde_json::Value = serde_json::from_str(&js).unwrap();
                        truncate_json(&mut val, 24);
                        self.samples.push(serde_json::json!({"case": val, "labels": p.labels}));
                    }
                }
                None
            }
            Verdict::Discard(r) => {
                *self.discards.entry(r.to_string()).or_default() += 1;
                None
            }
            Verdict::Fail(f) => {
                if known.iter().any(|k| k.signature == f.sig) {
                    *self.excluded_known.entry(f.sig.clone()).or_default() += 1;
                    None
                } else {
                    Some(f)
                }
            }
        }
    }
}

/// shorten long arrays in sample output so evidence files stay readable
fn truncate_json(v: &mut serde_json::Value, max: usize) {
    match v {
        serde_json::Value::Array(a) => {
            if a.len() > max {
                let n = a.len();
                a.truncate(max);
                a.push(serde_json::Value::String(format!("… ({} items in total)", n)));
            }
            for x in a.iter_mut() {
                truncate_json(x, max);
            }
        }
        serde_json::Value::Object(o) => {
            for (_, x) in o.iter_mut() {
                truncate_json(x, max);
            }
        }
        _ => {}
    }
}

// ---------------------------------------------------------------------------------------------
// driver

pub struct Opts {
    pub tier: Tier,
    pub seed: u64,
    pub shards: usize,
    pub cases_override: Option<u32>,
    pub write_evidence: bool,
}

fn run_shard<P: Property>(opts: &Opts, shard: usize, cases: u32, known: &[KnownEntry]) -> Stats {
    let mut stats = Stats::default();
    if cases == 0 {
        return stats;
    }
    let seed = opts.seed.wrapping_mul(0x9E3779B97F4A7C15).wrapping_add(shard as u64 + 1);
    let cfg = Config {
        cases,
        failure_persistence: None,
        rng_seed: RngSeed::Fixed(seed),
        rng_algorithm: RngAlgorithm::ChaCha,
        // isolated properties may hit their per-case deadline on every shrink candidate: bound the shrink effort
        max_shrink_iters: if P::isolated().is_some() { 48 } else { 4000 },
        max_shrink_time: if P::isolated().is_some() { 180_000 } else { 0 },
        max_global_rejects: 1_000_000,
        max_local_rejects: 1_000_000,
        verbose: 0,
        ..Config::default()
    };
    let mut runner = TestRunner::new(cfg);
    let strategy = P::strategy(opts.tier);
    let iso = std::cell::RefCell::new(P::isolated().map(|d| Isolator::new(P::ID, d)));
    let failed = std::cell::Cell::new(false);
    let first_fail: std::cell::RefCell<Option<Failure>> = std::cell::RefCell::new(None);
    let stats_cell = std::cell::RefCell::new(&mut stats);
    let result = runner.run(&strategy, |case| {
        let v = match iso.borrow_mut().as_mut() {
            Some(i) => i.check(&case),
            None => checked::<P>(&case),
        };
        if failed.get() {
            // shrinking: do not count; only decide pass/fail (known signatures pass)
            return match v {
                Verdict::Fail(f) if !known.iter().any(|k| k.signature == f.sig) => Err(TestCaseError::fail(f.sig)),
                _ => Ok(()),
            };
        }
        let mut st = stats_cell.borrow_mut();
        match st.record(&case, v, known) {
            None => Ok(()),
            Some(f) => {
                failed.set(true);
                let sig = f.sig.clone();
                *first_fail.borrow_mut() = Some(f);
                Err(TestCaseError::fail(sig))
            }
        }
    });
    drop(stats_cell);
    let mut iso = iso.into_inner();
    let first_fail = first_fail.into_inner();
    match result {
        Ok(()) => {}
        Err(TestError::Fail(_, shrunk)) => {
            // re-evaluate the shrunk case to get its message
            let v = match iso.as_mut() {
                Some(i) => i.check(&shrunk),
                None => checked::<P>(&shrunk),
            };
            let f = match v {
                Verdict::Fail(f) => f,
                _ => first_fail.clone().unwrap_or(Failure { sig: format!("{}/unstable", P::ID), msg: "shrunk case no longer fails".into() }),
            };
            stats.failures.push((f, serde_json::to_value(&shrunk).unwrap()));
        }
        Err(TestError::Abort(r)) => {
            *stats.discards.entry(format!("proptest abort: {r}")).or_default() += 1;
        }
    }
    stats
}

pub fn replay_dir(id: &str) -> PathBuf {
    verif_root().join("replays").join(id)
}
pub fn corpus_dir(id: &str) -> PathBuf {
    verif_root().join("corpus").join(id)
}

fn save_failure(id: &str, case: &serde_json::Value) -> PathBuf {
    let dir = replay_dir(id);
    let _ = std::fs::create_dir_all(&dir);
    let s = serde_json::to_string_pretty(case).unwrap();
    let p = dir.join(format!("fail-{:016x}.json", hash_json(&s)));
    std::fs::write(&p, s).unwrap();
    p
}

pub fn run<P: Property>(opts: &Opts) -> i32 {
    install_quiet_panic_hook();
    let t0 = Instant::now();
    let silence = if P::quiet_stdout() { Some(StdoutSilencer::new()) } else { None };
    let known = load_known(P::ID);
    let mut total = Stats::default();
    let mut violations: Vec<(Failure, PathBuf)> = vec![];

    // 1. replay the corpus (plain regression checks, no proptest involved)
    let cdir = corpus_dir(P::ID);
    let mut files: Vec<PathBuf> = std::fs::read_dir(&cdir)
        .map(|d| d.filter_map(|e| e.ok()).map(|e| e.path()).filter(|p| p.extension().map(|x| x == "json").unwrap_or(false)).collect())
        .unwrap_or_default();
    files.sort();
    {
        let mut iso = P::isolated().map(|d| Isolator::new(P::ID, d));
        for f in &files {
            let s = std::fs::read_to_string(f).unwrap();
            let case: P::Case = match serde_json::from_str(&s) {
                Ok(c) => c,
                Err(e) => {
                    eprintln!("ERROR corpus file {} does not parse: {e}", f.display());
                    return 2;
                }
            };
            let v = match iso.as_mut() {
                Some(i) => i.check(&case),
                None => checked::<P>(&case),
            };
            total.replayed += 1;
            if let Some(fl) = total.record(&case, v, &known) {
                violations.push((fl, f.clone()));
            }
        }
    }

    // 2. enumerated phase
    let en = P::enumerated(opts.tier);
    if !en.is_empty() {
        let chunks: Vec<&[P::Case]> = en.chunks((en.len() + opts.shards - 1) / opts.shards).collect();
        let results: Vec<Stats> = std::thread::scope(|s| {
            let hs: Vec<_> = chunks
                .iter()
                .map(|chunk| {
                    let known = &known;
                    s.spawn(move || {
                        let mut st = Stats::default();
                        let mut iso = P::isolated().map(|d| Isolator::new(P::ID, d));
                        for c in chunk.iter() {
                            let v = match iso.as_mut() {
                                Some(i) => i.check(c),
                                None => checked::<P>(c),
                            };
                            st.enumerated += 1;
                            if let Some(f) = st.record(c, v, known) {
                                if st.failures.len() < 3 {
                                    st.failures.push((f, serde_json::to_value(c).unwrap()));
                                }
                            }
                        }
                        st
                    })
                })
                .collect();
            hs.into_iter().map(|h| h.join().unwrap()).collect()
        });
        for r in results {
            total.merge(r);
        }
    }

    // 3. generated phase, sharded
    let cases = opts.cases_override.unwrap_or_else(|| P::cases(opts.tier));
    let shards = opts.shards.max(1).min(cases.max(1) as usize);
    let per = cases / shards as u32;
    let rem = cases % shards as u32;
    let results: Vec<Stats> = std::thread::scope(|s| {
        let hs: Vec<_> = (0..shards)
            .map(|i| {
                let known = &known;
                let n = per + if (i as u32) < rem { 1 } else { 0 };
                s.spawn(move || run_shard::<P>(opts, i, n, known))
            })
            .collect();
        hs.into_iter().map(|h| h.join().unwrap()).collect()
    });
    for r in results {
        total.merge(r);
    }

    drop(silence);

    // failures -> replay files (deduplicated by signature)
    let mut seen = HashSet::new();
    let fails = std::mem::take(&mut total.failures);
    for (f, case) in fails {
        if seen.insert(f.sig.clone()) {
            let p = save_failure(P::ID, &case);
            violations.push((f, p));
        }
    }

    for (sig, n) in &total.excluded_known {
        let what = known.iter().find(|k| &k.signature == sig).map(|k| k.what.clone()).unwrap_or_default();
        println!("KNOWN-FINDING: property={} {} [{} cases excluded, signature {}]", P::ID, what, n, sig);
    }
    for (f, p) in &violations {
        println!("VIOLATION property={} replay={}", P::ID, p.display());
        println!("  signature: {}", f.sig);
        println!("  detail: {}", f.msg.replace('\n', "\n    "));
    }
    let missing: Vec<&str> = P::expected_labels().into_iter().filter(|l| !total.labels.contains_key(l)).collect();
    if !missing.is_empty() && opts.cases_override.is_none() {
        println!("WARNING property={} generator did not produce expected classes: {:?}", P::ID, missing);
    }

    let wall = t0.elapsed().as_secs_f64();
    let mut nontrivial = total.nontrivial_hashes.len();
    if total.samples.is_empty() {
        total.samples.push(serde_json::json!("no non-trivial case was generated in this run"));
    }
    if opts.write_evidence {
        let mut assumptions = P::assumptions();
        assumptions.push("exploration only: no counter-example among the generated cases; absence is not established".into());
        assumptions.push("oracles are written in the harness (engine/src) and trusted; tolerances are stated in DESIGN.md per property".into());
        let ev = serde_json::json!({
            "property_id": P::ID,
            "tier": opts.tier.name(),
            "seed": opts.seed,
            "level": "exploration",
            "coverage": {
                "evaluations": total.evaluations,
                "distinct_nontrivial": nontrivial,
                "rule": P::rule(),
                "samples": total.samples,
                "labels": total.labels,
                "discards": total.discards,
                "corpus_replayed": total.replayed,
                "enumerated": total.enumerated,
                "exhaustive": P::enumerated_exhaustive() && total.enumerated > 0,
                "exhaustive_note": if P::enumerated_exhaustive() { "the enumerated phase is complete for its stated finite bound; the generated phase is sampling" } else { "sampling" },
                "excluded_known": total.excluded_known,
                "expected_labels_missing": missing,
                "shards": shards,
            },
            "assumptions": assumptions,
            "wall_s": wall,
            "violations": violations.len(),
        });
        let dir = verif_root().join("evidence");
        let _ = std::fs::create_dir_all(&dir);
        let p = dir.join(format!("{}.json", P::ID));
        std::fs::write(&p, serde_json::to_string_pretty(&ev).unwrap()).unwrap();
    }
    if nontrivial == 0 {
        nontrivial = 0;
    }
    println!(
        "{} {} seed={} evaluations={} distinct_nontrivial={} corpus={} discards={} wall={:.1}s violations={}",
        P::ID,
        opts.tier.name(),
        opts.seed,
        total.evaluations,
        nontrivial,
        total.replayed,
        total.discards.values().sum::<u64>(),
        wall,
        violations.len()
    );
    if !violations.is_empty() {
        1
    } else {
        0
    }
}

pub fn replay<P: Property>(path: &Path) -> i32 {
    if std::env::var("VERIF_PANIC_TRACE").is_err() {
        install_quiet_panic_hook();
    }
    let known = load_known(P::ID);
    let s = match std::fs::read_to_string(path) {
        Ok(s) => s,
        Err(e) => {
            eprintln!("cannot read {}: {e}", path.display());
            return 2;
        }
    };
    let case: P::Case = match serde_json::from_str(&s) {
        Ok(c) => c,
        Err(e) => {
            eprintln!("cannot parse {}: {e}", path.display());
            return 2;
        }
    };
    let v = match P::isolated() {
        Some(d) => Isolator::new(P::ID, d).check(&case),
        None => checked::<P>(&case),
    };
    match v {
        Verdict::Pass(p) => {
            println!("PASS property={} labels={:?} nontrivial={}", P::ID, p.labels, p.nontrivial);
            0
        }
        Verdict::Discard(r) => {
            println!("DISCARD property={} reason={}", P::ID, r);
            0
        }
        Verdict::Fail(f) => {
            if let Some(k) = known.iter().find(|k| k.signature == f.sig) {
                println!("KNOWN-FINDING: property={} {} [signature {}]", P::ID, k.what, f.sig);
                0
            } else {
                println!("VIOLATION property={} replay={}", P::ID, path.display());
                println!("  signature: {}", f.sig);
                println!("  detail: {}", f.msg);
                1
            }
        }
    }
}

/// helper for strategies: monotone index map (shrinks toward 0)
pub fn idx(i: u16, len: usize) -> usize {
    if len == 0 {
        0
    } else {
        ((i as usize) * len) >> 16
    }
}

pub fn boxed<S: Strategy + 'static>(s: S) -> BoxedStrategy<S::Value> {
    s.boxed()
}


/// Redirects file descriptor 1 to /dev/null until dropped (the library prints diagnostics with println!).
pub struct StdoutSilencer {
    saved: i32,
}

impl StdoutSilencer {
    pub fn new() -> Self {
        use std::io::Write;
        let _ = std::io::stdout().flush();
        unsafe {
            let saved = libc::dup(1);
            let null = libc::open(b"/dev/null\0".as_ptr() as *const libc::c_char, libc::O_WRONLY);
            if null >= 0 {
                libc::dup2(null, 1);
                libc::close(null);
            }
            StdoutSilencer { saved }
        }
    }
}

impl Drop for StdoutSilencer {
    fn drop(&mut self) {
        use std::io::Write;
        let _ = std::io::stdout().flush();
        unsafe {
            if self.saved >= 0 {
                libc::dup2(self.saved, 1);
                libc::close(self.saved);
            }
        }
    }
}

// ---------------------------------------------------------------------------------------------
// byte-driven entry points (coverage-guided fuzzing): the fuzzer's bytes are the random stream of the SAME
// proptest strategy the search uses (RngAlgorithm::PassThrough), so a fuzz input decodes to an ordinary Case
// and the same oracle decides it.

use proptest::strategy::ValueTree;
use proptest::test_runner::TestRng;

fn tree_from_bytes<P: Property>(strategy: &BoxedStrategy<P::Case>, data: &[u8]) -> Option<Box<dyn ValueTree<Value = P::Case>>> {
    let cfg = Config { failure_persistence: None, max_local_rejects: 256, max_global_rejects: 256, ..Config::default() };
    // The stream is proptest's pass-through RNG as patched in /verif/vendor/proptest: sibling arms of a union no longer
    // halve the remaining data, and an exhausted input continues with a fixed pseudo-random stream instead of zeros
    // (on which rand's integer rejection sampling never terminates).
    let rng = TestRng::from_seed(RngAlgorithm::PassThrough, data);
    let mut runner = TestRunner::new_with_rng(cfg, rng);
    strategy.new_tree(&mut runner).ok()
}

/// Counters kept by a fuzz closure.
#[derive(Default, serde::Serialize)]
pub struct FuzzStats {
    pub inputs: u64,
    pub decoded: u64,
    pub pass: u64,
    pub nontrivial: u64,
    pub distinct_nontrivial: u64,
    pub discard: u64,
    pub known_excluded: u64,
    pub failures: u64,
    pub labels: BTreeMap<String, u64>,
}

static FUZZ_STATS: Mutex<Option<(String, FuzzStats)>> = Mutex::new(None);

extern "C" fn dump_fuzz_stats() {
    if let Ok(g) = FUZZ_STATS.lock() {
        if let Some((p, st)) = g.as_ref() {
            let _ = std::fs::write(p, serde_json::to_string(st).unwrap());
        }
    }
}

/// Build the per-process fuzz closure for property P.  It returns true when the input is a violation
/// (unknown failing signature); the fuzz target then aborts so the fuzzer keeps the input.  Counters are written to
/// `$VERIF_FUZZ_STATS` when the process exits (and at every failure).
pub fn make_fuzzer<P: Property>() -> Box<dyn FnMut(&[u8]) -> bool> {
    std::panic::set_hook(Box::new(|_| {}));
    let strategy = P::strategy(Tier::Quick);
    let known = load_known(P::ID);
    let _silence = if P::quiet_stdout() { Some(StdoutSilencer::new()) } else { None };
    if let Ok(p) = std::env::var("VERIF_FUZZ_STATS") {
        *FUZZ_STATS.lock().unwrap() = Some((p, FuzzStats::default()));
        unsafe {
            libc::atexit(dump_fuzz_stats);
        }
    }
    let mut seen: HashSet<u64> = HashSet::new();
    Box::new(move |data: &[u8]| {
        let _keep = &_silence;
        let tree = tree_from_bytes::<P>(&strategy, data);
        let verdict = tree.as_ref().map(|t| {
            let case = t.current();
            let v = checked::<P>(&case);
            let fresh = matches!(&v, Verdict::Pass(p) if p.nontrivial) && seen.len() < 4_000_000 && seen.insert(hash_json(&serde_json::to_string(&case).unwrap()));
            (v, fresh)
        });
        let mut g = FUZZ_STATS.lock().unwrap();
        let mut scratch = FuzzStats::default();
        let st = match g.as_mut() {
            Some((_, st)) => st,
            None => &mut scratch,
        };
        st.inputs += 1;
        let Some((v, fresh)) = verdict else { return false };
        st.decoded += 1;
        match v {
            Verdict::Pass(p) => {
                st.pass += 1;
                for l in &p.labels {
                    *st.labels.entry(l.to_string()).or_default() += 1;
                }
                if p.nontrivial {
                    st.nontrivial += 1;
                }
                if fresh {
                    st.distinct_nontrivial += 1;
                }
                false
            }
            Verdict::Discard(_) => {
                st.discard += 1;
                false
            }
            Verdict::Fail(f) => {
                if known.iter().any(|k| k.signature == f.sig) {
                    st.known_excluded += 1;
                    false
                } else {
                    st.failures += 1;
                    drop(g);
                    dump_fuzz_stats();
                    eprintln!("FUZZ-FAIL property={} signature={} detail={}", P::ID, f.sig, f.msg);
                    true
                }
            }
        }
    })
}

/// `verif-engine frombytes <Cnn> <file>`: decode a fuzzer input with the release engine, decide it (in a worker
/// for isolated properties), shrink a failure along the strategy's own value tree, save the shrunk case as a
/// JSON replay file and report it.  Exit 0 held / 1 violation / 2 undecodable.
pub fn from_bytes<P: Property>(path: &Path) -> i32 {
    if std::env::var("VERIF_PANIC_TRACE").is_err() {
        install_quiet_panic_hook();
    }
    let _silence = if P::quiet_stdout() { Some(StdoutSilencer::new()) } else { None };
    let data = match std::fs::read(path) {
        Ok(d) => d,
        Err(e) => {
            eprintln!("cannot read {}: {e}", path.display());
            return 2;
        }
    };
    let known = load_known(P::ID);
    let strategy = P::strategy(Tier::Quick);
    let Some(mut tree) = tree_from_bytes::<P>(&strategy, &data) else {
        eprintln!("NOTE property={} fuzz input {} does not decode to a case (rejected by the generator)", P::ID, path.display());
        return 0;
    };
    let mut iso = P::isolated().map(|d| Isolator::new(P::ID, d));
    let mut eval = |c: &P::Case| -> Verdict {
        match iso.as_mut() {
            Some(i) => i.check(c),
            None => checked::<P>(c),
        }
    };
    let first = match eval(&tree.current()) {
        Verdict::Fail(f) => f,
        Verdict::Pass(_) => {
            eprintln!("NOTE property={} fuzz input {} passes on the release engine", P::ID, path.display());
            return 0;
        }
        Verdict::Discard(r) => {
            eprintln!("NOTE property={} fuzz input {} is discarded ({r}) on the release engine", P::ID, path.display());
            return 0;
        }
    };
    if let Some(k) = known.iter().find(|k| k.signature == first.sig) {
        eprintln!("KNOWN-FINDING: property={} {} [signature {}]", P::ID, k.what, first.sig);
        return 0;
    }
    // shrink: standard simplify / complicate walk, bounded
    let budget = if std::env::var("VERIF_NOSHRINK").is_ok() { 0 } else if P::isolated().is_some() { 48 } else { 2000 };
    let mut best = (tree.current(), first);
    let mut steps = 0;
    'outer: while steps < budget && tree.simplify() {
        loop {
            steps += 1;
            let c = tree.current();
            match eval(&c) {
                Verdict::Fail(f) if !known.iter().any(|k| k.signature == f.sig) => {
                    best = (c, f);
                    break;
                }
                _ => {
                    if steps >= budget || !tree.complicate() {
                        break 'outer;
                    }
                }
            }
        }
    }
    let (case, f) = best;
    let p = save_failure(P::ID, &serde_json::to_value(&case).unwrap());
    drop(_silence);
    println!("VIOLATION property={} replay={}", P::ID, p.display());
    println!("  signature: {}", f.sig);
    println!("  detail: {}", f.msg);
    println!("  found-by: coverage-guided fuzzing, input {}", path.display());
    1
}
