//! Shared proptest strategies and serialisable plain-data types.

use proptest::prelude::*;
use serde::{Deserialize, Deserializer, Serialize, Serializer};
use std::f64::consts::PI;

/// f64 that survives JSON even when non-finite
#[derive(Clone, Copy, Debug, PartialEq)]
pub struct F(pub f64);

impl Serialize for F {
    fn serialize<S: Serializer>(&self, s: S) -> Result<S::Ok, S::Error> {
        if self.0.is_finite() {
            s.serialize_f64(self.0)
        } else if self.0.is_nan() {
            s.serialize_str("nan")
        } else if self.0 > 0.0 {
            s.serialize_str("inf")
        } else {
            s.serialize_str("-inf")
        }
    }
}

impl<'de> Deserialize<'de> for F {
    fn deserialize<D: Deserializer<'de>>(d: D) -> Result<Self, D::Error> {
        let v = serde_json::Value::deserialize(d)?;
        match v {
            serde_json::Value::Number(n) => Ok(F(n.as_f64().unwrap())),
            serde_json::Value::String(s) => match s.as_str() {
                "nan" => Ok(F(f64::NAN)),
                "inf" => Ok(F(f64::INFINITY)),
                "-inf" => Ok(F(f64::NEG_INFINITY)),
                _ => Err(serde::de::Error::custom("bad float")),
            },
            _ => Err(serde::de::Error::custom("bad float")),
        }
    }
}

pub type P2 = [f64; 2];
pub type P3 = [f64; 3];

pub fn next_up(x: f64) -> f64 {
    if x.is_nan() || x == f64::INFINITY {
        return x;
    }
    if x == 0.0 {
        return f64::from_bits(1);
    }
    let b = x.to_bits();
    if x > 0.0 {
        f64::from_bits(b + 1)
    } else {
        f64::from_bits(b - 1)
    }
}
pub fn next_down(x: f64) -> f64 {
    -next_up(-x)
}
pub fn ulp(x: f64) -> f64 {
    let a = x.abs();
    if a == 0.0 {
        return f64::MIN_POSITIVE;
    }
    next_up(a) - a
}

/// uniform float in [lo, hi] (shrinks toward lo)
pub fn uni(lo: f64, hi: f64) -> BoxedStrategy<f64> {
    (0u32..=1_000_000u32).prop_map(move |i| lo + (hi - lo) * (i as f64 / 1.0e6)).boxed()
}

/// uniform float with full mantissa randomness in [lo, hi)
pub fn unif(lo: f64, hi: f64) -> BoxedStrategy<f64> {
    any::<u64>().prop_map(move |b| lo + (hi - lo) * ((b >> 11) as f64 / (1u64 << 53) as f64)).boxed()
}

/// log-uniform in [10^lo, 10^hi]
pub fn logu(lo: f64, hi: f64) -> BoxedStrategy<f64> {
    unif(lo, hi).prop_map(|e| 10f64.powf(e)).boxed()
}

/// mixture coordinate in +-scale: uniform, lattice of scale/8, small integers
pub fn coord(scale: f64) -> BoxedStrategy<f64> {
    prop_oneof![
        6 => unif(-scale, scale),
        3 => (-8i32..=8).prop_map(move |k| k as f64 * scale / 8.0),
        1 => (-4i32..=4).prop_map(move |k| k as f64),
    ]
    .boxed()
}

pub fn p2(scale: f64) -> BoxedStrategy<P2> {
    (coord(scale), coord(scale)).prop_map(|(x, y)| [x, y]).boxed()
}
pub fn p3(scale: f64) -> BoxedStrategy<P3> {
    (coord(scale), coord(scale), coord(scale)).prop_map(|(x, y, z)| [x, y, z]).boxed()
}

/// rotation angle: uniform in +-pi plus special values
pub fn rot_angle() -> BoxedStrategy<f64> {
    prop_oneof![
        8 => unif(-PI, PI),
        1 => prop::sample::select(vec![0.0, PI / 2.0, -PI / 2.0, PI, 1e-9, -1e-9, PI / 4.0]),
    ]
    .boxed()
}

#[derive(Clone, Copy, Debug, Serialize, Deserialize)]
pub struct Iso2D {
    pub angle: f64,
    pub t: P2,
}

pub fn iso2(tmax: f64) -> BoxedStrategy<Iso2D> {
    (rot_angle(), prop_oneof![4 => unif(-tmax, tmax), 1 => Just(0.0)], unif(-tmax, tmax)).prop_map(|(angle, x, y)| Iso2D { angle, t: [x, y] }).boxed()
}

impl Iso2D {
    pub fn to_iso(&self) -> engeom::Iso2 {
        engeom::Iso2::new(engeom::Vector2::new(self.t[0], self.t[1]), self.angle)
    }
    pub fn is_generic(&self) -> bool {
        let q = self.angle / (PI / 2.0);
        (q - q.round()).abs() > 1e-3 && (self.t[0] != 0.0 || self.t[1] != 0.0)
    }
}

#[derive(Clone, Copy, Debug, Serialize, Deserialize)]
pub struct Iso3D {
    pub axis: P3,
    pub angle: f64,
    pub t: P3,
}

pub fn unit3() -> BoxedStrategy<P3> {
    prop_oneof![
        6 => (unif(-1.0, 1.0), unif(0.0, 2.0 * PI)).prop_map(|(z, th)| {
            let r = (1.0 - z * z).max(0.0).sqrt();
            [r * th.cos(), r * th.sin(), z]
        }),
        1 => prop::sample::select(vec![[1.0, 0.0, 0.0], [0.0, 1.0, 0.0], [0.0, 0.0, 1.0], [0.0, 0.0, -1.0], [-1.0, 0.0, 0.0], [0.0, -1.0, 0.0]]),
    ]
    .boxed()
}

pub fn iso3(tmax: f64) -> BoxedStrategy<Iso3D> {
    (unit3(), rot_angle(), unif(-tmax, tmax), unif(-tmax, tmax), unif(-tmax, tmax)).prop_map(|(axis, angle, x, y, z)| Iso3D { axis, angle, t: [x, y, z] }).boxed()
}

impl Iso3D {
    pub fn to_iso(&self) -> engeom::Iso3 {
        let ax = engeom::Vector3::new(self.axis[0], self.axis[1], self.axis[2]);
        let n = ax.norm();
        let axang = if n > 0.0 { ax / n * self.angle } else { engeom::Vector3::zeros() };
        engeom::Iso3::new(engeom::Vector3::new(self.t[0], self.t[1], self.t[2]), axang)
    }
    pub fn is_generic(&self) -> bool {
        let q = self.angle / (PI / 2.0);
        (q - q.round()).abs() > 1e-3 && self.t.iter().any(|x| *x != 0.0)
    }
    pub fn identity() -> Self {
        Iso3D { axis: [0.0, 0.0, 1.0], angle: 0.0, t: [0.0; 3] }
    }
}

pub fn pt2(p: &P2) -> engeom::Point2 {
    engeom::Point2::new(p[0], p[1])
}
pub fn pt3(p: &P3) -> engeom::Point3 {
    engeom::Point3::new(p[0], p[1], p[2])
}
pub fn v2(p: &P2) -> engeom::Vector2 {
    engeom::Vector2::new(p[0], p[1])
}
pub fn v3(p: &P3) -> engeom::Vector3 {
    engeom::Vector3::new(p[0], p[1], p[2])
}

// ---------------------------------------------------------------------------------------------
// polylines

#[derive(Clone, Copy, Debug, Serialize, Deserialize, PartialEq)]
pub enum Shape {
    Walk,
    Star,
    ZigZag,
    Spiral,
    Lattice,
    DenseSparse,
    LongThin,
}

/// 2D polyline of n points with consecutive gaps >= min_gap (by construction, nudging)
pub fn polyline2(nmin: usize, nmax: usize, scale: f64) -> BoxedStrategy<(Shape, Vec<P2>)> {
    let shapes = prop::sample::select(vec![Shape::Walk, Shape::Star, Shape::ZigZag, Shape::Spiral, Shape::Lattice, Shape::DenseSparse, Shape::LongThin]);
    (shapes, nmin..=nmax, prop::collection::vec((unif(0.0, 1.0), unif(0.0, 1.0)), nmax), p2(scale * 2.0))
        .prop_map(move |(shape, n, r, off)| {
            let mut pts: Vec<P2> = Vec::with_capacity(n);
            match shape {
                Shape::Walk => {
                    let mut p = [0.0, 0.0];
                    for i in 0..n {
                        pts.push(p);
                        let th = r[i].0 * 2.0 * PI;
                        let l = scale * (0.02 + 0.3 * r[i].1);
                        p = [p[0] + l * th.cos(), p[1] + l * th.sin()];
                    }
                }
                Shape::Star => {
                    // star-shaped simple polygon: sorted angles, random radii
                    let mut ang: Vec<f64> = (0..n).map(|i| (i as f64 + 0.1 + 0.8 * r[i].0) / n as f64 * 2.0 * PI).collect();
                    ang.sort_by(|a, b| a.partial_cmp(b).unwrap());
                    for i in 0..n {
                        let rad = scale * (0.3 + 0.7 * r[i].1);
                        pts.push([rad * ang[i].cos(), rad * ang[i].sin()]);
                    }
                }
                Shape::ZigZag => {
                    // collinear runs with occasional turns
                    let mut p = [0.0, 0.0];
                    let mut d = [1.0, 0.0];
                    for i in 0..n {
                        pts.push(p);
                        if r[i].0 < 0.3 {
                            let th = (r[i].1 - 0.5) * 3.0;
                            let (s, c) = th.sin_cos();
                            d = [d[0] * c - d[1] * s, d[0] * s + d[1] * c];
                        }
                        let l = scale * 0.125 * (1.0 + (r[i].1 * 4.0).floor());
                        p = [p[0] + l * d[0], p[1] + l * d[1]];
                    }
                }
                Shape::Spiral => {
                    for i in 0..n {
                        let t = i as f64 / n as f64;
                        let th = t * 6.0 * PI;
                        let rad = scale * (0.1 + t) * (1.0 + 0.02 * r[i].0);
                        pts.push([rad * th.cos(), rad * th.sin()]);
                    }
                }
                Shape::Lattice => {
                    let mut p = [0i64, 0i64];
                    let mut last = (0i64, 0i64);
                    for i in 0..n {
                        pts.push([p[0] as f64 * scale / 8.0, p[1] as f64 * scale / 8.0]);
                        let k = (r[i].0 * 8.0) as i64;
                        let mut st = match k {
                            0 => (1, 0),
                            1 => (0, 1),
                            2 => (-1, 0),
                            3 => (0, -1),
                            4 => (1, 1),
                            5 => (-1, 1),
                            6 => (2, 0),
                            _ => (1, -1),
                        };
                        if st.0 == -last.0 && st.1 == -last.1 {
                            st = (st.1.max(1), st.0); // avoid exact doubling back
                            if st.0 == -last.0 && st.1 == -last.1 {
                                st = (1, 2);
                            }
                        }
                        last = st;
                        p = [p[0] + st.0, p[1] + st.1];
                    }
                }
                Shape::DenseSparse => {
                    let mut x = 0.0;
                    for i in 0..n {
                        let dense = (i * 4 / n.max(1)) % 2 == 0;
                        let step = if dense { scale * 0.002 * (1.0 + r[i].0) } else { scale * 0.3 * (0.2 + r[i].0) };
                        x += step;
                        pts.push([x, scale * 0.2 * (x / scale * 3.0).sin() + scale * 0.01 * r[i].1]);
                    }
                }
                Shape::LongThin => {
                    for i in 0..n {
                        let x = i as f64 * scale * 0.5;
                        pts.push([x, scale * 1e-3 * (r[i].0 - 0.5)]);
                    }
                }
            }
            for p in pts.iter_mut() {
                p[0] += off[0];
                p[1] += off[1];
            }
            (shape, pts)
        })
        .boxed()
}

/// 3D polyline from a 2D one by adding a z profile and posing it
pub fn polyline3(nmin: usize, nmax: usize, scale: f64) -> BoxedStrategy<(Shape, Vec<P3>)> {
    (polyline2(nmin, nmax, scale), prop::collection::vec(unif(-1.0, 1.0), nmax), iso3(scale), 0u8..3)
        .prop_map(move |((shape, pts), z, iso, zmode)| {
            let t = iso.to_iso();
            let out = pts
                .iter()
                .enumerate()
                .map(|(i, p)| {
                    let zz = match zmode {
                        0 => 0.0,
                        1 => z[i] * scale * 0.3,
                        _ => (i as f64) * scale * 0.05,
                    };
                    let q = t * engeom::Point3::new(p[0], p[1], zz);
                    [q.x, q.y, q.z]
                })
                .collect();
            (shape, out)
        })
        .boxed()
}

/// Remove consecutive points closer than `gap` (harness-side sanitiser so that library de-duplication
/// is clearly off unless duplicates are injected deliberately).
pub fn enforce_gap2(pts: &[P2], gap: f64) -> Vec<P2> {
    let mut out: Vec<P2> = vec![];
    for p in pts {
        if let Some(l) = out.last() {
            let d = ((p[0] - l[0]).powi(2) + (p[1] - l[1]).powi(2)).sqrt();
            if d < gap {
                continue;
            }
        }
        out.push(*p);
    }
    out
}
pub fn enforce_gap3(pts: &[P3], gap: f64) -> Vec<P3> {
    let mut out: Vec<P3> = vec![];
    for p in pts {
        if let Some(l) = out.last() {
            let d = ((p[0] - l[0]).powi(2) + (p[1] - l[1]).powi(2) + (p[2] - l[2]).powi(2)).sqrt();
            if d < gap {
                continue;
            }
        }
        out.push(*p);
    }
    out
}

// ---------------------------------------------------------------------------------------------
// curve specifications (shared by C01..C06, C02, C03, C16)

use crate::oracle::{Poly, Pt};

#[derive(Clone, Copy, Debug, Serialize, Deserialize, PartialEq)]
pub enum CloseMode {
    Open,
    ClosedExact,
    ClosedNear,
    ForceOpenInput,
    ForceClosedInput,
}

#[derive(Clone, Debug, Serialize, Deserialize)]
pub struct Curve2Spec {
    pub pts: Vec<P2>,
    pub tol: f64,
    pub mode: CloseMode,
    /// (position, exact?) duplicates injected into the input to exercise de-duplication
    #[serde(default)]
    pub dups: Vec<(u16, bool)>,
    /// extra trailing samples close to the first point (offsets in units of tol), used with `ForceOpenInput`: the
    /// input ends in a cluster of samples some of which are within tol of each other or of the start, which is where
    /// de-duplication and closing interact
    #[serde(default)]
    pub seam_cluster: Vec<(f64, f64)>,
    /// (edge, count, step in units of tol) runs of finely spaced samples creeping along an edge away from its first
    /// vertex: every sample is within tol of the one before it, yet the run as a whole is many tolerances long, so
    /// which samples survive depends on comparing with the last RETAINED sample, as documented
    #[serde(default)]
    pub creep: Vec<(u16, u8, f64)>,
}

pub struct Built2 {
    pub curve: engeom::Curve2,
    /// the vertices the harness expects the library to have stored
    pub expected: Vec<Pt<2>>,
    pub closed: bool,
    pub model: Poly<2>,
    pub input: Vec<Pt<2>>,
    pub force: bool,
    pub mode_used: CloseMode,
}

impl Curve2Spec {
    /// harness-side construction of the input and of the expected stored vertices
    pub fn plan(&self) -> Option<(Vec<Pt<2>>, Vec<Pt<2>>, bool, bool, CloseMode)> {
        let tol = self.tol;
        let mut pts = enforce_gap2(&self.pts, 4.0 * tol);
        let d = |a: &P2, b: &P2| ((a[0] - b[0]).powi(2) + (a[1] - b[1]).powi(2)).sqrt();
        while pts.len() >= 2 && d(&pts[0], pts.last().unwrap()) <= 4.0 * tol {
            pts.pop();
        }
        if pts.len() < 2 {
            return None;
        }
        let mode = if pts.len() < 3 { CloseMode::Open } else { self.mode };
        let first = pts[0];
        let mut expected = pts.clone();
        let mut input = pts.clone();
        let (force, closed) = match mode {
            CloseMode::Open => (false, false),
            CloseMode::ClosedExact => {
                input.push(first);
                expected.push(first);
                (false, true)
            }
            CloseMode::ClosedNear => {
                let q = [first[0] + tol / 2.0, first[1]];
                input.push(q);
                expected.push(q);
                (false, true)
            }
            CloseMode::ForceOpenInput => {
                expected.push(first);
                (true, true)
            }
            CloseMode::ForceClosedInput => {
                input.push(first);
                expected.push(first);
                (true, true)
            }
        };
        if mode == CloseMode::ForceOpenInput && !self.seam_cluster.is_empty() {
            // trailing cluster near the start; the expected vertices follow the documented construction: consecutive
            // samples within tol of the last retained one are dropped, then the start is appended unless the last
            // retained sample is already within tol of it
            let mut input = pts.clone();
            for (dx, dy) in &self.seam_cluster {
                input.push([first[0] + dx * tol, first[1] + dy * tol]);
            }
            let mut kept: Vec<P2> = vec![];
            for q in &input {
                if kept.last().map(|l| d(l, q) > tol).unwrap_or(true) {
                    kept.push(*q);
                }
            }
            if kept.len() < 3 {
                return None;
            }
            if d(&kept[0], kept.last().unwrap()) > tol {
                kept.push(kept[0]);
            }
            return Some((crate::oracle::to_p2(&input), crate::oracle::to_p2(&kept), true, true, mode));
        }
        if !self.creep.is_empty() && pts.len() >= 2 {
            // finely sampled stretches; expected vertices follow the documented rule (drop a sample within tol of the
            // last retained one).  A run stays at least 4 tol short of the edge's far vertex, and a run with a sample at
            // a knife-edge distance from the last retained one is left out altogether.
            let mut runs: Vec<(usize, Vec<P2>, Vec<P2>)> = vec![];
            let mut edges: Vec<usize> = vec![];
            for (e, k, step) in &self.creep {
                let i = crate::fw::idx(*e, pts.len() - 1);
                if edges.contains(&i) {
                    continue;
                }
                let (a, b) = (pts[i], pts[i + 1]);
                let len = d(&a, &b);
                let h = step.clamp(0.05, 0.98) * tol;
                if !(len > (*k as f64 * h) + 4.0 * tol) || *k == 0 {
                    continue;
                }
                let u = [(b[0] - a[0]) / len, (b[1] - a[1]) / len];
                let mut all: Vec<P2> = vec![];
                let mut kept: Vec<P2> = vec![];
                let mut last = a;
                let mut knife = false;
                for j in 1..=*k {
                    let q = [a[0] + u[0] * h * j as f64, a[1] + u[1] * h * j as f64];
                    let dq = d(&last, &q);
                    knife |= (dq - tol).abs() <= 1e-6 * tol;
                    if dq > tol {
                        kept.push(q);
                        last = q;
                    }
                    all.push(q);
                }
                // the far vertex must survive too
                if knife || d(&last, &b) <= 2.0 * tol {
                    continue;
                }
                edges.push(i);
                runs.push((i, all, kept));
            }
            runs.sort_by_key(|r| std::cmp::Reverse(r.0));
            for (i, all, kept) in runs {
                for (j, q) in all.into_iter().enumerate() {
                    input.insert(i + 1 + j, q);
                }
                for (j, q) in kept.into_iter().enumerate() {
                    expected.insert(i + 1 + j, q);
                }
            }
            return Some((crate::oracle::to_p2(&input), crate::oracle::to_p2(&expected), force, closed, mode));
        }
        // inject duplicates into the input only (processed from the back so indices stay valid)
        let mut ins: Vec<(usize, bool)> = self.dups.iter().map(|(i, e)| (crate::fw::idx(*i, input.len()), *e)).collect();
        ins.sort();
        ins.dedup_by_key(|x| x.0);
        for (i, exact) in ins.into_iter().rev() {
            let p = input[i];
            let q = if exact { p } else { [p[0] + tol / 3.0, p[1]] };
            input.insert(i + 1, q);
        }
        Some((crate::oracle::to_p2(&input), crate::oracle::to_p2(&expected), force, closed, mode))
    }

    pub fn build(&self) -> Result<Option<Built2>, String> {
        let Some((input, expected, force, closed, mode_used)) = self.plan() else { return Ok(None) };
        let curve = engeom::Curve2::from_points(&input, self.tol, force).map_err(|e| format!("Curve2::from_points failed: {e}"))?;
        let model = Poly::new(expected.clone());
        Ok(Some(Built2 { curve, expected, closed, model, input, force, mode_used }))
    }
}

pub fn close_mode() -> BoxedStrategy<CloseMode> {
    prop::sample::select(vec![CloseMode::Open, CloseMode::Open, CloseMode::ClosedExact, CloseMode::ClosedNear, CloseMode::ForceOpenInput, CloseMode::ForceClosedInput]).boxed()
}

/// curve spec with scale log-uniform in 10^[lo,hi]
pub fn curve2_spec(nmin: usize, nmax: usize, lo: f64, hi: f64, with_dups: bool) -> BoxedStrategy<Curve2Spec> {
    (unif(lo, hi), prop::sample::select(vec![1e-9, 1e-6, 1e-4]), close_mode(), prop::collection::vec((any::<u16>(), any::<bool>()), 0..4), prop_oneof![3 => Just(vec![]), 1 => prop::collection::vec((unif(-1.8, 1.8), unif(-1.8, 1.8)), 1..5)], prop_oneof![5 => Just(vec![]), 1 => prop::collection::vec((any::<u16>(), 2u8..40, unif(0.2, 0.95)), 1..3)])
        .prop_flat_map(move |(e, trel, mode, dups, seam, creep)| {
            let scale = 10f64.powf(e);
            polyline2(nmin, nmax, scale).prop_map(move |(_, pts)| Curve2Spec { pts, tol: trel * scale, mode, dups: if with_dups { dups.clone() } else { vec![] }, seam_cluster: if with_dups { seam.clone() } else { vec![] }, creep: if with_dups { creep.clone() } else { vec![] } })
        })
        .boxed()
}

/// as `curve2_spec(.., false)`, and one case in five carries finely sampled runs (see `Curve2Spec::creep`)
pub fn curve2_spec_fine(nmin: usize, nmax: usize, lo: f64, hi: f64) -> BoxedStrategy<Curve2Spec> {
    (curve2_spec(nmin, nmax, lo, hi, false), prop_oneof![4 => Just(vec![]), 1 => prop::collection::vec((any::<u16>(), 2u8..40, unif(0.2, 0.95)), 1..3)])
        .prop_map(|(mut spec, creep)| {
            spec.creep = creep;
            spec
        })
        .boxed()
}

#[derive(Clone, Debug, Serialize, Deserialize)]
pub struct Curve3Spec {
    pub pts: Vec<P3>,
    pub tol: f64,
    #[serde(default)]
    pub dups: Vec<(u16, bool)>,
}

pub struct Built3 {
    pub curve: engeom::Curve3,
    pub expected: Vec<Pt<3>>,
    pub model: Poly<3>,
}

impl Curve3Spec {
    pub fn build(&self) -> Result<Option<Built3>, String> {
        let tol = self.tol;
        let pts = enforce_gap3(&self.pts, 4.0 * tol);
        if pts.len() < 2 {
            return Ok(None);
        }
        let mut input = pts.clone();
        let mut ins: Vec<(usize, bool)> = self.dups.iter().map(|(i, e)| (crate::fw::idx(*i, input.len()), *e)).collect();
        ins.sort();
        ins.dedup_by_key(|x| x.0);
        for (i, exact) in ins.into_iter().rev() {
            let p = input[i];
            let q = if exact { p } else { [p[0] + tol / 3.0, p[1], p[2]] };
            input.insert(i + 1, q);
        }
        let expected = crate::oracle::to_p3(&pts);
        let curve = engeom::Curve3::from_points(&crate::oracle::to_p3(&input), tol).map_err(|e| format!("Curve3::from_points failed: {e}"))?;
        Ok(Some(Built3 { curve, model: Poly::new(expected.clone()), expected }))
    }
}

pub fn curve3_spec(nmin: usize, nmax: usize, lo: f64, hi: f64, with_dups: bool) -> BoxedStrategy<Curve3Spec> {
    (unif(lo, hi), prop::sample::select(vec![1e-9, 1e-6, 1e-4]), prop::collection::vec((any::<u16>(), any::<bool>()), 0..4))
        .prop_flat_map(move |(e, trel, dups)| {
            let scale = 10f64.powf(e);
            polyline3(nmin, nmax, scale).prop_map(move |(_, pts)| Curve3Spec { pts, tol: trel * scale, dups: if with_dups { dups.clone() } else { vec![] } })
        })
        .boxed()
}

// ---------------------------------------------------------------------------------------------
// A curve that was DERIVED from another one (resampled, simplified, cut, reversed, moved) must behave like a curve
// freshly built from its own visible vertices: its cumulative-length table, its total length and its stations are
// functions of those vertices, not of the curve it came from.

/// Checks the internal tables of a derived 2D curve against its own vertices; `site` prefixes the signatures.
pub fn derived_curve2_consistent(site: &str, c: &engeom::Curve2) -> Result<(), crate::fw::Failure> {
    let v = c.points();
    let model = Poly::new(v.to_vec());
    let scale = model.scale().max(1e-300);
    let ls = c.lengths();
    crate::ensure_r!(ls.len() == v.len(), format!("{site}/derived/lengths_count"), "{} cumulative lengths for {} vertices", ls.len(), v.len());
    for k in 0..v.len() {
        crate::ensure_r!((ls[k] - model.cum[k]).abs() <= 1e-9 * scale + 1e-12 * model.len(), format!("{site}/derived/length_table"), "cumulative length {k} is {:e} but the vertices give {:e} (total {:e})", ls[k], model.cum[k], model.len());
    }
    crate::ensure_r!((c.length() - model.len()).abs() <= 1e-9 * scale + 1e-12 * model.len(), format!("{site}/derived/length"), "length() = {:e} but the vertices give {:e}", c.length(), model.len());
    if c.is_closed() {
        crate::ensure_r!((v[0] - v[v.len() - 1]).norm() <= c.tol() + 1e-12 * scale, format!("{site}/derived/closed_flag"), "is_closed() but the end vertices are {:e} apart (tol {:e})", (v[0] - v[v.len() - 1]).norm(), c.tol());
    }
    for f in [0.23, 0.5, 0.81] {
        let l = f * model.len();
        if let Some(st) = c.at_length(l) {
            let want = model.point_at(l);
            crate::ensure_r!((st.point() - want).norm() <= 1e-9 * scale + 1e-9 * model.len(), format!("{site}/derived/station_off_own_vertices"), "at_length({l:e}) of the derived curve is {:e} from where its own vertices put it", (st.point() - want).norm());
        } else {
            return Err(crate::fw::failure(format!("{site}/derived/station_none"), format!("at_length({l:e}) is None on a derived curve of length {:e}", model.len())));
        }
    }
    Ok(())
}

pub fn derived_curve3_consistent(site: &str, c: &engeom::Curve3) -> Result<(), crate::fw::Failure> {
    let v = c.points();
    let model = Poly::new(v.to_vec());
    let scale = model.scale().max(1e-300);
    let ls = c.lengths();
    crate::ensure_r!(ls.len() == v.len(), format!("{site}/derived/lengths_count"), "{} cumulative lengths for {} vertices", ls.len(), v.len());
    for k in 0..v.len() {
        crate::ensure_r!((ls[k] - model.cum[k]).abs() <= 1e-9 * scale + 1e-12 * model.len(), format!("{site}/derived/length_table"), "cumulative length {k} is {:e} but the vertices give {:e}", ls[k], model.cum[k]);
    }
    crate::ensure_r!((c.length() - model.len()).abs() <= 1e-9 * scale + 1e-12 * model.len(), format!("{site}/derived/length"), "length() = {:e} but the vertices give {:e}", c.length(), model.len());
    for f in [0.23, 0.5, 0.81] {
        let l = f * model.len();
        if let Some(st) = c.at_length(l) {
            let want = model.point_at(l);
            crate::ensure_r!((st.point() - want).norm() <= 1e-9 * scale + 1e-9 * model.len(), format!("{site}/derived/station_off_own_vertices"), "at_length({l:e}) of the derived curve is {:e} from where its own vertices put it", (st.point() - want).norm());
        }
    }
    Ok(())
}
