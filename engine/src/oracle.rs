//! Brute-force reference implementations written for the harness (no engeom algorithm calls).

use parry2d_f64::na;

pub type Pt<const D: usize> = na::Point<f64, D>;
pub type Vc<const D: usize> = na::SVector<f64, D>;

pub fn dist<const D: usize>(a: &Pt<D>, b: &Pt<D>) -> f64 {
    (a - b).norm()
}

/// closest point on segment [a,b] to p; returns (point, t in [0,1])
pub fn closest_on_segment<const D: usize>(a: &Pt<D>, b: &Pt<D>, p: &Pt<D>) -> (Pt<D>, f64) {
    let ab = b - a;
    let l2 = ab.norm_squared();
    if l2 == 0.0 {
        return (*a, 0.0);
    }
    let t = ((p - a).dot(&ab) / l2).clamp(0.0, 1.0);
    (a + ab * t, t)
}

/// polyline reference model
#[derive(Clone, Debug)]
pub struct Poly<const D: usize> {
    pub v: Vec<Pt<D>>,
    pub cum: Vec<f64>,
}

impl<const D: usize> Poly<D> {
    pub fn new(v: Vec<Pt<D>>) -> Self {
        let mut cum = vec![0.0];
        for i in 0..v.len() - 1 {
            let d = dist(&v[i + 1], &v[i]);
            cum.push(cum[i] + d);
        }
        Poly { v, cum }
    }
    pub fn len(&self) -> f64 {
        *self.cum.last().unwrap()
    }
    pub fn n(&self) -> usize {
        self.v.len()
    }
    /// scale used for tolerances: largest coordinate magnitude plus total length
    pub fn scale(&self) -> f64 {
        let m = self.v.iter().flat_map(|p| p.iter().cloned().collect::<Vec<f64>>()).fold(0.0f64, |a, b| a.max(b.abs()));
        m + self.len()
    }
    /// point at arc length l by walking the vertices (l clamped to [0, L])
    pub fn point_at(&self, l: f64) -> Pt<D> {
        let n = self.n();
        if l <= 0.0 {
            return self.v[0];
        }
        for i in 0..n - 1 {
            if l <= self.cum[i + 1] {
                let e = self.cum[i + 1] - self.cum[i];
                let t = if e > 0.0 { (l - self.cum[i]) / e } else { 0.0 };
                return self.v[i] + (self.v[i + 1] - self.v[i]) * t;
            }
        }
        self.v[n - 1]
    }
    /// exhaustive closest point: (distance, point, edge index, t)
    pub fn closest(&self, p: &Pt<D>) -> (f64, Pt<D>, usize, f64) {
        let mut best = (f64::INFINITY, self.v[0], 0usize, 0.0);
        for i in 0..self.n() - 1 {
            let (c, t) = closest_on_segment(&self.v[i], &self.v[i + 1], p);
            let d = dist(&c, p);
            if d < best.0 {
                best = (d, c, i, t);
            }
        }
        best
    }
    pub fn dist_to(&self, p: &Pt<D>) -> f64 {
        self.closest(p).0
    }
    /// distance from p to edge i
    pub fn dist_to_edge(&self, i: usize, p: &Pt<D>) -> f64 {
        let (c, _) = closest_on_segment(&self.v[i], &self.v[i + 1], p);
        dist(&c, p)
    }
    /// arc-length positions (possibly several) at which the polyline passes within eps of p
    pub fn lengths_near(&self, p: &Pt<D>, eps: f64) -> Vec<f64> {
        let mut out = vec![];
        for i in 0..self.n() - 1 {
            let (c, t) = closest_on_segment(&self.v[i], &self.v[i + 1], p);
            if dist(&c, p) <= eps {
                out.push(self.cum[i] + t * (self.cum[i + 1] - self.cum[i]));
            }
        }
        out
    }
}

pub fn to_p2(v: &[[f64; 2]]) -> Vec<Pt<2>> {
    v.iter().map(|p| Pt::<2>::new(p[0], p[1])).collect()
}
pub fn to_p3(v: &[[f64; 3]]) -> Vec<Pt<3>> {
    v.iter().map(|p| Pt::<3>::new(p[0], p[1], p[2])).collect()
}

// ---------------------------------------------------------------------------------------------
// triangles

pub type P3 = Pt<3>;
pub type V3 = Vc<3>;

/// Ericson, Real-Time Collision Detection: closest point on triangle abc to p
pub fn closest_on_triangle(p: &P3, a: &P3, b: &P3, c: &P3) -> P3 {
    let ab = b - a;
    let ac = c - a;
    let ap = p - a;
    let d1 = ab.dot(&ap);
    let d2 = ac.dot(&ap);
    if d1 <= 0.0 && d2 <= 0.0 {
        return *a;
    }
    let bp = p - b;
    let d3 = ab.dot(&bp);
    let d4 = ac.dot(&bp);
    if d3 >= 0.0 && d4 <= d3 {
        return *b;
    }
    let vc = d1 * d4 - d3 * d2;
    if vc <= 0.0 && d1 >= 0.0 && d3 <= 0.0 {
        let v = d1 / (d1 - d3);
        return a + ab * v;
    }
    let cp = p - c;
    let d5 = ab.dot(&cp);
    let d6 = ac.dot(&cp);
    if d6 >= 0.0 && d5 <= d6 {
        return *c;
    }
    let vb = d5 * d2 - d1 * d6;
    if vb <= 0.0 && d2 >= 0.0 && d6 <= 0.0 {
        let w = d2 / (d2 - d6);
        return a + ac * w;
    }
    let va = d3 * d6 - d5 * d4;
    if va <= 0.0 && (d4 - d3) >= 0.0 && (d5 - d6) >= 0.0 {
        let w = (d4 - d3) / ((d4 - d3) + (d5 - d6));
        return b + (c - b) * w;
    }
    let denom = 1.0 / (va + vb + vc);
    let v = vb * denom;
    let w = vc * denom;
    a + ab * v + ac * w
}

pub fn tri_normal(a: &P3, b: &P3, c: &P3) -> Option<V3> {
    let n = (b - a).cross(&(c - a));
    let l = n.norm();
    if l > 0.0 {
        Some(n / l)
    } else {
        None
    }
}

pub fn tri_area(a: &P3, b: &P3, c: &P3) -> f64 {
    0.5 * (b - a).cross(&(c - a)).norm()
}

/// triangle soup reference model
#[derive(Clone, Debug)]
pub struct Soup {
    pub v: Vec<P3>,
    pub f: Vec<[u32; 3]>,
}

impl Soup {
    pub fn tri(&self, i: usize) -> (P3, P3, P3) {
        let f = self.f[i];
        (self.v[f[0] as usize], self.v[f[1] as usize], self.v[f[2] as usize])
    }
    /// exhaustive closest point: (distance, point, face)
    pub fn closest(&self, p: &P3) -> (f64, P3, usize) {
        let mut best = (f64::INFINITY, self.v[0], 0usize);
        for i in 0..self.f.len() {
            let (a, b, c) = self.tri(i);
            let q = closest_on_triangle(p, &a, &b, &c);
            let d = (q - p).norm();
            if d < best.0 {
                best = (d, q, i);
            }
        }
        best
    }
    pub fn dist_to_face(&self, i: usize, p: &P3) -> f64 {
        let (a, b, c) = self.tri(i);
        (closest_on_triangle(p, &a, &b, &c) - p).norm()
    }
    pub fn area(&self) -> f64 {
        (0..self.f.len()).map(|i| {
            let (a, b, c) = self.tri(i);
            tri_area(&a, &b, &c)
        }).sum()
    }
    pub fn size(&self) -> f64 {
        let mut lo = [f64::INFINITY; 3];
        let mut hi = [f64::NEG_INFINITY; 3];
        for p in &self.v {
            for k in 0..3 {
                lo[k] = lo[k].min(p[k]);
                hi[k] = hi[k].max(p[k]);
            }
        }
        ((hi[0] - lo[0]).powi(2) + (hi[1] - lo[1]).powi(2) + (hi[2] - lo[2]).powi(2)).sqrt()
    }
    pub fn max_abs(&self) -> f64 {
        self.v.iter().fold(0.0f64, |m, p| m.max(p.x.abs()).max(p.y.abs()).max(p.z.abs()))
    }
}
