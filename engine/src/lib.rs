//! The engine as a library, so that the fuzz targets under /verif/fuzz drive the same generators and oracles.
pub mod fw;
pub mod gen;
pub mod gen_mesh;
pub mod oracle;
pub mod props;

/// Map a property id to its module: `dispatch!(id, function_in_fw, args…)`
#[macro_export]
macro_rules! dispatch {
    ($id:expr, $f:ident, $default:expr, $($arg:expr),*) => {
        match $id {
            "C01" => $crate::fw::$f::<$crate::props::c01::C01>($($arg),*),
            "C02" => $crate::fw::$f::<$crate::props::c02::C02>($($arg),*),
            "C03" => $crate::fw::$f::<$crate::props::c03::C03>($($arg),*),
            "C04" => $crate::fw::$f::<$crate::props::c04::C04>($($arg),*),
            "C05" => $crate::fw::$f::<$crate::props::c05::C05>($($arg),*),
            "C06" => $crate::fw::$f::<$crate::props::c06::C06>($($arg),*),
            "C07" => $crate::fw::$f::<$crate::props::c07::C07>($($arg),*),
            "C08" => $crate::fw::$f::<$crate::props::c08::C08>($($arg),*),
            "C09" => $crate::fw::$f::<$crate::props::c09::C09>($($arg),*),
            "C10" => $crate::fw::$f::<$crate::props::c10::C10>($($arg),*),
            "C11" => $crate::fw::$f::<$crate::props::c11::C11>($($arg),*),
            "C12" => $crate::fw::$f::<$crate::props::c12::C12>($($arg),*),
            "C13" => $crate::fw::$f::<$crate::props::c13::C13>($($arg),*),
            "C14" => $crate::fw::$f::<$crate::props::c14::C14>($($arg),*),
            "C15" => $crate::fw::$f::<$crate::props::c15::C15>($($arg),*),
            "C16" => $crate::fw::$f::<$crate::props::c16::C16>($($arg),*),
            "C17" => $crate::fw::$f::<$crate::props::c17::C17>($($arg),*),
            "C18" => $crate::fw::$f::<$crate::props::c18::C18>($($arg),*),
            "C19" => $crate::fw::$f::<$crate::props::c19::C19>($($arg),*),
            "C20" => $crate::fw::$f::<$crate::props::c20::C20>($($arg),*),
            _ => $default,
        }
    };
}
