use engeom::common::AngleDir;
use engeom::geom2::hull::{ball_pivot_with_centers_2d, BallPivotEnd, BallPivotStart};
use engeom::Point2;
fn main() {
    let s = std::fs::read_to_string(std::env::args().nth(1).unwrap()).unwrap();
    let v: serde_json::Value = serde_json::from_str(&s).unwrap();
    let c = &v["Pivot"];
    let mut pts: Vec<Point2> = c["pts"].as_array().unwrap().iter().map(|p| Point2::new(p[0].as_f64().unwrap(), p[1].as_f64().unwrap())).collect();
    pts.sort_by(|a, b| a.x.partial_cmp(&b.x).unwrap().then(a.y.partial_cmp(&b.y).unwrap()));
    pts.dedup_by(|a, b| (*a - *b).norm() < 1e-6);
    let n = pts.len();
    let radius = c["radius"].as_f64().unwrap() * (100.0 / n as f64).sqrt();
    let dir = if c["cw"].as_bool().unwrap() { AngleDir::Cw } else { AngleDir::Ccw };
    let (idx, cen) = ball_pivot_with_centers_2d(&pts, BallPivotStart::StartOnConvex, BallPivotEnd::EndOnRepeat, dir, radius).unwrap();
    eprintln!("n={n} r={radius} cw={} steps={}", c["cw"], cen.len());
    for (s, cc) in cen.iter().enumerate() {
        let inside: Vec<(usize, f64)> = pts.iter().enumerate().filter(|(_, p)| (*p - cc).norm() < radius * (1.0 - 1e-6)).map(|(j, p)| (j, radius - (p - cc).norm())).collect();
        eprintln!("step {s}: {} {:?} -> {} {:?} centre {:?} inside {:?}", idx[s], pts[idx[s]], idx[s + 1], pts[idx[s+1]], cc, inside);
    }
}
