use engeom::{Iso3, Mesh, Plane3, Point3, UnitVec3, Vector3};
fn main() {
    let (sx, sy) = (0.5000000000011529, 3.1440666663858847);
    let ax = Vector3::new(0.49214432949105447, 0.4545131353375645, 0.7424363735401285).normalize() * -1.7179289291171027;
    let iso = Iso3::new(Vector3::new(0.09697189754511903, 3.220295049600743, -3.8621702057119656), ax);
    let v: Vec<Point3> = [[0.0, 0.0, 0.0], [sx, 0.0, 0.0], [0.0, sy, 0.0], [sx, sy, 0.0]].iter().map(|p| iso * Point3::new(p[0], p[1], p[2])).collect();
    for faces in [vec![[0u32, 1, 3], [0, 3, 2]], vec![[0u32, 1, 2], [1, 3, 2]]] {
        let m = Mesh::new(v.clone(), faces.clone(), false);
        let n = Vector3::new(-0.5759192141078121, 0.5932361426655713, 0.5624837223037782).normalize();
        let proj: Vec<f64> = v.iter().map(|p| n.dot(&p.coords)).collect();
        let (lo, hi) = (proj.iter().cloned().fold(f64::INFINITY, f64::min), proj.iter().cloned().fold(f64::NEG_INFINITY, f64::max));
        let d = lo + 0.7202451074742715 * (hi - lo);
        let plane = Plane3::new(UnitVec3::new_normalize(n), d);
        println!("faces {:?} proj {:?} d {d}", faces, proj);
        let which = std::env::args().nth(1).unwrap_or_default();
        if which == "section" {
            let c = m.section(&plane, Some(1e-9)).unwrap();
            println!("section ok: {} curves", c.len());
        } else {
            let r = m.split(&plane);
            println!("split ok: {}", match r { engeom::common::SplitResult::Pair(..) => "pair", engeom::common::SplitResult::Negative => "neg", _ => "pos" });
        }
    }
}
