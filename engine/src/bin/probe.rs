use parry2d_f64::na::{DMatrix, Matrix3};
fn main() {
    let mut s: u64 = 4242;
    let mut rnd = || { s ^= s << 13; s ^= s >> 7; s ^= s << 17; (s >> 11) as f64 / (1u64 << 53) as f64 };
    // variants: 0 default svd, 1 try_svd eps=1e-16 , 2 svd of transpose, 3 svd of gram, 4 QR then svd of R, 5 symmetric_eigen
    let mut worst = [0.0f64; 6];
    let mut bad = [0usize; 6];
    let total = 100000;
    for _ in 0..total {
        let n = 4 + (rnd() * 110.0) as usize;
        let kind = (rnd() * 4.0) as usize;
        let st = match kind { 0 => [1.0, 0.0, 0.0], 1 => [1.0, 0.5, 0.0], _ => [10f64.powf(2.0 * rnd() - 1.0), 10f64.powf(2.0 * rnd() - 1.0), 10f64.powf(2.0 * rnd() - 1.0)] };
        let mut m = DMatrix::<f64>::zeros(n, 3);
        for i in 0..n { for j in 0..3 { m[(i, j)] = (2.0 * rnd() - 1.0) * st[j]; } }
        let a = rnd() * 6.28; let (sa, ca) = a.sin_cos();
        let b = rnd() * 6.28; let (sb, cb) = b.sin_cos();
        for i in 0..n { let (x, y) = (m[(i,0)], m[(i,1)]); m[(i,0)] = ca*x - sa*y; m[(i,1)] = sa*x + ca*y;
                        let (y, z) = (m[(i,1)], m[(i,2)]); m[(i,1)] = cb*y - sb*z; m[(i,2)] = sb*y + cb*z; }
        // centre
        for j in 0..3 { let mean: f64 = (0..n).map(|i| m[(i,j)]).sum::<f64>() / n as f64; for i in 0..n { m[(i,j)] -= mean; } }
        let g: Matrix3<f64> = Matrix3::from_fn(|r, c| (0..n).map(|i| m[(i, r)] * m[(i, c)]).sum());
        // exact-ish reference: Jacobi on 3x3
        let mut aa = g; let mut ev = [0.0; 3];
        for _ in 0..60 { for (p, q) in [(0usize,1usize),(0,2),(1,2)] { if aa[(p,q)].abs() < 1e-300 { continue; }
            let th = (aa[(q,q)] - aa[(p,p)]) / (2.0 * aa[(p,q)]); let t = th.signum() / (th.abs() + (th*th + 1.0).sqrt()); let c = 1.0 / (t*t + 1.0).sqrt(); let sn = t * c;
            let mut r = Matrix3::<f64>::identity(); r[(p,p)] = c; r[(q,q)] = c; r[(p,q)] = sn; r[(q,p)] = -sn; aa = r.transpose() * aa * r; } }
        for k in 0..3 { ev[k] = aa[(k,k)].max(0.0).sqrt(); }
        ev.sort_by(|a, b| b.partial_cmp(a).unwrap());
        let cmp = |v: Vec<f64>| -> f64 { let mut v = v; v.sort_by(|a, b| b.partial_cmp(a).unwrap()); (0..3).map(|k| (v[k] - ev[k]).abs() / ev[0].max(1e-300)).fold(0.0, f64::max) };
        let r0 = cmp(m.clone().svd(false, true).singular_values.iter().cloned().collect());
        let r1 = cmp(m.clone().try_svd(false, true, 1e-16, 0).unwrap().singular_values.iter().cloned().collect());
        let r2 = cmp(m.transpose().svd(true, false).singular_values.iter().cloned().collect());
        let r3 = cmp(g.svd(false, true).singular_values.iter().map(|x| x.sqrt()).collect());
        let r4 = cmp(m.clone().qr().r().svd(false, true).singular_values.iter().cloned().collect());
        let r5 = cmp(g.symmetric_eigen().eigenvalues.iter().map(|x| x.max(0.0).sqrt()).collect());
        for (k, r) in [r0, r1, r2, r3, r4, r5].iter().enumerate() { worst[k] = worst[k].max(*r); if *r > 1e-6 { bad[k] += 1; } }
    }
    println!("worst {:?}\nbad(>1e-6) of {total}: {:?}", worst.map(|x| format!("{:.1e}", x)), bad);
}
