use engeom::geom2::polyline2::ray_intersect_with_edge;
use engeom::{Curve2, Point2, Vector2};
use parry2d_f64::query::Ray;
use parry2d_f64::shape::Polyline;
fn main() {
    let s = std::fs::read_to_string(std::env::args().nth(1).unwrap()).unwrap();
    let v: serde_json::Value = serde_json::from_str(&s).unwrap();
    let pts: Vec<Point2> = v["pts"].as_array().unwrap().iter().map(|p| Point2::new(p[0].as_f64().unwrap(), p[1].as_f64().unwrap())).collect();
    let mut pts = pts;
    pts.dedup();
    if v["closed"].as_bool().unwrap() { let f = pts[0]; pts.push(f); }
    let curve = Curve2::from_points(&pts, 1e-9, false).unwrap();
    let poly = Polyline::new(curve.points().to_vec(), None);
    let a: Vec<f64> = std::env::args().skip(2).map(|x| x.parse().unwrap()).collect();
    let ray = Ray::new(Point2::new(a[0], a[1]), Vector2::new(a[2], a[3]));
    let got = curve.ray_intersections(&ray);
    let mut naive = vec![];
    for i in 0..pts.len() - 1 {
        if let Some(t) = ray_intersect_with_edge(&poly, &ray, i) { naive.push((t, i)); }
    }
    naive.sort_by(|a, b| a.0.partial_cmp(&b.0).unwrap());
    println!("bvh   {:?}", got);
    println!("naive {:?}", naive);
}
