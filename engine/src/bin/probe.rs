use engeom::func1::Polynomial;
use parry2d_f64::na::DMatrix;
fn run<const K: usize>() {
    let mut s: u64 = 12345;
    let mut rnd = || { s ^= s << 13; s ^= s >> 7; s ^= s << 17; (s >> 11) as f64 / (1u64 << 53) as f64 };
    let mut worst = vec![0.0f64; 12];
    for _ in 0..20000 {
        let centre = -1.5 + 3.0 * rnd();
        let hw = 0.2 + 1.8 * rnd();
        let n = K + 3 + (rnd() * 30.0) as usize;
        let xs: Vec<f64> = (0..n).map(|_| centre + hw * (2.0 * rnd() - 1.0)).collect();
        let mut c = [0.0; K];
        for k in 0..K { c[k] = 20.0 * rnd() - 10.0; }
        let p = Polynomial::<K>::new(c);
        use engeom::func1::Func1;
        let ys: Vec<f64> = xs.iter().map(|x| p.f(*x)).collect();
        let mut m = DMatrix::<f64>::zeros(K, K);
        for r in 0..K { for cc in 0..K { m[(r, cc)] = xs.iter().map(|x| x.powi((r + cc) as i32)).sum(); } }
        let sv = m.svd(false, false).singular_values;
        let cond = sv.max() / sv.min();
        if !(cond < 1e12) { continue; }
        let fit = Polynomial::<K>::least_squares(&xs, &ys, None);
        let err = (0..K).map(|k| (fit.c[k] - c[k]).abs()).fold(0.0, f64::max);
        let b = cond.log10().floor() as usize;
        let ratio = err / (2.2e-16 * cond * 10.0);
        if ratio > worst[b.min(11)] { worst[b.min(11)] = ratio; }
    }
    println!("K={K} worst err/(eps*cond*10) by log10(cond) bucket: {:?}", worst.iter().map(|x| format!("{:.1e}", x)).collect::<Vec<_>>());
}
fn main() { run::<2>(); run::<3>(); run::<4>(); run::<5>(); run::<6>(); }
