//! C04 — Curve portions, splits, trims and reversal conserve length and endpoints

use crate::fw::*;
use crate::gen::*;
use crate::oracle::{Poly, Pt};
use crate::{ensure, ensure_r};
use engeom::geom2::Line2;
use engeom::Curve2;
use proptest::prelude::*;
use serde::{Deserialize, Serialize};

pub struct C04;

/// an arc length expressed relative to the current curve
#[derive(Clone, Debug, Serialize, Deserialize)]
pub enum Lp {
    V(u16),
    I(u16, f64),
    Zero,
    Total,
    /// outside the curve (below 0 / above L)
    Out(bool),
    /// -0.0: numerically the start of the curve
    NegZero,
}

/// second length of a pair: independent, or the first plus a multiple of the tolerance
#[derive(Clone, Debug, Serialize, Deserialize)]
pub enum Second {
    Free(Lp),
    DeltaTol(f64),
}

#[derive(Clone, Debug, Serialize, Deserialize)]
pub enum Op {
    Between(Lp, Second),
    ByControl(Lp, Lp, Lp),
    SplitOpen(Lp, bool),
    SplitClosed(Lp, Second, bool),
    TrimFront(Lp),
    TrimBack(Lp),
    Reversed,
}

#[derive(Clone, Debug, Serialize, Deserialize)]
pub struct Case {
    pub spec: Curve2Spec,
    pub ops: Vec<Op>,
}

fn lp() -> BoxedStrategy<Lp> {
    prop_oneof![
        4 => any::<u16>().prop_map(Lp::V),
        6 => (any::<u16>(), unif(0.0, 1.0)).prop_map(|(i, f)| Lp::I(i, f)),
        1 => Just(Lp::Zero),
        1 => Just(Lp::Total),
        1 => any::<bool>().prop_map(Lp::Out),
        1 => Just(Lp::NegZero),
    ]
    .boxed()
}
fn second() -> BoxedStrategy<Second> {
    prop_oneof![
        6 => lp().prop_map(Second::Free),
        1 => prop::sample::select(vec![0.5, 0.99, 1.01, 2.0, -0.5, -2.0, 5.0, -5.0, 0.0]).prop_map(Second::DeltaTol),
    ]
    .boxed()
}
fn op() -> BoxedStrategy<Op> {
    prop_oneof![
        5 => (lp(), second()).prop_map(|(a, b)| Op::Between(a, b)),
        2 => (lp(), lp(), lp()).prop_map(|(a, b, c)| Op::ByControl(a, b, c)),
        2 => (lp(), any::<bool>()).prop_map(|(a, k)| Op::SplitOpen(a, k)),
        2 => (lp(), second(), any::<bool>()).prop_map(|(a, b, k)| Op::SplitClosed(a, b, k)),
        1 => lp().prop_map(Op::TrimFront),
        1 => lp().prop_map(Op::TrimBack),
        1 => Just(Op::Reversed),
    ]
    .boxed()
}

impl Property for C04 {
    type Case = Case;
    const ID: &'static str = "C04";
    fn rule() -> &'static str {
        "a case is a history: a 2D curve (2-40 vertices, open/closed/force-closed, scale 1e-3..1e3, tol 1e-9..1e-4 of scale) and 1-5 operations (between_lengths, by_control, split_open, split_closed, trim_front/back, reversed) applied to the curve produced by the previous one; lengths are constructed from the current curve (exact vertex lengths, interior fractions, 0, -0.0, L, outside, first + k*tol). Oracle: end points equal the source's points at the requested lengths, every vertex of a piece lies on the source in increasing (seam-unwrapped) order, interior source vertices are all present, length = arc-length difference within 4 tol, ill-posed requests yield nothing. Non-trivial: closed curve with a seam-wrapping request, or an end point exactly on a vertex, or both ends on one edge. Distinct = distinct canonical JSON."
    }
    fn cases(t: Tier) -> u32 {
        t.pick(1_200_000, 10_000_000)
    }
    fn expected_labels() -> Vec<&'static str> {
        vec!["between_some", "between_none_required", "wraps_seam", "end_on_vertex", "same_edge", "split_open", "split_closed", "trim", "reversed", "by_control_inside", "by_control_outside", "history>=2", "delta_tol"]
    }
    fn strategy(_t: Tier) -> BoxedStrategy<Case> {
        (curve2_spec(2, 40, -3.0, 3.0, false), prop::collection::vec(op(), 1..6)).prop_map(|(spec, ops)| Case { spec, ops }).boxed()
    }
    fn check(case: &Case) -> Verdict {
        check(case)
    }
}

struct Cur {
    curve: Curve2,
    model: Poly<2>,
    closed: bool,
}

impl Cur {
    fn of(curve: Curve2) -> Cur {
        let model = Poly::new(curve.points().to_vec());
        let closed = curve.is_closed();
        Cur { curve, model, closed }
    }
    fn total(&self) -> f64 {
        self.curve.length()
    }
    fn resolve(&self, p: &Lp) -> (f64, bool) {
        // (length, exactly on a vertex)
        let lens = self.curve.lengths();
        let n = lens.len();
        match p {
            Lp::V(i) => (lens[idx(*i, n)], true),
            Lp::I(i, f) => {
                let k = idx(*i, n - 1);
                let l = (lens[k] + f * (lens[k + 1] - lens[k])).max(lens[k]).min(lens[k + 1]);
                (l, lens.contains(&l))
            }
            Lp::Zero => (0.0, true),
            Lp::NegZero => (-0.0, true),
            Lp::Total => (lens[n - 1], true),
            Lp::Out(neg) => (if *neg { -0.25 * lens[n - 1] - 1e-3 } else { lens[n - 1] * 1.25 + 1e-3 }, false),
        }
    }
    fn resolve2(&self, first: f64, s: &Second) -> (f64, bool) {
        match s {
            Second::Free(p) => self.resolve(p),
            Second::DeltaTol(k) => (first + k * self.curve.tol(), false),
        }
    }
    fn edge_of(&self, l: f64) -> usize {
        let lens = self.curve.lengths();
        let mut e = 0;
        for i in 0..lens.len() - 1 {
            if l >= lens[i] {
                e = i;
            }
        }
        e
    }
}

/// predicates that a returned piece `p` must satisfy as the portion of `s` from la to lb
fn check_piece(site: &str, s: &Cur, p: &Curve2, la: f64, lb: f64) -> Result<(), Failure> {
    // the piece is a curve in its own right: its tables follow from its own vertices
    derived_curve2_consistent(&format!("C04/{site}"), p)?;
    let tol = s.curve.tol();
    let total = s.total();
    let scale = s.model.scale();
    let eps = 1e-9 * scale;
    let wrap = lb < la;
    let ell = if wrap { total - (la - lb) } else { lb - la };
    let pa = s.model.point_at(la);
    let pb = s.model.point_at(lb);
    let pv: Vec<Pt<2>> = p.points().to_vec();
    ensure_r!(p.tol() == tol, format!("C04/{site}/tol_kept"), "piece has tol {:e}, source {:e}", p.tol(), tol);
    ensure_r!((pv[0] - pa).norm() <= tol + eps, format!("C04/{site}/front"), "piece starts at {:?}, source point at l={la:e} is {:?} (tol {tol:e})", pv[0], pa);
    ensure_r!((pv[pv.len() - 1] - pb).norm() <= tol + eps, format!("C04/{site}/back"), "piece ends at {:?}, source point at l={lb:e} is {:?} (tol {tol:e})", pv[pv.len() - 1], pb);
    // every vertex on the source, in source order (unwrapped through the seam)
    let mut prev = -(tol + eps) - 1e-300;
    for (j, q) in pv.iter().enumerate() {
        let cands = s.model.lengths_near(q, eps + if j == 0 || j == pv.len() - 1 { 0.0 } else { 0.0 });
        ensure_r!(!cands.is_empty(), format!("C04/{site}/vertex_off_source"), "piece vertex {j} {:?} is {:e} away from the source curve", q, s.model.dist_to(q));
        let mut ts: Vec<f64> = cands
            .iter()
            .flat_map(|c| {
                let t = c - la;
                if wrap || s.closed {
                    vec![t, t + total, t - total]
                } else {
                    vec![t]
                }
            })
            .filter(|t| *t > prev && *t <= ell + tol + eps)
            .collect();
        ts.sort_by(|a, b| a.partial_cmp(b).unwrap());
        ensure_r!(!ts.is_empty(), format!("C04/{site}/source_order"), "piece vertex {j} {:?} lies on the source at lengths {:?}, none of which continues the increasing sequence after {:e} within the requested range [{la:e} -> {lb:e}] (L={total:e})", q, cands, prev + la);
        prev = ts[0];
    }
    // interior source vertices are present
    let lens = s.curve.lengths();
    let sv = s.curve.points();
    let n = sv.len();
    let mut need: Vec<Pt<2>> = vec![];
    let mut inside_count = 0usize;
    let inside = |l: f64| -> bool {
        if wrap {
            l > la || l < lb
        } else {
            l > la && l < lb
        }
    };
    for i in 0..n {
        if s.closed && i == n - 1 {
            continue; // seam duplicate: vertex 0 stands for it
        }
        let li = lens[i];
        let is_in = if s.closed && i == 0 { wrap && la < total && lb > 0.0 } else { inside(li) };
        if is_in {
            inside_count += 1;
        }
        if is_in && (sv[i] - pa).norm() > tol * (1.0 + 1e-6) + eps && (sv[i] - pb).norm() > eps {
            need.push(sv[i]);
        }
    }
    for v in &need {
        let ok = pv.iter().any(|q| q == v) || (s.closed && *v == sv[0] && pv.iter().any(|q| *q == sv[n - 1]));
        ensure_r!(ok, format!("C04/{site}/interior_vertex_missing"), "source vertex {:?} lies strictly inside the requested range [{la:e} -> {lb:e}] but is not in the piece {:?}", v, pv);
    }
    ensure_r!(pv.len() <= inside_count + 2, format!("C04/{site}/extra_vertices"), "piece has {} vertices but only {} source vertices are inside the range", pv.len(), inside_count);
    let ltol = 4.0 * tol + 1e-9 * total + if wrap { tol } else { 0.0 };
    ensure_r!((p.length() - ell).abs() <= ltol, format!("C04/{site}/length"), "piece length {:e} but arc-length difference is {ell:e} (la={la:e}, lb={lb:e}, L={total:e}, tol={tol:e})", p.length());
    Ok(())
}

/// classification of a between request
enum Req {
    NoneRequired(&'static str),
    SomeRequired,
    DontCare,
}

fn classify(s: &Cur, la: f64, lb: f64) -> Req {
    let tol = s.curve.tol();
    let total = s.total();
    if la < 0.0 || lb < 0.0 || la > total || lb > total {
        return Req::NoneRequired("out_of_range");
    }
    let d = (lb - la).abs();
    if !s.closed && lb < la {
        return Req::NoneRequired("reversed_on_open");
    }
    if d < 0.999 * tol {
        // closed curve with lb slightly below la: "nearly the whole loop" vs "shorter than tol" is not settled by the statement
        if s.closed && lb < la {
            return Req::DontCare;
        }
        return Req::NoneRequired("shorter_than_tol");
    }
    if d <= 1.001 * tol {
        return Req::DontCare;
    }
    let ell = if lb < la { total - (la - lb) } else { lb - la };
    if ell >= 4.0 * tol {
        Req::SomeRequired
    } else {
        Req::DontCare
    }
}

fn do_between(cx: &mut Ctx, site: &str, s: &Cur, la: f64, lb: f64, got: Option<Curve2>) -> Result<Option<Curve2>, Failure> {
    match classify(s, la, lb) {
        Req::NoneRequired(why) => {
            ensure_r!(got.is_none(), format!("C04/{site}/ill_posed_returned_piece/{why}"), "ill-posed request ({why}: la={la:e}, lb={lb:e}, L={:e}, tol={:e}, closed={}) returned a piece of length {:e}", s.total(), s.curve.tol(), s.closed, got.as_ref().map(|c| c.length()).unwrap_or(0.0));
            cx.label("between_none_required");
            Ok(None)
        }
        Req::SomeRequired => {
            let Some(p) = got else {
                return Err(failure(format!("C04/{site}/well_posed_returned_none"), format!("well-posed request la={la:e}, lb={lb:e} on a curve with L={:e}, tol={:e}, closed={} returned nothing", s.total(), s.curve.tol(), s.closed)));
            };
            check_piece(site, s, &p, la, lb)?;
            cx.label("between_some");
            Ok(Some(p))
        }
        Req::DontCare => {
            if let Some(p) = &got {
                check_piece(site, s, p, la, lb)?;
            }
            cx.label("between_dont_care");
            Ok(got)
        }
    }
}

fn check(case: &Case) -> Verdict {
    let mut cx = Ctx::new();
    let b = match case.spec.build() {
        Ok(Some(b)) => b,
        Ok(None) => return Verdict::Discard("degenerate polyline"),
        Err(e) => return Verdict::fail("C04/from_points/rejected_valid", e),
    };
    let mut cur = Cur::of(b.curve);
    let mut applied = 0;
    let mut interesting = false;
    for op in &case.ops {
        if cur.curve.count() < 2 || cur.total() <= 8.0 * cur.curve.tol() {
            break;
        }
        let tol = cur.curve.tol();
        let total = cur.total();
        let mut next: Option<Curve2> = None;
        match op {
            Op::Between(a, bsel) => {
                let (la, va) = cur.resolve(a);
                let (lb, vb) = cur.resolve2(la, bsel);
                cx.label_if(matches!(bsel, Second::DeltaTol(_)), "delta_tol");
                let got = match guarded(|| cur.curve.between_lengths(la, lb)) {
                    Ok(g) => g,
                    Err(m) => return Verdict::fail("C04/between_lengths/panic", format!("between_lengths({la:e},{lb:e}) panicked: {m}")),
                };
                // consumer: the airfoil helper that cuts the section at the two ends of a spanning ray and keeps the short
                // piece.  With the ray drawn between the two stations it must return what the two orders of
                // between_lengths give: the first of (l0 -> l1), (l1 -> l0) that exists and is shorter than the stated
                // fraction of the perimeter, or nothing
                if la >= 0.0 && lb >= 0.0 && la <= total && lb <= total {
                    if let (Some(sa), Some(sb)) = (cur.curve.at_length(la), cur.curve.at_length(lb)) {
                        let (pa, pb) = (sa.point(), sb.point());
                        if (pa - pb).norm() > 100.0 * tol {
                            let ray = engeom::geom2::polyline2::SpanningRay::new(pa, pb);
                            let station = engeom::airfoil::InscribedCircle::new(ray, pb, pa, engeom::Circle2::from_point(pa + (pb - pa) * 0.5, 0.5 * (pb - pa).norm()));
                            let frac = if (la + lb) > total { 0.25 } else { 0.6 };
                            let l0 = cur.curve.at_closest_to_point(&station.spanning_ray.origin()).length_along();
                            let l1 = cur.curve.at_closest_to_point(&(station.spanning_ray.origin() + station.spanning_ray.dir())).length_along();
                            if let (Ok(c0), Ok(c1)) = (guarded(|| cur.curve.between_lengths(l0, l1)), guarded(|| cur.curve.between_lengths(l1, l0))) {
                                let want = [c0, c1].into_iter().flatten().find(|c| c.length() < total * frac);
                                let got_sub = match guarded(|| engeom::airfoil::helpers::extract_edge_sub_curve(&cur.curve, &station, if frac == 0.25 { None } else { Some(frac) })) {
                                    Ok(g) => g,
                                    Err(m) => return Verdict::fail("C04/extract_edge_sub_curve/panic", m),
                                };
                                match (&want, &got_sub) {
                                    (None, None) => {}
                                    (Some(w), Some(g)) => ensure!(w.points() == g.points(), "C04/extract_edge_sub_curve/wrong_piece", "stations {l0:e} and {l1:e} of a curve of length {total:e}: the helper returns a piece of length {:e}, the short piece between the stations has length {:e}", g.length(), w.length()),
                                    (Some(w), None) => return Verdict::fail("C04/extract_edge_sub_curve/well_posed_returned_none", format!("stations {l0:e} and {l1:e} of a{} curve of length {total:e}: a piece of length {:e} (shorter than {frac} of the perimeter) lies between them, the helper returns nothing", if cur.closed { " closed" } else { "n open" }, w.length())),
                                    (None, Some(g)) => return Verdict::fail("C04/extract_edge_sub_curve/unexpected_piece", format!("the helper returns a piece of length {:e}; neither order of the two stations gives a piece shorter than {frac} of the perimeter {total:e}", g.length())),
                                }
                                cx.label("edge_sub_curve");
                                cx.label_if(!cur.closed && l0 > l1, "edge_sub_curve_open_against_order");
                            }
                        }
                    }
                }
                match do_between(&mut cx, "between_lengths", &cur, la, lb, got) {
                    Ok(p) => {
                        if p.is_some() {
                            let wraps = cur.closed && lb < la;
                            let same_edge = !wraps && la >= 0.0 && lb <= total && cur.edge_of(la) == cur.edge_of(lb);
                            cx.label_if(wraps, "wraps_seam");
                            cx.label_if(va || vb, "end_on_vertex");
                            cx.label_if(same_edge, "same_edge");
                            if wraps || va || vb || same_edge {
                                interesting = true;
                            }
                        }
                        next = p;
                    }
                    Err(f) => return Verdict::Fail(f),
                }
            }
            Op::ByControl(a, b2, c) => {
                let (la, _) = cur.resolve(a);
                let (lb, _) = cur.resolve(b2);
                let (lc, _) = cur.resolve(c);
                if lc < 0.0 || lc > total {
                    // control position not on the curve: the statement does not say what to return
                    continue;
                }
                if la < 0.0 || lb < 0.0 || la > total || lb > total {
                    // out-of-range ends: nothing may be returned
                    let got = guarded(|| cur.curve.between_lengths_by_control(la, lb, lc));
                    match got {
                        Ok(g) => {
                            if let Some(p) = g {
                                return Verdict::fail("C04/by_control/ill_posed_returned_piece/out_of_range", format!("between_lengths_by_control({la:e},{lb:e},{lc:e}) with L={total:e} returned a piece of length {:e}", p.length()));
                            }
                        }
                        Err(m) => return Verdict::fail("C04/by_control/panic", m),
                    }
                    continue;
                }
                let (lo, hi) = (la.min(lb), la.max(lb));
                let got = match guarded(|| cur.curve.between_lengths_by_control(la, lb, lc)) {
                    Ok(g) => g,
                    Err(m) => return Verdict::fail("C04/by_control/panic", m),
                };
                // margin: the control position must be clearly inside or clearly outside
                let m = 2.0 * tol;
                let (ra, rb, kind) = if lc > lo + m && lc < hi - m {
                    (lo, hi, "inside")
                } else if lc < lo - m || lc > hi + m {
                    (hi, lo, "outside")
                } else {
                    continue;
                };
                if kind == "outside" && !cur.closed {
                    ensure!(got.is_none(), "C04/by_control/ill_posed_returned_piece/outside_on_open", "open curve, control {lc:e} outside [{lo:e},{hi:e}] returned a piece");
                    continue;
                }
                // required Some when the selected piece is well-posed
                match do_between(&mut cx, "by_control", &cur, ra, rb, got) {
                    Ok(Some(p)) => {
                        let pc = cur.model.point_at(lc);
                        let pm = Poly::new(p.points().to_vec());
                        let d = pm.dist_to(&pc);
                        ensure!(d <= tol + 1e-9 * cur.model.scale(), "C04/by_control/control_not_contained", "piece for (a={la:e}, b={lb:e}, control={lc:e}) is {d:e} away from the control position (L={total:e}, closed={})", cur.closed);
                        cx.label(if kind == "inside" { "by_control_inside" } else { "by_control_outside" });
                        if kind == "outside" {
                            cx.label("wraps_seam");
                            interesting = true;
                        }
                        next = Some(p);
                    }
                    Ok(None) => {}
                    Err(f) => return Verdict::Fail(f),
                }
            }
            Op::SplitOpen(a, keep_first) => {
                let (l, on_v) = cur.resolve(a);
                let got = match guarded(|| cur.curve.split_open_at_length(l)) {
                    Ok(g) => g,
                    Err(m) => return Verdict::fail("C04/split_open/panic", m),
                };
                if cur.closed {
                    ensure!(got.is_err(), "C04/split_open/closed_accepted", "split_open_at_length accepted a closed curve");
                    continue;
                }
                if l < 0.0 || l > total {
                    ensure!(got.is_err(), "C04/split_open/out_of_range_accepted", "split_open_at_length({l:e}) with L={total:e} returned pieces");
                    continue;
                }
                let well = l >= 4.0 * tol && total - l >= 4.0 * tol;
                match got {
                    Ok((p0, p1)) => {
                        if let Err(f) = check_piece("split_open(first)", &cur, &p0, 0.0, l) {
                            return Verdict::Fail(f);
                        }
                        if let Err(f) = check_piece("split_open(second)", &cur, &p1, l, total) {
                            return Verdict::Fail(f);
                        }
                        let gap = (p0.points()[p0.count() - 1] - p1.points()[0]).norm();
                        ensure!(gap <= tol + 1e-9 * cur.model.scale(), "C04/split_open/pieces_meet", "pieces are {gap:e} apart at the split point");
                        let sum = p0.length() + p1.length();
                        ensure!((sum - total).abs() <= 4.0 * tol + 1e-9 * total, "C04/split_open/lengths_sum", "piece lengths {:e} + {:e} != {total:e}", p0.length(), p1.length());
                        cx.label("split_open");
                        cx.label_if(on_v, "end_on_vertex");
                        if on_v {
                            interesting = true;
                        }
                        next = Some(if *keep_first { p0 } else { p1 });
                    }
                    Err(e) => {
                        ensure!(!well, "C04/split_open/well_posed_rejected", "split_open_at_length({l:e}) on an open curve with L={total:e}, tol={tol:e} failed: {e}");
                    }
                }
            }
            Op::SplitClosed(a, bsel, keep_first) => {
                let (l0, v0) = cur.resolve(a);
                let (l1, v1) = cur.resolve2(l0, bsel);
                let got = match guarded(|| cur.curve.split_closed_at_lengths(l0, l1)) {
                    Ok(g) => g,
                    Err(m) => return Verdict::fail("C04/split_closed/panic", m),
                };
                if !cur.closed {
                    ensure!(got.is_err(), "C04/split_closed/open_accepted", "split_closed_at_lengths accepted an open curve");
                    continue;
                }
                if l0 < 0.0 || l0 > total || l1 < 0.0 || l1 > total {
                    ensure!(got.is_err(), "C04/split_closed/out_of_range_accepted", "split_closed_at_lengths({l0:e},{l1:e}) with L={total:e} returned pieces");
                    continue;
                }
                let d = (l1 - l0).abs();
                let well = d >= 4.0 * tol && total - d >= 4.0 * tol;
                match got {
                    Ok((p0, p1)) => {
                        if let Err(f) = check_piece("split_closed(first)", &cur, &p0, l0, l1) {
                            return Verdict::Fail(f);
                        }
                        if let Err(f) = check_piece("split_closed(second)", &cur, &p1, l1, l0) {
                            return Verdict::Fail(f);
                        }
                        let sc = cur.model.scale();
                        let g0 = (p0.points()[p0.count() - 1] - p1.points()[0]).norm();
                        let g1 = (p1.points()[p1.count() - 1] - p0.points()[0]).norm();
                        ensure!(g0 <= tol + 1e-9 * sc && g1 <= tol + 1e-9 * sc, "C04/split_closed/pieces_meet", "pieces are {g0:e} / {g1:e} apart at the split points");
                        let sum = p0.length() + p1.length();
                        ensure!((sum - total).abs() <= 9.0 * tol + 1e-9 * total, "C04/split_closed/lengths_sum", "piece lengths {:e} + {:e} != {total:e}", p0.length(), p1.length());
                        // the piece whose second length is smaller goes through the seam
                        let through = if l1 < l0 { &p0 } else { &p1 };
                        if l0 != l1 && l0.min(l1) > tol && l0.max(l1) < total - tol {
                            let pm = Poly::new(through.points().to_vec());
                            let dseam = pm.dist_to(&cur.curve.points()[0]);
                            ensure!(dseam <= tol + 1e-9 * sc, "C04/split_closed/seam_piece", "the wrapping piece is {dseam:e} away from the seam vertex");
                        }
                        cx.label("split_closed");
                        cx.label("wraps_seam");
                        cx.label_if(v0 || v1, "end_on_vertex");
                        interesting = true;
                        next = Some(if *keep_first { p0 } else { p1 });
                    }
                    Err(e) => {
                        ensure!(!well, "C04/split_closed/well_posed_rejected", "split_closed_at_lengths({l0:e},{l1:e}) on a closed curve with L={total:e}, tol={tol:e} failed: {e}");
                    }
                }
            }
            Op::TrimFront(a) | Op::TrimBack(a) => {
                let front = matches!(op, Op::TrimFront(_));
                let (d, on_v) = cur.resolve(a);
                let site = if front { "trim_front" } else { "trim_back" };
                let got = match guarded(|| if front { cur.curve.trim_front(d) } else { cur.curve.trim_back(d) }) {
                    Ok(g) => g,
                    Err(m) => return Verdict::fail(format!("C04/{site}/panic"), m),
                };
                let (la, lb) = if front { (d, total) } else { (0.0, total - d) };
                match do_between(&mut cx, site, &cur, la, lb, got) {
                    Ok(Some(p)) => {
                        ensure!((p.length() - (total - d)).abs() <= 4.0 * tol + 1e-9 * total, format!("C04/{site}/removed_length"), "{site}({d:e}) left {:e} of {total:e}", p.length());
                        cx.label("trim");
                        cx.label_if(on_v, "end_on_vertex");
                        if on_v {
                            interesting = true;
                        }
                        next = Some(p);
                    }
                    Ok(None) => {}
                    Err(f) => return Verdict::Fail(f),
                }
            }
            Op::Reversed => {
                let r = match guarded(|| cur.curve.reversed()) {
                    Ok(r) => r,
                    Err(m) => return Verdict::fail("C04/reversed/panic", m),
                };
                let mut exp: Vec<Pt<2>> = cur.curve.points().to_vec();
                exp.reverse();
                ensure!(r.points() == &exp[..], "C04/reversed/vertices", "reversed() vertices are not the source's in reverse order");
                ensure!((r.length() - total).abs() <= 1e-12 * total, "C04/reversed/length", "reversed length {:e} vs {total:e}", r.length());
                ensure!(r.is_closed() == cur.closed, "C04/reversed/closedness", "reversed() closedness {} vs {}", r.is_closed(), cur.closed);
                ensure!(r.tol() == tol, "C04/reversed/tol", "reversed() tol changed");
                if let Err(f) = derived_curve2_consistent("C04/reversed", &r) {
                    return Verdict::Fail(f);
                }
                let lens = cur.curve.lengths().clone();
                for (i, l) in lens.iter().enumerate() {
                    for l in [*l, if i + 1 < lens.len() { 0.5 * (l + lens[i + 1]) } else { *l }] {
                        let a = cur.curve.at_length(l);
                        let bq = r.at_length((total - l).max(0.0).min(r.length()));
                        let (Some(a), Some(bq)) = (a, bq) else {
                            return Verdict::fail("C04/reversed/at_length_none", format!("at_length returned None at l={l:e} on source or reversed curve"));
                        };
                        ensure!((a.point() - bq.point()).norm() <= 1e-9 * cur.model.scale(), "C04/reversed/point_map", "R.at(L-l) = {:?} but S.at(l) = {:?} for l={l:e}", bq.point(), a.point());
                    }
                }
                cx.label("reversed");
                next = Some(r);
            }
        }
        if let Some(nx) = next {
            if nx.count() >= 2 {
                cur = Cur::of(nx);
                applied += 1;
            }
        }
    }
    cx.label_if(applied >= 2, "history>=2");
    if interesting {
        cx.nontrivial();
    }
    cx.pass()
}
