//! C08 — Alignment parameters round-trip and Jacobians are true derivatives

use crate::ensure;
use crate::fw::*;
use crate::gen::*;
use engeom::geom2::align2::verif_hooks::point_surface_jacobian;
use engeom::geom2::align2::{iso2_from_param, param_from_iso2, RcParams2};
use engeom::geom3::align3::jacobian::{point_plane_jacobian, point_plane_jacobian_rev, point_point_jacobian};
use engeom::geom3::align3::multi_param::ParamHandler;
use engeom::geom3::align3::{iso3_from_param, param_from_iso3, RcParams3, RotationMatrices};
use engeom::{Iso2, Iso3, Point2, Point3, SurfacePoint2, SurfacePoint3, Vector3};
use parry3d_f64::na::{DMatrix, DVector, Matrix3, Translation3, UnitQuaternion, Vector6};
use proptest::prelude::*;
use serde::{Deserialize, Serialize};
use std::f64::consts::{FRAC_PI_2, PI};

pub struct C08;

#[derive(Clone, Debug, Serialize, Deserialize)]
pub struct Euler {
    pub rx: f64,
    pub ry: f64,
    pub rz: f64,
}

#[derive(Clone, Debug, Serialize, Deserialize)]
pub enum Case {
    Rc2 { init: Iso2D, rc: P2, x: [f64; 3], p: P2, sp: P2, spn: f64, v: P2 },
    Rc3 { e: Euler, t: P3, rc: P3, x: [f64; 6], p: P3, n: P3, d: f64, v: P3 },
    Handler { n: usize, static_i: u8, bodies: Vec<(Euler, P3, P3)>, with_initial: bool, x: Vec<f64> },
}

fn pitch() -> BoxedStrategy<f64> {
    prop_oneof![
        6 => unif(-PI, PI),
        2 => (any::<bool>(), prop::sample::select(vec![0.0, 1e-12, 1e-9, 1e-6, 1e-4, 1e-2, -1e-12, -1e-9, -1e-6, -1e-4, -1e-2])).prop_map(|(neg, d)| if neg { -FRAC_PI_2 + d } else { FRAC_PI_2 + d }),
    ]
    .boxed()
}

fn euler() -> BoxedStrategy<Euler> {
    (unif(-PI, PI), pitch(), unif(-PI, PI)).prop_map(|(rx, ry, rz)| Euler { rx, ry, rz }).boxed()
}

impl Property for C08 {
    type Case = Case;
    const ID: &'static str = "C08";
    fn rule() -> &'static str {
        "families: 2D and 3D rotation-centred parameter objects built from an initial isometry (3D: Euler triples incl. pitch exactly +-pi/2 and +-pi/2 +- 1e-12..1e-2) and a rotation centre up to 1e3 from the origin, followed by a parameter update x (rotations up to +-pi, translations up to 1e3), a test point and a reference surface point on whose normal line the test point lies at signed offset d, 0.01..20 or, in a fifth of the cases, 1e-6..1e-2 with all coordinates within about 10 (the documented precondition of the plane Jacobians), every parameter index; multi-body handlers with 2-5 bodies, any static index, optional initial isometries. Oracle: round trips, inverse/centre consistency, pure-translation law, central finite differences (h = 1e-6(1+|x_k|)) of the residual each Jacobian differentiates, finite differences of Rx*Ry*Rz. Non-trivial: rotation centre farther than 10 from the origin and a rotation that is not axis-aligned. Distinct = distinct canonical JSON."
    }
    fn cases(t: Tier) -> u32 {
        t.pick(3_000_000, 20_000_000)
    }
    fn expected_labels() -> Vec<&'static str> {
        vec!["rc2", "rc3", "handler", "gimbal_exact", "gimbal_near", "large_rc", "handler_initial", "handler_identity", "offset_below_1e-4"]
    }
    fn strategy(_t: Tier) -> BoxedStrategy<Case> {
        let tr = |m: f64| prop_oneof![3 => unif(-10.0, 10.0), 1 => unif(-m, m)];
        let rc2 = (iso2(1e3), (tr(1e3), tr(1e3)), (tr(1e3), tr(1e3), unif(-PI, PI)), p2(50.0), p2(50.0), unif(-PI, PI), p2(100.0)).prop_map(|(init, rc, x, p, sp, spn, v)| Case::Rc2 { init, rc: [rc.0, rc.1], x: [x.0, x.1, x.2], p, sp, spn, v });
        let rc3 = (euler(), (tr(1e3), tr(1e3), tr(1e3)), (tr(1e3), tr(1e3), tr(1e3)), ((tr(1e3), tr(1e3), tr(1e3)), euler()), p3(50.0), unit3(), prop_oneof![unif(-20.0, -0.01), unif(0.01, 20.0)], p3(100.0), prop::option::weighted(0.2, (logu(-6.0, -2.0), any::<bool>())))
            .prop_map(|(e, t, rc, (xt, xe), p, n, d, v, close)| match close {
                // test point and reference point 1e-6..1e-2 apart, everything else within about 10 of the origin so that the
                // finite differences keep their accuracy
                Some((dd, neg)) => Case::Rc3 { e, t: [t.0 * 0.01, t.1 * 0.01, t.2 * 0.01], rc: [rc.0 * 0.01, rc.1 * 0.01, rc.2 * 0.01], x: [xt.0 * 0.01, xt.1 * 0.01, xt.2 * 0.01, xe.rx, xe.ry, xe.rz], p: [p[0] * 0.2, p[1] * 0.2, p[2] * 0.2], n, d: if neg { -dd } else { dd }, v },
                None => Case::Rc3 { e, t: [t.0, t.1, t.2], rc: [rc.0, rc.1, rc.2], x: [xt.0, xt.1, xt.2, xe.rx, xe.ry, xe.rz], p, n, d, v },
            });
        let handler = (2usize..=5, any::<u8>(), prop::collection::vec((euler(), p3(100.0), p3(100.0)), 5), any::<bool>(), prop::collection::vec(unif(-3.0, 3.0), 24)).prop_map(|(n, static_i, bodies, with_initial, x)| Case::Handler { n, static_i, bodies, with_initial, x });
        prop_oneof![3 => rc2, 6 => rc3, 2 => handler].boxed()
    }
    fn check(case: &Case) -> Verdict {
        match case {
            Case::Rc2 { init, rc, x, p, sp, spn, v } => rc2(init, rc, x, p, sp, *spn, v),
            Case::Rc3 { e, t, rc, x, p, n, d, v } => rc3(e, t, rc, x, p, n, *d, v),
            Case::Handler { n, static_i, bodies, with_initial, x } => handler(*n, *static_i, bodies, *with_initial, x),
        }
    }
}

fn rc2(init: &Iso2D, rc: &P2, x: &[f64; 3], p: &P2, sp: &P2, spn: f64, v: &P2) -> Verdict {
    let mut cx = Ctx::new();
    cx.label("rc2");
    let t0 = init.to_iso();
    let rcp = pt2(rc);
    let mag = 1.0 + rcp.coords.norm() + t0.translation.vector.norm();
    let tol = 1e-9 * mag;
    let mut params = RcParams2::from_initial(&t0, &rcp);
    let same = |a: &Iso2, b: &Iso2, tol: f64| (a.translation.vector - b.translation.vector).norm() <= tol && (a.rotation.angle() - b.rotation.angle()).sin().abs() <= 1e-9 && (a.rotation.angle() - b.rotation.angle()).cos() > 0.0;
    ensure!(same(params.transform(), &t0, tol), "C08/rc2/from_initial_round_trip", "from_initial(T, rc).transform() = {:?}, T = {:?}", params.transform(), t0);
    ensure!((params.current_rc() - t0 * rcp).norm() <= tol, "C08/rc2/current_rc_initial", "current_rc is not T*rc after from_initial");
    ensure!(*params.rc() == rcp, "C08/rc2/rc", "rc changed");
    // parameter <-> isometry round trip
    let back = iso2_from_param(&param_from_iso2(&t0));
    ensure!(same(&back, &t0, 1e-9 * (1.0 + t0.translation.vector.norm())), "C08/iso2_param_round_trip", "iso2_from_param(param_from_iso2(T)) != T");
    // update
    let xv = parry2d_f64::na::Vector3::new(x[0], x[1], x[2]);
    params.set(&xv);
    let mag = mag + x[0].abs() + x[1].abs();
    let tol = 1e-9 * mag;
    let tr = *params.transform();
    let prod = params.inverse() * tr;
    ensure!(prod.translation.vector.norm() <= tol && prod.rotation.angle().abs() <= 1e-9, "C08/rc2/inverse", "inverse * transform is not the identity");
    ensure!((params.current_rc() - tr * rcp).norm() <= tol, "C08/rc2/current_rc", "current_rc is not transform*rc after set");
    ensure!((params.rotation().rotation.angle() - tr.rotation.angle()).sin().abs() <= 1e-9 && params.rotation().translation.vector.norm() == 0.0, "C08/rc2/rotation", "rotation() is not the rotation part of the transform");
    ensure!(*params.x() == xv, "C08/rc2/x", "x() is not the value set");
    // pure translation law
    let q = pt2(p);
    let dv = crate::gen::v2(v);
    let mut moved = params.clone();
    moved.set(&parry2d_f64::na::Vector3::new(x[0] + dv.x, x[1] + dv.y, x[2]));
    let diff = (moved.transform() * q) - (tr * q);
    ensure!((diff - dv).norm() <= 1e-9 * (mag + dv.norm() + q.coords.norm()), "C08/rc2/pure_translation", "changing only the translation parameters by {:?} moved a point by {:?} (rc {:?})", dv, diff, rcp);
    // history of updates on one object: translation-only, then angle too, then back
    let mut hist = moved.clone();
    for (step, xs) in [(2, [x[0] + dv.x, x[1] + dv.y, x[2]]), (3, [x[0] + dv.x, x[1] + dv.y, x[2] + 0.4]), (4, [x[0], x[1] - dv.y, x[2] + 0.4])] {
        let xs = parry2d_f64::na::Vector3::new(xs[0], xs[1], xs[2]);
        hist.set(&xs);
        let trh = *hist.transform();
        let m2 = mag + dv.norm();
        let prod = hist.inverse() * trh;
        ensure!(prod.translation.vector.norm() <= 1e-9 * m2 && prod.rotation.angle().abs() <= 1e-9, "C08/rc2/history/inverse", "after update {step} inverse * transform is not the identity");
        ensure!((hist.current_rc() - trh * rcp).norm() <= 1e-9 * m2, "C08/rc2/history/current_rc", "after update {step} current_rc is not transform*rc");
        let mut fresh = RcParams2::from_initial(&t0, &rcp);
        fresh.set(&xs);
        ensure!(same(fresh.transform(), &trh, 1e-9 * m2), "C08/rc2/history/path_dependent", "after update {step} the transform differs from that of a fresh object with the same parameters");
    }
    // Jacobian vs central finite differences of n . (T(x) T(x0)^-1 p - c)
    let s = SurfacePoint2::new_normalize(pt2(sp), engeom::Vector2::new(spn.cos(), spn.sin()));
    let pc = tr * q; // the current (already transformed) test point
    let jac = point_surface_jacobian(&pc, &s, &params);
    let ti = tr.inverse();
    for k in 0..3 {
        let h = 1e-6 * (1.0 + x[k].abs());
        let mut f = [0.0; 2];
        for (j, sgn) in [(0, -1.0), (1, 1.0)] {
            let mut xx = xv;
            xx[k] += sgn * h;
            let mut pr = params.clone();
            pr.set(&xx);
            let m = (pr.transform() * ti) * pc;
            f[j] = s.scalar_projection(&m);
        }
        let fd = (f[1] - f[0]) / (2.0 * h);
        let arm = 1.0 + (pc - params.current_rc()).norm();
        ensure!((fd - jac[k]).abs() <= 1e-5 * arm, format!("C08/jacobian2/point_surface/param{k}"), "analytic {:e} vs finite difference {fd:e} for parameter {k} (|p - rc| = {:e})", jac[k], arm - 1.0);
    }
    let generic = (x[2] / FRAC_PI_2 - (x[2] / FRAC_PI_2).round()).abs() > 1e-3;
    cx.label_if(rcp.coords.norm() > 10.0, "large_rc");
    if rcp.coords.norm() > 10.0 && generic {
        cx.nontrivial();
    }
    cx.pass()
}

fn rmat(e: &[f64]) -> Matrix3<f64> {
    let (sx, cx) = e[0].sin_cos();
    let (sy, cy) = e[1].sin_cos();
    let (sz, cz) = e[2].sin_cos();
    let rx = Matrix3::new(1.0, 0.0, 0.0, 0.0, cx, -sx, 0.0, sx, cx);
    let ry = Matrix3::new(cy, 0.0, sy, 0.0, 1.0, 0.0, -sy, 0.0, cy);
    let rz = Matrix3::new(cz, -sz, 0.0, sz, cz, 0.0, 0.0, 0.0, 1.0);
    rx * ry * rz
}

fn iso_from(e: &Euler, t: &P3) -> Iso3 {
    let m = rmat(&[e.rx, e.ry, e.rz]);
    let q = UnitQuaternion::from_rotation_matrix(&parry3d_f64::na::Rotation3::from_matrix_unchecked(m));
    Iso3::from_parts(Translation3::new(t[0], t[1], t[2]), q)
}

/// tolerance for rotation-matrix comparisons: the documented gimbal band loses precision
fn band(pitch: f64) -> (f64, bool) {
    // (the decomposition used to snap the middle angle inside a band around gimbal lock and the tolerance was 2e-4
    // there; it is exact at every pose now and so is the tolerance — the flag only labels the cases)
    let c = pitch.cos().abs();
    (1e-9, c < 2e-4)
}

fn rot_diff(a: &UnitQuaternion<f64>, b: &UnitQuaternion<f64>) -> f64 {
    (a.to_rotation_matrix().matrix() - b.to_rotation_matrix().matrix()).amax()
}

#[allow(clippy::too_many_arguments)]
fn rc3(e: &Euler, t: &P3, rc: &P3, x: &[f64; 6], p: &P3, n: &P3, d: f64, v: &P3) -> Verdict {
    let mut cx = Ctx::new();
    cx.label("rc3");
    let t0 = iso_from(e, t);
    let rcp = pt3(rc);
    let mag = 1.0 + rcp.coords.norm() + t0.translation.vector.norm();
    let (rtol0, inband0) = band(e.ry);
    cx.label_if(inband0 && (e.ry.abs() - FRAC_PI_2).abs() == 0.0, "gimbal_exact");
    cx.label_if(inband0 && (e.ry.abs() - FRAC_PI_2).abs() > 0.0, "gimbal_near");
    // (b) parameter <-> isometry, rotation decomposition
    let rm = RotationMatrices::from_rotation(&t0.rotation);
    ensure!(rot_diff(&rm.q, &t0.rotation) <= rtol0, "C08/rotations/from_rotation_round_trip", "from_rotation(q).q differs from q by {:e} (pitch {:e}, tolerance {rtol0:e})", rot_diff(&rm.q, &t0.rotation), e.ry);
    let back = iso3_from_param(&param_from_iso3(&t0));
    // isometry -> six parameters -> isometry is the identity at every pose, gimbal lock included: the rotation a set of
    // angles denotes is unique even where the angles are not
    ensure!(rot_diff(&back.rotation, &t0.rotation) <= 1e-12 && (back.translation.vector - t0.translation.vector).norm() <= 1e-12 * mag, "C08/iso3_param_round_trip", "iso3_from_param(param_from_iso3(T)) differs from T by {:e} (pitch {:e})", rot_diff(&back.rotation, &t0.rotation), e.ry);
    // the six parameters are z-y-x angles, the generated pose is composed x-y-z: its inverse is a z-y-x composition with
    // pitch -ry, so the constructed gimbal poses are gimbal poses of the parameter convention for the inverse
    let t0i = t0.inverse();
    let backi = iso3_from_param(&param_from_iso3(&t0i));
    ensure!(rot_diff(&backi.rotation, &t0i.rotation) <= 1e-12 && (backi.translation.vector - t0i.translation.vector).norm() <= 1e-12 * (mag + t0i.translation.vector.norm()), "C08/iso3_param_round_trip/zyx", "iso3_from_param(param_from_iso3(T)) differs from T by {:e} for the z-y-x pose with pitch {:e}", rot_diff(&backi.rotation, &t0i.rotation), -e.ry);
    // (a) from_initial reproduces the isometry
    let mut params = RcParams3::from_initial(&t0, &rcp);
    let tr0 = *params.transform();
    let lever = 1.0 + rcp.coords.norm();
    ensure!(rot_diff(&tr0.rotation, &t0.rotation) <= rtol0, "C08/rc3/from_initial_rotation", "from_initial(T, rc).transform() rotation differs from T by {:e} (pitch {:e}, tolerance {rtol0:e})", rot_diff(&tr0.rotation, &t0.rotation), e.ry);
    // the centre itself always lands where T puts it
    ensure!((tr0 * rcp - t0 * rcp).norm() <= 1e-9 * mag, "C08/rc3/from_initial_centre", "from_initial: transform*rc is {:e} from T*rc", (tr0 * rcp - t0 * rcp).norm());
    ensure!((tr0.translation.vector - t0.translation.vector).norm() <= 1e-9 * mag + 2.0 * rtol0 * lever, "C08/rc3/from_initial_translation", "from_initial translation differs by {:e}", (tr0.translation.vector - t0.translation.vector).norm());
    ensure!((params.current_rc() - t0 * rcp).norm() <= 1e-9 * mag, "C08/rc3/current_rc_initial", "current_rc is not T*rc after from_initial");
    // update
    let xv = Vector6::new(x[0], x[1], x[2], x[3], x[4], x[5]);
    params.set(&xv);
    let mag = mag + x[0].abs() + x[1].abs() + x[2].abs();
    let tol = 1e-9 * mag;
    let tr = *params.transform();
    let prod = params.inverse() * tr;
    ensure!(prod.translation.vector.norm() <= tol && prod.rotation.angle().abs() <= 1e-9, "C08/rc3/inverse", "inverse * transform is not the identity (|t| {:e}, angle {:e})", prod.translation.vector.norm(), prod.rotation.angle());
    ensure!((params.current_rc() - tr * rcp).norm() <= tol, "C08/rc3/current_rc", "current_rc is not transform*rc after set");
    // the rotation acts about rc, then the translation parameters are added on top of the initial displacement of rc
    let expect_rc = t0 * rcp + Vector3::new(x[0], x[1], x[2]);
    ensure!((tr * rcp - expect_rc).norm() <= tol, "C08/rc3/centre_motion", "transform*rc = {:?}, expected initial*rc + translation parameters = {:?}", tr * rcp, expect_rc);
    // pure translation law
    let q = pt3(p);
    let dv = v3(v);
    let mut moved = params.clone();
    moved.set(&Vector6::new(x[0] + dv.x, x[1] + dv.y, x[2] + dv.z, x[3], x[4], x[5]));
    let diff = (moved.transform() * q) - (tr * q);
    ensure!((diff - dv).norm() <= 1e-9 * (mag + dv.norm() + q.coords.norm()), "C08/rc3/pure_translation", "changing only the translation parameters by {:?} moved a point by {:?}", dv, diff);
    // ... and the object stays consistent through a history of updates: after this second, translation-only update and
    // after a third one that changes the angles again, inverse and moved centre describe the current transform
    let mut hist = moved.clone();
    for (step, xs) in [
        (2, Vector6::new(x[0] + dv.x, x[1] + dv.y, x[2] + dv.z, x[3], x[4], x[5])),
        (3, Vector6::new(x[0] + dv.x, x[1] + dv.y, x[2] + dv.z, x[3] + 0.3, x[4] - 0.2, x[5] + 0.7)),
        (4, Vector6::new(x[0], x[1] - dv.y, x[2], x[3] + 0.3, x[4] - 0.2, x[5] + 0.7)),
    ] {
        hist.set(&xs);
        let trh = *hist.transform();
        let m2 = mag + dv.norm();
        let prod = hist.inverse() * trh;
        ensure!(prod.translation.vector.norm() <= 1e-9 * m2 && prod.rotation.angle().abs() <= 1e-9, "C08/rc3/history/inverse", "after update {step} inverse * transform is not the identity (|t| {:e}, angle {:e})", prod.translation.vector.norm(), prod.rotation.angle());
        ensure!((hist.current_rc() - trh * rcp).norm() <= 1e-9 * m2, "C08/rc3/history/current_rc", "after update {step} current_rc is not transform*rc");
        let expect = t0 * rcp + Vector3::new(xs[0], xs[1], xs[2]);
        ensure!((trh * rcp - expect).norm() <= 1e-9 * m2, "C08/rc3/history/centre_motion", "after update {step} transform*rc = {:?}, expected {:?}", trh * rcp, expect);
        // the same parameters set on a fresh object give the same transform: no dependence on the history
        let mut fresh = RcParams3::from_initial(&t0, &rcp);
        fresh.set(&xs);
        let df = fresh.transform().inverse() * trh;
        ensure!(df.translation.vector.norm() <= 1e-9 * m2 && df.rotation.angle().abs() <= 1e-9, "C08/rc3/history/path_dependent", "after update {step} the transform differs from that of a fresh object with the same parameters");
    }
    // Euler derivative matrices vs finite differences of Rx Ry Rz, and rd = d R^T
    let rot = params.rotations();
    let lib_r = |e: &[f64]| *RotationMatrices::from_euler(e[0], e[1], e[2]).q.to_rotation_matrix().matrix();
    let r_now = lib_r(&x[3..6]);
    for (k, (dm, rdm)) in [(&rot.d.x, &rot.rd.x), (&rot.d.y, &rot.rd.y), (&rot.d.z, &rot.rd.z)].iter().enumerate() {
        let h = 1e-6;
        let mut ep = [x[3], x[4], x[5]];
        let mut em = ep;
        ep[k] += h;
        em[k] -= h;
        let fd = (lib_r(&ep) - lib_r(&em)) / (2.0 * h);
        ensure!((fd - **dm).amax() <= 1e-8, format!("C08/rotations/d{k}"), "derivative matrix {k} differs from the finite difference of the rotation matrix by {:e} (angles {:?})", (fd - **dm).amax(), &x[3..6]);
        ensure!((**dm * r_now.transpose() - **rdm).amax() <= 1e-12, format!("C08/rotations/rd{k}"), "rd[{k}] is not d[{k}] R^T");
    }
    // Jacobians: the reference surface point c has the (current) test point on its normal line at signed offset d
    let pc = tr * q;
    let nn = v3(n).normalize();
    let c = SurfacePoint3::new_normalize(pc - nn * d, nn);
    let ti = tr.inverse();
    let arm = 1.0 + (pc - params.current_rc()).norm() + d.abs();
    let jp = point_plane_jacobian(&pc, &c, &params);
    let jr = point_plane_jacobian_rev(&pc, &c, &params);
    let jq = point_point_jacobian(&pc, &c.point, &params);
    for k in 0..6 {
        // the step keeps the induced motion far below the offset d, where |.| and the point distance are nonlinear
        // (for offsets below 0.01 a larger fraction of the offset, or rounding of the coordinates would swamp the difference)
        let fac = if d.abs() < 0.01 { 3e-3 } else { 1e-4 };
        let h = if k < 3 { (1e-6 * (1.0 + x[k].abs())).min(fac * d.abs()) } else { (1e-6f64).min(fac * d.abs() / arm) };
        let mut f = [[0.0; 2]; 3];
        for (j, sgn) in [(0, -1.0), (1, 1.0)] {
            let mut xx = xv;
            xx[k] += sgn * h;
            let mut pr = params.clone();
            pr.set(&xx);
            let delta = pr.transform() * ti;
            let m = delta * pc;
            f[0][j] = c.scalar_projection(&m).abs();
            f[1][j] = c.transformed(&delta).scalar_projection(&pc).abs();
            f[2][j] = (m - c.point).norm();
        }
        let tolj = 1e-5 * arm;
        let fd0 = (f[0][1] - f[0][0]) / (2.0 * h);
        ensure!((fd0 - jp[k]).abs() <= tolj, format!("C08/jacobian3/point_plane/param{k}"), "analytic {:e} vs finite difference {fd0:e} of |n.(T p - c)| for parameter {k} (lever {:e}, offset {d:e})", jp[k], arm);
        let fd1 = (f[1][1] - f[1][0]) / (2.0 * h);
        ensure!((fd1 - jr[k]).abs() <= tolj, format!("C08/jacobian3/point_plane_rev/param{k}"), "analytic {:e} vs finite difference {fd1:e} of the reference-side distance for parameter {k} (lever {:e}, offset {d:e})", jr[k], arm);
        let fd2 = (f[2][1] - f[2][0]) / (2.0 * h);
        ensure!((fd2 - jq[k]).abs() <= tolj, format!("C08/jacobian3/point_point/param{k}"), "analytic {:e} vs finite difference {fd2:e} of |T p - c| for parameter {k}", jq[k]);
    }
    cx.label_if(d.abs() < 1e-4, "offset_below_1e-4");
    let generic = [x[3], x[4], x[5]].iter().all(|a| (a / FRAC_PI_2 - (a / FRAC_PI_2).round()).abs() > 1e-3);
    cx.label_if(rcp.coords.norm() > 10.0, "large_rc");
    if rcp.coords.norm() > 10.0 && generic {
        cx.nontrivial();
    }
    cx.pass()
}

fn handler(n: usize, static_i: u8, bodies: &[(Euler, P3, P3)], with_initial: bool, x: &[f64]) -> Verdict {
    let mut cx = Ctx::new();
    cx.label("handler");
    let n = n.clamp(2, 5);
    let si = static_i as usize % n;
    let means: Vec<Point3> = bodies[..n].iter().map(|b| pt3(&b.2)).collect();
    let initial: Vec<Iso3> = bodies[..n].iter().map(|b| if with_initial { iso_from(&b.0, &b.1) } else { Iso3::identity() }).collect();
    cx.label(if with_initial { "handler_initial" } else { "handler_identity" });
    let mut h = match guarded(|| ParamHandler::new(si, means.clone(), if with_initial { Some(&initial[..]) } else { None })) {
        Ok(h) => h,
        Err(m) => return Verdict::fail("C08/handler/new_panic", m),
    };
    let near = |a: &Iso3, b: &Iso3, rt: f64, tt: f64| rot_diff(&a.rotation, &b.rotation) <= rt && (a.translation.vector - b.translation.vector).norm() <= tt;
    for i in 0..n {
        let (rt, _) = band(bodies[i].0.ry);
        let lever = 1.0 + means[i].coords.norm() + initial[i].translation.vector.norm();
        let got = h.get_transform(i);
        ensure!(near(&got, &initial[i], rt, 1e-9 * lever + 2.0 * rt * lever), if i == si { "C08/handler/initial_static_body" } else { "C08/handler/initial_transform_lost" }, "after new(), get_transform({i}) differs from the initial isometry of body {i} (static body is {si}): rotation difference {:e}, translation difference {:e}", rot_diff(&got.rotation, &initial[i].rotation), (got.translation.vector - initial[i].translation.vector).norm());
    }
    ensure!(h.params().len() == (n - 1) * 6, "C08/handler/param_len", "raw parameter vector has {} entries for {n} bodies", h.params().len());
    // p_index is a bijection of the non-static bodies onto 0..n-1
    let mut seen = vec![false; n - 1];
    for i in 0..n {
        if i != si {
            let k = h.p_index(i);
            ensure!(k < n - 1 && !seen[k], "C08/handler/p_index", "p_index({i}) = {k} is out of range or repeated");
            seen[k] = true;
        }
    }
    // drive every body from its own six columns
    let xs = DVector::from_iterator((n - 1) * 6, x[..(n - 1) * 6].iter().cloned());
    h.set_param(&xs);
    ensure!(*h.params() == xs, "C08/handler/params_stored", "params() is not the vector set");
    for i in 0..n {
        let got = h.get_transform(i);
        if i == si {
            let (rt, _) = band(bodies[i].0.ry);
            let lever = 1.0 + means[i].coords.norm() + initial[i].translation.vector.norm();
            ensure!(near(&got, &initial[i], rt, 1e-9 * lever + 2.0 * rt * lever), "C08/handler/static_body_moved", "set_param moved the static body");
            continue;
        }
        let k = h.p_index(i);
        let xi = &x[k * 6..k * 6 + 6];
        // expected: a stand-alone parameter object for this body given the same six numbers
        let mut alone = RcParams3::from_initial(&initial[i], &means[i]);
        alone.set(&Vector6::new(xi[0], xi[1], xi[2], xi[3], xi[4], xi[5]));
        let expect = *alone.transform();
        let rcd = initial[i] * means[i];
        let lever = 1.0 + means[i].coords.norm() + rcd.coords.norm();
        ensure!(near(&got, &expect, 1e-9, 1e-9 * lever), "C08/handler/set_param_columns", "body {i} is not driven by parameter columns {}..{} (rotation difference {:e}, translation difference {:e})", k * 6, k * 6 + 6, rot_diff(&got.rotation, &expect.rotation), (got.translation.vector - expect.translation.vector).norm());
        // and the rotation centre of the body ends up at initial*rc plus the translation parameters
        ensure!((got * means[i] - (rcd + Vector3::new(xi[0], xi[1], xi[2]))).norm() <= 1e-9 * lever, "C08/handler/centre_motion", "body {i}: transform*rc is not initial*rc + translation parameters");
        ensure!(h.params[i].x().as_slice() == xi, "C08/handler/body_params", "body {i} holds parameters {:?}, expected {:?}", h.params[i].x().as_slice(), xi);
    }
    // history of updates on the same handler: the blocks are handed on from body to body, zeroed, and restored, so that a
    // body's new six numbers coincide with what it, or its neighbour, held before; after every update each body must be
    // where a stand-alone parameter object with the same six numbers puts it
    {
        let nb = n - 1;
        let block = |k: usize| -> Vec<f64> { x[k * 6..k * 6 + 6].to_vec() };
        let mut history: Vec<Vec<f64>> = vec![];
        // (a) every block takes the previous block's values, the first becomes zero
        let mut a = vec![0.0; nb * 6];
        for k in 1..nb {
            a[k * 6..k * 6 + 6].copy_from_slice(&block(k - 1));
        }
        history.push(a);
        // (b) all zero except the last block
        let mut b = vec![0.0; nb * 6];
        b[(nb - 1) * 6..].copy_from_slice(&block(nb - 1));
        history.push(b);
        // (c) all zero, (d) the original vector again
        history.push(vec![0.0; nb * 6]);
        history.push(x[..nb * 6].to_vec());
        for (step, xv) in history.iter().enumerate() {
            h.set_param(&DVector::from_vec(xv.clone()));
            for i in 0..n {
                if i == si {
                    continue;
                }
                let k = h.p_index(i);
                let xi = &xv[k * 6..k * 6 + 6];
                let mut alone = RcParams3::from_initial(&initial[i], &means[i]);
                alone.set(&Vector6::new(xi[0], xi[1], xi[2], xi[3], xi[4], xi[5]));
                let expect = *alone.transform();
                let got = h.get_transform(i);
                let lever = 1.0 + means[i].coords.norm() + (initial[i] * means[i]).coords.norm();
                ensure!(near(&got, &expect, 1e-9, 1e-9 * lever), "C08/handler/history/stale_body", "after update {} of a history, body {i} is not where its six parameters {:?} put it (rotation difference {:e}, translation difference {:e})", step + 2, xi, rot_diff(&got.rotation, &expect.rotation), (got.translation.vector - expect.translation.vector).norm());
                ensure!(h.params[i].x().as_slice() == xi, "C08/handler/history/body_params", "after update {} body {i} holds {:?}, expected {:?}", step + 2, h.params[i].x().as_slice(), xi);
            }
        }
        cx.label("handler_history");
    }
    // relative transform
    for a in 0..n {
        for b in 0..n {
            let rel = h.relative_transform(a, b);
            let expect = h.get_transform(b).inverse() * h.get_transform(a);
            ensure!(near(&rel, &expect, 1e-9, 1e-6), "C08/handler/relative_transform", "relative_transform({a},{b}) is not T_b^-1 T_a");
        }
    }
    // set_jacobian writes only the six columns of that body
    let vals = Vector6::new(1.5, 2.5, 3.5, 4.5, 5.5, 6.5);
    for i in 0..n {
        let mut m = DMatrix::<f64>::from_element(2, (n - 1) * 6, -7.0);
        h.set_jacobian(&mut m, 1, i, &vals);
        for c in 0..(n - 1) * 6 {
            ensure!(m[(0, c)] == -7.0, "C08/handler/set_jacobian_other_row", "set_jacobian wrote into another row");
            let expect = if i != si && c / 6 == h.p_index(i) { vals[c % 6] } else { -7.0 };
            ensure!(m[(1, c)] == expect, "C08/handler/set_jacobian_columns", "set_jacobian(body {i}) left {} in column {c}, expected {expect}", m[(1, c)]);
        }
    }
    if with_initial {
        cx.nontrivial();
    }
    cx.pass()
}
