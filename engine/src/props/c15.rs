//! C15 — Spatial search, sampling and hulls agree with exhaustive computation

use crate::ensure;
use crate::fw::*;
use crate::gen::*;
use crate::gen_mesh::*;
use crate::oracle::Pt;
use engeom::common::kd_tree::{KdTree, KdTreeSearch, PartialKdTree};
use engeom::common::poisson_disk::sample_poisson_disk;
use engeom::common::AngleDir;
use engeom::geom2::hull::{ball_pivot_2d, ball_pivot_fill_gaps_2d, ball_pivot_with_centers_2d, convex_hull_2d, farthest_pair_indices, point_order_direction, BallPivotEnd, BallPivotStart};
use engeom::{Curve2, Point2};
use parry2d_f64::shape::ConvexPolygon;
use proptest::prelude::*;
use serde::{Deserialize, Serialize};
use std::num::NonZero;

pub struct C15;

#[derive(Clone, Copy, Debug, Serialize, Deserialize, PartialEq)]
pub enum CloudKind {
    Uniform,
    Clustered,
    Grid,
    Duplicates,
}

#[derive(Clone, Debug, Serialize, Deserialize)]
pub struct Cloud {
    pub kind: CloudKind,
    pub dim3: bool,
    pub raw: Vec<P3>,
}

#[derive(Clone, Debug, Serialize, Deserialize)]
pub enum Radius {
    Fraction(f64),
    /// exactly the distance between points i and j
    ExactPair(u16, u16),
    Zero,
}

#[derive(Clone, Debug, Serialize, Deserialize)]
pub enum Sample {
    Uniform,
    Dense(f64),
    Poisson(f64),
}

#[derive(Clone, Debug, Serialize, Deserialize)]
pub enum Case {
    Kd { cloud: Cloud, queries: Vec<(u16, P3, bool)>, k: usize, radius: Radius, subset: Option<(u64, u16)> },
    Poisson { cloud: Cloud, perm: u64, take: u16, radius: f64 },
    /// slivers: zero-area faces [a, a, b] inserted into the face list handed to the library (uniform mode only)
    MeshSample { spec: MeshSpec, mode: Sample, #[serde(default)] slivers: Vec<(u16, u16, u16)> },
    Hull { cloud: Cloud },
    Polygon { n: usize, radii: Vec<f64>, reverse: bool, rotate: u16, collinear: bool },
    Pivot { pts: Vec<P2>, radius: f64, cw: bool, fill: Option<f64> },
}

fn cloud(nmax: usize) -> BoxedStrategy<Cloud> {
    (prop::sample::select(vec![CloudKind::Uniform, CloudKind::Clustered, CloudKind::Grid, CloudKind::Duplicates]), any::<bool>(), 1usize..nmax)
        .prop_flat_map(|(kind, dim3, n)| {
            let pt = match kind {
                CloudKind::Uniform | CloudKind::Duplicates => (unif(-5.0, 5.0), unif(-5.0, 5.0), unif(-5.0, 5.0)).prop_map(|(x, y, z)| [x, y, z]).boxed(),
                CloudKind::Clustered => (0u8..4, unif(-0.2, 0.2), unif(-0.2, 0.2), unif(-0.2, 0.2)).prop_map(|(c, x, y, z)| [c as f64 * 2.5 - 4.0 + x, (c % 2) as f64 * 3.0 + y, z]).boxed(),
                CloudKind::Grid => (-6i32..=6, -6i32..=6, -2i32..=2).prop_map(|(x, y, z)| [x as f64 * 0.5, y as f64 * 0.5, z as f64 * 0.5]).boxed(),
            };
            prop::collection::vec(pt, n).prop_map(move |mut raw| {
                if kind == CloudKind::Duplicates {
                    let m = raw.len();
                    for i in (0..m).step_by(3) {
                        raw[i] = raw[(i * 7 + 1) % m];
                    }
                }
                Cloud { kind, dim3, raw }
            })
        })
        .boxed()
}

impl Property for C15 {
    type Case = Case;
    const ID: &'static str = "C15";
    fn rule() -> &'static str {
        "families: k-d tree queries (nearest, k nearest with k<=64, radius incl. 0 and radii equal to an exact inter-point distance) on 2D/3D clouds of 1-600 points (uniform, clustered, gridded with exact ties, with exact duplicates), optionally through an index-remapped partial tree over a random subset; Poisson-disk selection over random index subsets and visiting orders; mesh sampling (uniform with 40 000 draws on 4-12 face meshes of very unequal face area, dense, Poisson); convex hulls of clouds and of star polygons in both orientations with rotated start index and collinear boundary runs; ball pivoting (both directions, radius 0.6-3x mean spacing, with and without gap filling) on clouds in a 10x10 square. Oracle: brute force over all points / faces; 6.5 sigma binomial bounds for the unseedable uniform sampler. Non-trivial: n >= 50 with an exact tie or duplicate, or k >= 2; hull/pivot cases with >= 20 points. Distinct = distinct canonical JSON."
    }
    fn cases(t: Tier) -> u32 {
        t.pick(150_000, 600_000)
    }
    fn quiet_stdout() -> bool {
        true
    }
    fn assumptions() -> Vec<String> {
        vec!["Mesh::sample_uniform / sample_poisson draw from the library's thread-local RNG, which cannot be seeded from outside: those sub-checks are not a function of VERIF_SEED; the uniform-sampling oracle is statistical with fixed 6.5 sigma bounds (false-alarm probability below 1e-9 per comparison)".into()]
    }
    fn expected_labels() -> Vec<&'static str> {
        vec!["kd2", "kd3", "partial_tree", "ties", "duplicates", "radius_exact_pair", "poisson", "sample_uniform", "sample_uniform_zero_area_faces", "sample_dense", "sample_poisson", "hull", "polygon_ccw", "polygon_cw", "pivot", "pivot_fill"]
    }
    fn strategy(t: Tier) -> BoxedStrategy<Case> {
        let nmax = t.pick(600, 3000);
        let small_mesh = prop_oneof![
            (unif(0.3, 3.0), unif(0.3, 3.0), unif(0.3, 3.0)).prop_map(|(w, h, d)| MeshKind::Box { w, h, d }),
            unif(0.5, 2.0).prop_map(|r| MeshKind::Octa { r }),
            (4usize..12, unif(0.5, 2.0), unif(0.0, 1.0)).prop_map(|(n, r, z)| MeshKind::Fan { n, r, z }),
            (3usize..6, unif(0.5, 2.0), unif(0.3, 2.0), unif(0.0, 0.8)).prop_map(|(n, r, h, skew)| MeshKind::Prism { n, r, h, skew }),
            (2usize..4, 2usize..3, unif(0.5, 4.0), unif(0.5, 4.0), unif(0.0, 0.6), any::<u64>()).prop_map(|(nx, ny, sx, sy, jitter, diag)| MeshKind::Grid { nx: nx + 1, ny, sx, sy, jitter, diag, height: Height::Flat }),
        ]
        .boxed();
        prop_oneof![
            10 => (cloud(nmax), prop::collection::vec((any::<u16>(), p3(6.0), any::<bool>()), 1..8), 1usize..=64, prop_oneof![3 => unif(0.0, 1.0).prop_map(Radius::Fraction), 2 => (any::<u16>(), any::<u16>()).prop_map(|(i, j)| Radius::ExactPair(i, j)), 1 => Just(Radius::Zero)], prop::option::of((any::<u64>(), any::<u16>())))
                .prop_map(|(cloud, queries, k, radius, subset)| Case::Kd { cloud, queries, k, radius, subset }),
            3 => (cloud(nmax), any::<u64>(), any::<u16>(), logu(-1.0, 0.5)).prop_map(|(cloud, perm, take, radius)| Case::Poisson { cloud, perm, take, radius }),
            1 => (clean_mesh(small_mesh, 5.0), prop_oneof![2 => Just(Sample::Uniform), 1 => logu(-1.2, 0.0).prop_map(Sample::Dense), 1 => logu(-0.8, 0.0).prop_map(Sample::Poisson)], prop_oneof![3 => Just(vec![]), 1 => prop::collection::vec((any::<u16>(), any::<u16>(), any::<u16>()), 1..4)]).prop_map(|(spec, mode, slivers)| Case::MeshSample { spec, mode, slivers }),
            2 => cloud(300).prop_map(|cloud| Case::Hull { cloud }),
            2 => (3usize..60, prop::collection::vec(unif(0.3, 1.0), 60), any::<bool>(), any::<u16>(), prop::bool::weighted(0.3)).prop_map(|(n, radii, reverse, rotate, collinear)| Case::Polygon { n, radii, reverse, rotate, collinear }),
            3 => (prop::collection::vec((unif(0.0, 10.0), unif(0.0, 10.0)).prop_map(|(x, y)| [x, y]), 20..220), unif(0.6, 3.0), any::<bool>(), prop::option::of(unif(0.1, 1.0))).prop_map(|(pts, radius, cw, fill)| Case::Pivot { pts, radius, cw, fill }),
        ]
        .boxed()
    }
    fn check(case: &Case) -> Verdict {
        match case {
            Case::Kd { cloud, queries, k, radius, subset } => {
                if cloud.dim3 {
                    kd::<3>(cloud, queries, *k, radius, subset)
                } else {
                    kd::<2>(cloud, queries, *k, radius, subset)
                }
            }
            Case::Poisson { cloud, perm, take, radius } => {
                if cloud.dim3 {
                    poisson::<3>(cloud, *perm, *take, *radius)
                } else {
                    poisson::<2>(cloud, *perm, *take, *radius)
                }
            }
            Case::MeshSample { spec, mode, slivers } => mesh_sample(spec, mode, slivers),
            Case::Hull { cloud } => hull(cloud),
            Case::Polygon { n, radii, reverse, rotate, collinear } => polygon(*n, radii, *reverse, *rotate, *collinear),
            Case::Pivot { pts, radius, cw, fill } => pivot(pts, *radius, *cw, fill),
        }
    }
}

fn points<const D: usize>(c: &Cloud) -> Vec<Pt<D>> {
    c.raw
        .iter()
        .map(|p| {
            let mut q = Pt::<D>::origin();
            for k in 0..D {
                q[k] = p[k];
            }
            q
        })
        .collect()
}

fn has_ties<const D: usize>(pts: &[Pt<D>]) -> bool {
    let n = pts.len().min(60);
    let mut d: Vec<u64> = vec![];
    for i in 0..n {
        for j in i + 1..n {
            d.push((pts[i] - pts[j]).norm().to_bits());
        }
    }
    d.sort();
    d.windows(2).any(|w| w[0] == w[1])
}

fn kd<const D: usize>(cloud: &Cloud, queries: &[(u16, P3, bool)], k: usize, radius: &Radius, subset: &Option<(u64, u16)>) -> Verdict {
    let mut cx = Ctx::new();
    cx.label(if D == 2 { "kd2" } else { "kd3" });
    let all = points::<D>(cloud);
    let n_all = all.len();
    // optional partial tree over a random subset in a random order
    let indices: Vec<usize> = match subset {
        Some((seed, take)) => {
            let perm = permutation(n_all, *seed | 1);
            let m = 1 + idx(*take, n_all);
            let mut sel = vec![0usize; n_all];
            for (i, j) in perm.iter().enumerate() {
                sel[*j] = i;
            }
            sel.truncate(m.min(n_all));
            sel
        }
        None => (0..n_all).collect(),
    };
    let tree: Box<dyn KdTreeSearch<D>> = match subset {
        Some(_) => {
            cx.label("partial_tree");
            Box::new(PartialKdTree::<D>::new(&all, &indices))
        }
        None => Box::new(KdTree::<D>::new(&all)),
    };
    ensure!(tree.len() == indices.len(), "C15/kd/len", "tree has {} entries for {} points", tree.len(), indices.len());
    let member: std::collections::BTreeSet<usize> = indices.iter().cloned().collect();
    let diam = all.iter().fold(0.0f64, |m, p| m.max((p - all[0]).norm())).max(1e-9);
    let r = match radius {
        Radius::Fraction(f) => f * diam,
        Radius::ExactPair(i, j) => {
            cx.label("radius_exact_pair");
            (all[idx(*i, n_all)] - all[idx(*j, n_all)]).norm()
        }
        Radius::Zero => 0.0,
    };
    let ties = has_ties(&all);
    cx.label_if(ties, "ties");
    cx.label_if(cloud.kind == CloudKind::Duplicates, "duplicates");
    for (qi, qp, on_point) in queries {
        let q: Pt<D> = if *on_point {
            all[idx(*qi, n_all)]
        } else {
            let mut p = Pt::<D>::origin();
            for c in 0..D {
                p[c] = qp[c];
            }
            p
        };
        // brute force over the subset
        let mut brute: Vec<(f64, usize)> = indices.iter().map(|i| ((all[*i] - q).norm(), *i)).collect();
        brute.sort_by(|a, b| a.0.partial_cmp(&b.0).unwrap());
        let tol = 1e-9 * (1.0 + brute[0].0);
        // nearest one
        let (i, d) = match guarded(|| tree.nearest_one(&q)) {
            Ok(r) => r,
            Err(m) => return Verdict::fail("C15/kd/nearest_one/panic", m),
        };
        ensure!(member.contains(&i), "C15/kd/nearest_one/index_not_original", "nearest_one returned index {i}, which is not one of the tree's original indices");
        ensure!(((all[i] - q).norm() - d).abs() <= tol, "C15/kd/nearest_one/distance_mismatch", "reported distance {d:e} but point {i} is {:e} away", (all[i] - q).norm());
        ensure!((d - brute[0].0).abs() <= tol, "C15/kd/nearest_one/not_nearest", "nearest_one distance {d:e}, brute force minimum {:e}", brute[0].0);
        // k nearest
        let kk = k.min(indices.len()).max(1);
        let res = match guarded(|| tree.nearest(&q, NonZero::new(kk).unwrap())) {
            Ok(r) => r,
            Err(m) => return Verdict::fail("C15/kd/nearest_k/panic", m),
        };
        ensure!(res.len() == kk, "C15/kd/nearest_k/count", "{} results for k = {kk} on {} points", res.len(), indices.len());
        ensure!(res.windows(2).all(|w| w[0].1 <= w[1].1), "C15/kd/nearest_k/order", "results not ascending");
        let mut seen = std::collections::BTreeSet::new();
        for (j, (i, d)) in res.iter().enumerate() {
            ensure!(member.contains(i) && seen.insert(*i), "C15/kd/nearest_k/index", "index {i} repeated or not an original index");
            ensure!(((all[*i] - q).norm() - d).abs() <= 1e-9 * (1.0 + d), "C15/kd/nearest_k/distance_mismatch", "reported distance {d:e} but point {i} is {:e} away", (all[*i] - q).norm());
            ensure!((d - brute[j].0).abs() <= 1e-9 * (1.0 + d), "C15/kd/nearest_k/not_k_smallest", "result {j} has distance {d:e}, the {j}-th smallest distance is {:e}", brute[j].0);
        }
        // radius query: exactly { i : d_i < r } with a don't-care band at r
        let res = match guarded(|| tree.within(&q, r)) {
            Ok(r) => r,
            Err(m) => return Verdict::fail("C15/kd/within/panic", m),
        };
        let got: std::collections::BTreeMap<usize, f64> = res.iter().cloned().collect();
        ensure!(got.len() == res.len(), "C15/kd/within/duplicates", "an index appears twice");
        for (i, d) in &got {
            ensure!(member.contains(i), "C15/kd/within/index_not_original", "index {i} is not an original index");
            ensure!(((all[*i] - q).norm() - d).abs() <= 1e-9 * (1.0 + d), "C15/kd/within/distance_mismatch", "reported distance {d:e} for point {i} at {:e}", (all[*i] - q).norm());
        }
        for (d, i) in &brute {
            if (d - r).abs() <= 1e-12 * r.max(1e-300) + 1e-15 {
                continue;
            }
            ensure!(got.contains_key(i) == (*d < r), if *d < r { "C15/kd/within/missing" } else { "C15/kd/within/extra" }, "point {i} at distance {d:e} with radius {r:e}: in result = {}", got.contains_key(i));
        }
    }
    if (n_all >= 50 && (ties || cloud.kind == CloudKind::Duplicates)) || k >= 2 {
        cx.nontrivial();
    }
    cx.pass()
}

fn poisson<const D: usize>(cloud: &Cloud, perm: u64, take: u16, radius: f64) -> Verdict {
    let mut cx = Ctx::new();
    cx.label("poisson");
    let all = points::<D>(cloud);
    let n = all.len();
    let p = permutation(n, perm | 1);
    let mut order = vec![0usize; n];
    for (i, j) in p.iter().enumerate() {
        order[*j] = i;
    }
    order.truncate((1 + idx(take, n)).min(n));
    let kept = match guarded(|| sample_poisson_disk(&all, &order, radius)) {
        Ok(k) => k,
        Err(m) => return Verdict::fail("C15/poisson/panic", m),
    };
    let work: std::collections::BTreeSet<usize> = order.iter().cloned().collect();
    let ks: std::collections::BTreeSet<usize> = kept.iter().cloned().collect();
    ensure!(ks.len() == kept.len(), "C15/poisson/repeats", "an index is kept twice");
    ensure!(ks.is_subset(&work), "C15/poisson/not_subset", "a kept index is not one of the working indices");
    ensure!(kept.first() == order.first(), "C15/poisson/first_not_kept", "the first working index {:?} is not the first kept index {:?}", order.first(), kept.first());
    for (a, i) in kept.iter().enumerate() {
        for j in kept.iter().skip(a + 1) {
            let d = (all[*i] - all[*j]).norm();
            ensure!(d >= radius * (1.0 - 1e-12), "C15/poisson/too_close", "kept points {i} and {j} are {d:e} apart, radius {radius:e}");
        }
    }
    for w in &order {
        let dmin = kept.iter().map(|i| (all[*i] - all[*w]).norm()).fold(f64::INFINITY, f64::min);
        ensure!(dmin <= radius * (1.0 + 1e-12), "C15/poisson/not_covered", "working point {w} is {dmin:e} from the nearest kept point, radius {radius:e}");
    }
    if n >= 50 {
        cx.nontrivial();
    }
    cx.pass()
}

fn mesh_sample(spec: &MeshSpec, mode: &Sample, slivers: &[(u16, u16, u16)]) -> Verdict {
    let mut cx = Ctx::new();
    let Some(bm) = spec.build() else { return Verdict::Discard("empty mesh") };
    let soup = bm.soup();
    let nf = soup.f.len();
    if nf > 40 {
        return Verdict::Discard("mesh too large for the sampling family");
    }
    for i in 0..nf {
        let (a, b, c) = soup.tri(i);
        let lmax = (b - a).norm().max((c - b).norm()).max((a - c).norm());
        if crate::oracle::tri_area(&a, &b, &c) < 1e-4 * lmax * lmax {
            return Verdict::Discard("degenerate face");
        }
    }
    // uniform sampling must give a face of zero area (a repeated vertex index) no samples and must not let it disturb
    // the shares of the others: the library's mesh carries such faces, the harness's list of real faces does not
    let mesh = if matches!(mode, Sample::Uniform) && !slivers.is_empty() {
        let mut f = bm.f.clone();
        for (pos, a, b) in slivers {
            let (a, b) = (idx(*a, bm.v.len()) as u32, idx(*b, bm.v.len()) as u32);
            if a != b {
                let k = idx(*pos, f.len() + 1);
                f.insert(k, [a, a, b]);
            }
        }
        cx.label("sample_uniform_zero_area_faces");
        engeom::Mesh::new(bm.v.clone(), f, false)
    } else {
        bm.mesh(false)
    };
    let size = soup.size();
    let tol = 1e-9 * (size + soup.max_abs());
    let normals: Vec<_> = (0..nf).map(|i| { let (a, b, c) = soup.tri(i); crate::oracle::tri_normal(&a, &b, &c).unwrap() }).collect();
    let on_face = |p: &engeom::Point3, n: &engeom::Vector3| -> Option<usize> { (0..nf).find(|i| soup.dist_to_face(*i, p) <= tol && (normals[*i] - n).norm() <= 1e-9) };
    match mode {
        Sample::Uniform => {
            cx.label("sample_uniform");
            let n = 40_000usize;
            let pts = match guarded(|| mesh.sample_uniform(n)) {
                Ok(p) => p,
                Err(m) => return Verdict::fail("C15/sample_uniform/panic", m),
            };
            ensure!(pts.len() == n, "C15/sample_uniform/count", "{} points for n = {n}", pts.len());
            let mut hits = vec![0usize; nf];
            let mut sub = vec![[0usize; 4]; nf];
            for sp in &pts {
                let Some(fi) = on_face(&sp.point, &sp.normal.into_inner()) else {
                    return Verdict::fail("C15/sample_uniform/not_on_surface_with_face_normal", format!("sample {:?} with normal {:?} lies on no face carrying that normal (distance to the mesh {:e})", sp.point, sp.normal, soup.closest(&sp.point).0));
                };
                hits[fi] += 1;
                // medial sub-triangle by barycentric coordinates
                let (a, b, c) = soup.tri(fi);
                let (v0, v1, v2) = (b - a, c - a, sp.point - a);
                let (d00, d01, d11, d20, d21) = (v0.dot(&v0), v0.dot(&v1), v1.dot(&v1), v2.dot(&v0), v2.dot(&v1));
                let den = d00 * d11 - d01 * d01;
                let (bv, bw) = ((d11 * d20 - d01 * d21) / den, (d00 * d21 - d01 * d20) / den);
                let bu = 1.0 - bv - bw;
                let k = if bu > 0.5 { 0 } else if bv > 0.5 { 1 } else if bw > 0.5 { 2 } else { 3 };
                sub[fi][k] += 1;
            }
            let total = soup.area();
            for i in 0..nf {
                let (a, b, c) = soup.tri(i);
                let p = crate::oracle::tri_area(&a, &b, &c) / total;
                let mean = n as f64 * p;
                let sigma = (n as f64 * p * (1.0 - p)).sqrt();
                ensure!((hits[i] as f64 - mean).abs() <= 6.5 * sigma + 1.0, "C15/sample_uniform/not_proportional_to_area", "face {i} holds {:.4} of the area and received {} of {n} samples (expected {mean:.0} +- {sigma:.0})", p, hits[i]);
                if hits[i] >= 400 {
                    let m = hits[i] as f64 * 0.25;
                    let s = (hits[i] as f64 * 0.25 * 0.75).sqrt();
                    for k in 0..4 {
                        ensure!((sub[i][k] as f64 - m).abs() <= 6.5 * s + 1.0, "C15/sample_uniform/not_uniform_within_face", "face {i}: medial sub-triangle {k} received {} of {} samples (expected {m:.0} +- {s:.0})", sub[i][k], hits[i]);
                    }
                }
            }
            // history on the sampled object: it is moved, sampled, then a far-away copy of the original is appended and
            // it is sampled again; the original and the appended half now hold equal areas and must share the samples
            {
                let mut hm = mesh;
                let shift = engeom::Iso3::translation(3.0 * size + 10.0, -2.0 * size, size);
                hm.transform(&shift);
                let _ = hm.sample_uniform(200);
                let other = bm.mesh(false);
                if hm.append(&other).is_ok() {
                    let m = 8_000usize;
                    let pts2 = match guarded(|| hm.sample_uniform(m)) {
                        Ok(p) => p,
                        Err(msg) => return Verdict::fail("C15/sample_uniform/history/panic", msg),
                    };
                    ensure!(pts2.len() == m, "C15/sample_uniform/history/count", "{} points for n = {m} after append", pts2.len());
                    let moved = crate::oracle::Soup { v: soup.v.iter().map(|q| shift * q).collect(), f: soup.f.clone() };
                    let (mut on_old, mut on_new) = (0usize, 0usize);
                    for sp in &pts2 {
                        let (d_new, d_old) = (soup.closest(&sp.point).0, moved.closest(&sp.point).0);
                        ensure!(d_new <= tol + 1e-9 * (3.0 * size + 10.0) || d_old <= tol + 1e-9 * (3.0 * size + 10.0), "C15/sample_uniform/history/not_on_surface", "after move + append a sample lies {:e} / {:e} from the two halves of the mesh", d_old, d_new);
                        if d_new < d_old {
                            on_new += 1;
                        } else {
                            on_old += 1;
                        }
                    }
                    let sigma = (m as f64 * 0.25).sqrt();
                    ensure!((on_new as f64 - m as f64 * 0.5).abs() <= 6.5 * sigma + 1.0, "C15/sample_uniform/history/appended_half_not_sampled_by_area", "after sampling, moving and appending an equal-area copy, {on_new} of {m} samples lie on the appended half and {on_old} on the original (expected {:.0} +- {sigma:.0} each)", m as f64 * 0.5);
                    cx.label("sample_uniform_history");
                }
            }
        }
        Sample::Dense(f) => {
            cx.label("sample_dense");
            let spacing = f * size;
            let pts = match guarded(|| mesh.sample_dense(spacing)) {
                Ok(p) => p,
                Err(m) => return Verdict::fail("C15/sample_dense/panic", m),
            };
            ensure!(!pts.is_empty(), "C15/sample_dense/empty", "no samples");
            for sp in &pts {
                ensure!(on_face(&sp.point, &sp.normal.into_inner()).is_some(), "C15/sample_dense/not_on_surface_with_face_normal", "sample {:?} with normal {:?} lies on no face carrying that normal (distance to the mesh {:e})", sp.point, sp.normal, soup.closest(&sp.point).0);
            }
        }
        Sample::Poisson(f) => {
            cx.label("sample_poisson");
            let r = f * size;
            let pts = match guarded(|| mesh.sample_poisson(r)) {
                Ok(p) => p,
                Err(m) => return Verdict::fail("C15/sample_poisson/panic", m),
            };
            for sp in &pts {
                ensure!(on_face(&sp.point, &sp.normal.into_inner()).is_some(), "C15/sample_poisson/not_on_surface_with_face_normal", "sample {:?} lies on no face carrying its normal", sp.point);
            }
            for (a, p) in pts.iter().enumerate() {
                for q in pts.iter().skip(a + 1) {
                    let d = (p.point - q.point).norm();
                    ensure!(d >= r * (1.0 - 1e-12), "C15/sample_poisson/too_close", "two samples are {d:e} apart, radius {r:e}");
                }
            }
        }
    }
    cx.nontrivial();
    cx.pass()
}

fn cross2(a: &engeom::Vector2, b: &engeom::Vector2) -> f64 {
    a.x * b.y - a.y * b.x
}

fn check_hull(pts: &[Point2], hull: &[usize]) -> Result<(), Failure> {
    let scale = pts.iter().fold(1e-9f64, |m, p| m.max(p.coords.amax()));
    let tol = 1e-9 * scale * scale;
    let h = hull.len();
    let set: std::collections::BTreeSet<usize> = hull.iter().cloned().collect();
    crate::ensure_r!(set.len() == h, "C15/hull/repeated_index", "a hull index is repeated");
    crate::ensure_r!(hull.iter().all(|i| *i < pts.len()), "C15/hull/index_range", "hull index out of range");
    if h >= 3 {
        let area: f64 = (0..h).map(|i| cross2(&pts[hull[i]].coords, &pts[hull[(i + 1) % h]].coords)).sum::<f64>() * 0.5;
        crate::ensure_r!(area > 0.0, "C15/hull/not_counter_clockwise", "hull has signed area {area:e}");
        for i in 0..h {
            let (a, b) = (pts[hull[i]], pts[hull[(i + 1) % h]]);
            for (j, p) in pts.iter().enumerate() {
                let c = cross2(&(b - a), &(p - a));
                crate::ensure_r!(c >= -tol, "C15/hull/point_outside", "point {j} is on the right of hull edge {} -> {} by {c:e}", hull[i], hull[(i + 1) % h]);
            }
        }
    }
    // Convexity + counter-clockwise order + "no input point outside any hull edge" (above) already say that the
    // reported polygon is the convex hull within tol, so a separate list of "extreme points that must appear"
    // adds nothing when h >= 3 (an earlier version built one with a tolerant monotone chain, which is not
    // transitive and called a point extreme that lies 1e-16 outside a chord: a false alarm of the harness).
    // What the containment test cannot see is a hull with fewer than three vertices for a genuinely 2D set:
    if h < 3 && pts.len() >= 3 {
        let mut best = (0usize, 0usize, -1.0f64);
        for i in 0..pts.len() {
            for j in i + 1..pts.len() {
                let d = (pts[i] - pts[j]).norm();
                if d > best.2 {
                    best = (i, j, d);
                }
            }
        }
        let (a, b) = (pts[best.0], pts[best.1]);
        let spread = pts.iter().map(|p| cross2(&(b - a), &(p - a)).abs()).fold(0.0f64, f64::max);
        crate::ensure_r!(spread <= 1e3 * tol, "C15/hull/degenerate_for_2d_set", "hull has {h} vertices but the points span an area (max cross {spread:e})");
    }
    Ok(())
}

fn hull(cloud: &Cloud) -> Verdict {
    let mut cx = Ctx::new();
    cx.label("hull");
    let pts: Vec<Point2> = points::<2>(cloud);
    let mut distinct = pts.clone();
    distinct.sort_by(|a, b| a.x.partial_cmp(&b.x).unwrap().then(a.y.partial_cmp(&b.y).unwrap()));
    distinct.dedup();
    if distinct.len() < 3 {
        return Verdict::Discard("fewer than three distinct points");
    }
    let h = match guarded(|| convex_hull_2d(&pts)) {
        Ok(h) => h,
        Err(m) => return Verdict::fail("C15/hull/panic", m),
    };
    if let Err(f) = check_hull(&pts, &h) {
        return Verdict::Fail(f);
    }
    // farthest pair = diameter
    if let Some(poly) = ConvexPolygon::from_convex_hull(&pts) {
        let (i, j) = farthest_pair_indices(&poly);
        let d = (poly.points()[i] - poly.points()[j]).norm();
        let mut best = 0.0f64;
        for a in 0..pts.len() {
            for b in a + 1..pts.len() {
                best = best.max((pts[a] - pts[b]).norm());
            }
        }
        ensure!((d - best).abs() <= 1e-9 * (1.0 + best), "C15/farthest_pair/not_diameter", "farthest pair is {d:e} apart, the diameter is {best:e}");
    }
    if pts.len() >= 20 {
        cx.nontrivial();
    }
    cx.pass()
}

fn polygon(n: usize, radii: &[f64], reverse: bool, rotate: u16, collinear: bool) -> Verdict {
    let mut cx = Ctx::new();
    // star-shaped simple polygon, counter-clockwise by construction
    let mut pts: Vec<Point2> = (0..n).map(|i| { let a = i as f64 / n as f64 * std::f64::consts::TAU; Point2::new(3.0 + 4.0 * radii[i] * a.cos(), -2.0 + 4.0 * radii[i] * a.sin()) }).collect();
    if collinear {
        // insert midpoints: collinear boundary runs
        let mut q = vec![];
        for i in 0..n {
            q.push(pts[i]);
            q.push(Point2::from((pts[i].coords + pts[(i + 1) % n].coords) * 0.5));
        }
        pts = q;
    }
    if reverse {
        pts.reverse();
    }
    let m = pts.len();
    pts.rotate_left(idx(rotate, m));
    let area: f64 = (0..m).map(|i| cross2(&pts[i].coords, &pts[(i + 1) % m].coords)).sum::<f64>() * 0.5;
    let dir = match guarded(|| point_order_direction(&pts)) {
        Ok(d) => d,
        Err(msg) => return Verdict::fail("C15/point_order_direction/panic", msg),
    };
    let ccw = matches!(dir, AngleDir::Ccw);
    ensure!(ccw == (area > 0.0), "C15/point_order_direction/sign", "direction reported {} but the signed area is {area:e} ({m} vertices, start rotated)", if ccw { "counter-clockwise" } else { "clockwise" });
    cx.label(if area > 0.0 { "polygon_ccw" } else { "polygon_cw" });
    let c = match Curve2::from_points_ccw(&pts, 1e-9, true) {
        Ok(c) => c,
        Err(e) => return Verdict::fail("C15/from_points_ccw/error", format!("{e}")),
    };
    let v = c.points();
    let a2: f64 = (0..v.len() - 1).map(|i| cross2(&v[i].coords, &v[i + 1].coords)).sum::<f64>() * 0.5;
    ensure!(a2 > 0.0, "C15/from_points_ccw/orientation", "from_points_ccw produced a curve of signed area {a2:e}");
    ensure!((a2 - area.abs()).abs() <= 1e-9 * area.abs(), "C15/from_points_ccw/area", "area changed: {a2:e} vs {:e}", area.abs());
    let h = convex_hull_2d(&pts);
    if let Err(f) = check_hull(&pts, &h) {
        return Verdict::Fail(f);
    }
    if m >= 20 {
        cx.nontrivial();
    }
    cx.pass()
}

fn pivot(raw: &[P2], rfac: f64, cw: bool, fill: &Option<f64>) -> Verdict {
    let mut cx = Ctx::new();
    cx.label("pivot");
    let mut pts: Vec<Point2> = raw.iter().map(pt2).collect();
    pts.sort_by(|a, b| a.x.partial_cmp(&b.x).unwrap().then(a.y.partial_cmp(&b.y).unwrap()));
    pts.dedup_by(|a, b| (*a - *b).norm() < 1e-6);
    let n = pts.len();
    if n < 10 {
        return Verdict::Discard("too few points");
    }
    let spacing = (100.0 / n as f64).sqrt();
    let radius = rfac * spacing;
    let dir = if cw { AngleDir::Cw } else { AngleDir::Ccw };
    let res = match guarded(|| ball_pivot_with_centers_2d(&pts, BallPivotStart::StartOnConvex, BallPivotEnd::EndOnRepeat, dir, radius)) {
        Ok(r) => r,
        Err(m) => return Verdict::fail("C15/ball_pivot/panic", m),
    };
    let (indices, centers) = match res {
        Ok(r) => r,
        Err(_) => {
            cx.label("pivot_loop_error");
            return cx.pass();
        }
    };
    ensure!(indices.len() == centers.len() + 1, "C15/ball_pivot/lengths", "{} indices and {} centres", indices.len(), centers.len());
    for (s, c) in centers.iter().enumerate() {
        let (a, b) = (pts[indices[s]], pts[indices[s + 1]]);
        let (da, db) = ((a - c).norm(), (b - c).norm());
        ensure!((da - radius).abs() <= 1e-9 * (1.0 + radius) && (db - radius).abs() <= 1e-9 * (1.0 + radius), "C15/ball_pivot/centre_not_one_radius_from_both", "step {s}: centre is {da:e} and {db:e} from the two consecutive points, radius {radius:e}");
        for (j, p) in pts.iter().enumerate() {
            let d = (p - c).norm();
            if d < radius * (1.0 - 1e-6) {
                // a point that lay within 1e-5 r of the previous ball's boundary was a (near) simultaneous contact:
                // three nearly co-circular points, which the pivot's angular threshold cannot order
                // ... and so is a point within 1e-4 r of one of the two points the ball rests on (two of the three
                // co-circular points nearly coincide): the pivot skips contacts within 1e-6 rad of its current position
                let near_contact = [indices[s], indices[s + 1]].iter().any(|k| *k != j && (p - pts[*k]).norm() <= 1e-4 * radius)
                    // or the two resting points themselves nearly coincide: the side the ball lies on is then decided by
                    // which of the cluster's contacts fell inside the angular threshold
                    || (a - b).norm() <= 1e-4 * radius
                    // or one of the points the ball rests on in this or the previous step has a near-duplicate in the
                    // input: the near-duplicates are contacts within the angular threshold of that resting position
                    || {
                        let mut ks = vec![indices[s], indices[s + 1]];
                        if s >= 1 {
                            ks.push(indices[s - 1]);
                        }
                        ks.iter().any(|k| pts.iter().enumerate().any(|(i, q)| i != *k && (q - pts[*k]).norm() <= 1e-4 * radius))
                    };
                let near_tie = near_contact || (s >= 1 && ((p - centers[s - 1]).norm() - radius).abs() <= 1e-5 * radius && j != indices[s - 1]);
                // or the tie happened one step earlier: the point the ball now pivots on was already (within 1e-5 r) on the
                // ball two steps back, so its first contact fell inside the angular threshold, the ball took its second
                // contact (swinging through it), and only now runs into the point it came from
                let near_tie = near_tie || (s >= 2 && ((pts[indices[s]] - centers[s - 2]).norm() - radius).abs() <= 1e-5 * radius);
                let which = if near_tie { "near_cocircular_tie" } else if s >= 1 && j == indices[s - 1] { "previous_point" } else { "other_point" };
                return Verdict::fail(format!("C15/ball_pivot/point_inside_ball/{which}"), format!("step {s} ({} -> {}): input point {j} is {:e} inside the reported ball of radius {radius:e} (it is {})", indices[s], indices[s + 1], radius - d, if which == "previous_point" { "the point visited just before" } else if which == "near_cocircular_tie" { "a point that was within 1e-5 r of the previous ball: a near co-circular triple" } else { "another point" }));
            }
        }
    }
    // the other entry points describe the same walk: the index-only wrapper, the same start given explicitly as
    // (index, direction), and a walk told to end on a point the full walk visits
    {
        match guarded(|| ball_pivot_2d(&pts, BallPivotStart::StartOnConvex, BallPivotEnd::EndOnRepeat, dir, radius)) {
            Ok(Ok(only)) => ensure!(only == indices, "C15/ball_pivot_2d/differs", "ball_pivot_2d returns {:?}, ball_pivot_with_centers_2d {:?}", only, indices),
            Ok(Err(e)) => return Verdict::fail("C15/ball_pivot_2d/differs", format!("ball_pivot_2d fails ({e}) where ball_pivot_with_centers_2d succeeds")),
            Err(m) => return Verdict::fail("C15/ball_pivot_2d/panic", m),
        }
        let hull = convex_hull_2d(&pts);
        if hull.len() >= 2 && hull[0] == indices[0] {
            let e = pts[hull[1]] - pts[hull[0]];
            let v = engeom::Vector2::new(e.y, -e.x); // a quarter turn clockwise: away from a counter-clockwise hull
            match guarded(|| ball_pivot_with_centers_2d(&pts, BallPivotStart::StartOnIndexDir(hull[0], v), BallPivotEnd::EndOnRepeat, dir, radius)) {
                Ok(Ok((i2, c2))) => {
                    ensure!(i2 == indices, "C15/ball_pivot/start_on_index_dir/differs", "started explicitly at hull point {} heading outwards the walk is {:?}, started on the hull it is {:?}", hull[0], i2, indices);
                    ensure!(c2.len() == centers.len() && c2.iter().zip(centers.iter()).all(|(a, b)| (a - b).norm() <= 1e-9 * (1.0 + radius)), "C15/ball_pivot/start_on_index_dir/centres", "ball centres differ between the two ways of giving the same start");
                }
                Ok(Err(e)) => return Verdict::fail("C15/ball_pivot/start_on_index_dir/differs", format!("explicit start fails: {e}")),
                Err(m) => return Verdict::fail("C15/ball_pivot/start_on_index_dir/panic", m),
            }
            cx.label("pivot_explicit_start");
        }
        if indices.len() >= 4 {
            let k = indices.len() / 2;
            let target = indices[k];
            let first = indices.iter().position(|i| *i == target).unwrap();
            if first >= 1 {
                match guarded(|| ball_pivot_2d(&pts, BallPivotStart::StartOnConvex, BallPivotEnd::EndOnIndex(target), dir, radius)) {
                    Ok(Ok(part)) => ensure!(part[..] == indices[..=first], "C15/ball_pivot/end_on_index/differs", "told to end on point {target} the walk is {:?}; the full walk {:?} first reaches it after {first} steps", part, indices),
                    Ok(Err(e)) => return Verdict::fail("C15/ball_pivot/end_on_index/differs", format!("the walk told to end on point {target}, which the full walk {:?} visits, fails: {e}", indices)),
                    Err(m) => return Verdict::fail("C15/ball_pivot/end_on_index/panic", m),
                }
                cx.label("pivot_end_on_index");
            }
        }
    }
    if let Some(f) = fill {
        cx.label("pivot_fill");
        let max_spacing = f * spacing;
        let out = match guarded(|| ball_pivot_fill_gaps_2d(&pts, BallPivotStart::StartOnConvex, BallPivotEnd::EndOnRepeat, dir, radius, max_spacing)) {
            Ok(Ok(o)) => o,
            Ok(Err(_)) => return cx.pass(),
            Err(m) => return Verdict::fail("C15/ball_pivot_fill/panic", m),
        };
        // walk: hull points in order, inserted points on the arc of the step's centre
        let mut k = 0usize;
        for s in 0..centers.len() {
            ensure!(k < out.len() && out[k] == pts[indices[s]], "C15/ball_pivot_fill/hull_point_missing", "hull point {s} is not in the output in order");
            k += 1;
            let next = pts[indices[s + 1]];
            let mut prev = pts[indices[s]];
            while k < out.len() && out[k] != next {
                let d = (out[k] - centers[s]).norm();
                ensure!((d - radius).abs() <= 1e-9 * (1.0 + radius), "C15/ball_pivot_fill/insert_off_arc", "inserted point is {d:e} from the step's ball centre, radius {radius:e}");
                ensure!((out[k] - prev).norm() <= max_spacing * (1.0 + 1e-9), "C15/ball_pivot_fill/gap_exceeds_max", "gap {:e} exceeds {max_spacing:e}", (out[k] - prev).norm());
                prev = out[k];
                k += 1;
            }
            ensure!(k < out.len(), "C15/ball_pivot_fill/hull_point_missing", "hull point {} is not in the output", s + 1);
            ensure!((next - prev).norm() <= max_spacing * (1.0 + 1e-9) || (next - pts[indices[s]]).norm() <= max_spacing, "C15/ball_pivot_fill/gap_exceeds_max", "gap {:e} before the next hull point exceeds {max_spacing:e}", (next - prev).norm());
        }
        ensure!(k == out.len() - 1 && out[k] == pts[*indices.last().unwrap()], "C15/ball_pivot_fill/tail", "output does not end with the last hull point");
    }
    if n >= 20 {
        cx.nontrivial();
    }
    cx.pass()
}
