//! C16 — Deviations equal signed distance and aggregates track their contents

use crate::ensure;
use crate::fw::*;
use crate::gen::*;
use crate::gen_mesh::*;
use crate::oracle::tri_normal;
use engeom::common::{DiscreteDomain, DistMode, Interval};
use engeom::metrology::line_profiles::{line_surface_deviations, point_curve2_deviation};
use engeom::metrology::{DiscreteDomainTolMap, Distance2, Distance3, Measurement, SurfaceDeviation2, SurfaceDeviationSet2, Tolerance, ToleranceMap};
use engeom::{Point2, Point3, PointCloud, PointCloudFeatures, SurfacePoint2, SurfacePoint3, UnitVec3, Vector2};
use proptest::prelude::*;
use serde::{Deserialize, Serialize};

pub struct C16;

#[derive(Clone, Debug, Serialize, Deserialize)]
pub enum CloudOp {
    Append { p: P3, n: Option<P3>, c: Option<[u8; 3]> },
    Merge { pts: Vec<P3>, hn: bool, hc: bool },
    Select { idx: Vec<u16> },
}

#[derive(Clone, Debug, Serialize, Deserialize)]
pub enum CloudStart {
    Empty { hn: bool, hc: bool },
    TryNew { np: usize, nn: Option<usize>, nc: Option<usize> },
    FromPoints { n: usize },
    FromSurfacePoints { n: usize },
    TryFromPair { np: usize, nn: usize },
}

#[derive(Clone, Debug, Serialize, Deserialize)]
pub enum Case {
    /// measured points = point on edge i at fraction f, offset by s along angle dir
    CurveDev { spec: Curve2Spec, meas: Vec<(u16, f64, f64, f64)>, interval: Option<(f64, f64)> },
    MeshDev { spec: MeshSpec, qs: Vec<Query> },
    Dist2 { a: P2, b: P2, dir: Option<f64> },
    Dist3 { a: P3, b: P3, dir: Option<P3> },
    DevSet { initial: Option<Vec<f64>>, pushes: Vec<f64> },
    Cloud { start: CloudStart, ops: Vec<CloudOp> },
    TolMap { start: f64, incs: Vec<f64>, queries: Vec<(u16, f64, u8)>, #[serde(default)] zero_at: Option<u16>, #[serde(default)] via: u8 },
}

fn devval() -> BoxedStrategy<f64> {
    prop_oneof![4 => coord(3.0), 3 => (-3i32..=3).prop_map(|k| k as f64 * 0.5), 1 => prop::sample::select(vec![1e300, -1e300, 0.0, -0.0, 1e-300])].boxed()
}

impl Property for C16 {
    type Case = Case;
    const ID: &'static str = "C16";
    fn rule() -> &'static str {
        "families: (D) nominal 2D curves and consistently wound meshes with measured points built as reference point +- s*direction (both sides, corners, beyond open ends, on the surface), directed distances with optional direction; (H) histories: deviation sets built from a vector or empty then 0-40 pushes with repeated values and +-1e300; point clouds started empty / try_new with consistent or inconsistent lengths / from points / from surface points then appends, merges (half inconsistent) and index selections; tolerance tables with repeated breakpoints queried at, between, one ulp around, below and beyond the breakpoints, and at +0.0 and -0.0 (30 % of the tables are slid so that one breakpoint is exactly zero). Oracle: exhaustive closest distance and side of the normal; plain Vec models for the aggregates. Non-trivial: (D) measured point on the inner side or nearest to a corner; (H) >=3 pushes with a tie for an extreme, or at least one rejected and one accepted mutation, or a repeated breakpoint. Distinct = distinct canonical JSON."
    }
    fn cases(t: Tier) -> u32 {
        t.pick(2_400_000, 20_000_000)
    }
    fn expected_labels() -> Vec<&'static str> {
        vec!["curve_dev", "mesh_dev", "dist2", "dist3", "devset", "cloud", "tolmap", "inner_side", "outer_side", "corner", "on_surface", "tie_extreme", "rejected_op", "accepted_op", "try_new_rejected", "below_first", "beyond_last", "repeated_breakpoint", "interval_filter", "zero_breakpoint", "query_negative_zero"]
    }
    fn strategy(t: Tier) -> BoxedStrategy<Case> {
        let gmax = t.pick(8, 14);
        let cloud_op = prop_oneof![
            4 => (p3(5.0), prop::option::of(unit3()), prop::option::of(any::<[u8; 3]>())).prop_map(|(p, n, c)| CloudOp::Append { p, n, c }),
            2 => (prop::collection::vec(p3(5.0), 0..4), any::<bool>(), any::<bool>()).prop_map(|(pts, hn, hc)| CloudOp::Merge { pts, hn, hc }),
            1 => prop::collection::vec(any::<u16>(), 0..6).prop_map(|idx| CloudOp::Select { idx }),
        ];
        let cloud_start = prop_oneof![
            2 => (any::<bool>(), any::<bool>()).prop_map(|(hn, hc)| CloudStart::Empty { hn, hc }),
            2 => (0usize..5, prop::option::of(0usize..5), prop::option::of(0usize..5)).prop_map(|(np, nn, nc)| CloudStart::TryNew { np, nn, nc }),
            1 => (0usize..5).prop_map(|n| CloudStart::FromPoints { n }),
            1 => (0usize..5).prop_map(|n| CloudStart::FromSurfacePoints { n }),
            1 => (0usize..4, 0usize..4).prop_map(|(np, nn)| CloudStart::TryFromPair { np, nn }),
        ];
        prop_oneof![
            3 => (curve2_spec(3, 40, -2.0, 2.0, false), prop::collection::vec((any::<u16>(), unif(0.0, 1.0), unif(0.0, 6.2832), prop_oneof![logu(-8.0, 0.0), Just(0.0)]), 1..12), prop::option::of((unif(0.0, 1.0), unif(0.0, 1.0)))).prop_map(|(spec, meas, interval)| Case::CurveDev { spec, meas, interval }),
            2 => (clean_mesh(any_kind(gmax), 10.0), prop::collection::vec(query(), 2..12)).prop_map(|(mut spec, qs)| { spec.flip_all = false; Case::MeshDev { spec, qs } }),
            1 => (p2(10.0), p2(10.0), prop::option::of(unif(-4.0, 4.0))).prop_map(|(a, b, dir)| Case::Dist2 { a, b, dir }),
            1 => (p3(10.0), p3(10.0), prop::option::of(unit3())).prop_map(|(a, b, dir)| Case::Dist3 { a, b, dir }),
            3 => (prop::option::of(prop::collection::vec(devval(), 0..8)), prop::collection::vec(devval(), 0..40)).prop_map(|(initial, pushes)| Case::DevSet { initial, pushes }),
            3 => (cloud_start, prop::collection::vec(cloud_op, 0..10)).prop_map(|(start, ops)| Case::Cloud { start, ops }),
            2 => (coord(5.0), prop::collection::vec(prop_oneof![1 => Just(0.0), 3 => unif(0.01, 2.0)], 0..20), prop::collection::vec((any::<u16>(), unif(0.0, 1.0), 0u8..8), 1..10), prop::option::weighted(0.3, any::<u16>()), prop_oneof![3 => Just(0u8), 1 => Just(1u8), 1 => Just(2u8), 1 => Just(3u8)]).prop_map(|(start, incs, queries, zero_at, via)| Case::TolMap { start, incs, queries, zero_at, via }),
        ]
        .boxed()
    }
    fn check(case: &Case) -> Verdict {
        match case {
            Case::CurveDev { spec, meas, interval } => curve_dev(spec, meas, interval),
            Case::MeshDev { spec, qs } => mesh_dev(spec, qs),
            Case::Dist2 { a, b, dir } => dist2(a, b, dir),
            Case::Dist3 { a, b, dir } => dist3(a, b, dir),
            Case::DevSet { initial, pushes } => devset(initial, pushes),
            Case::Cloud { start, ops } => cloud(start, ops),
            Case::TolMap { start, incs, queries, zero_at, via } => tolmap(*start, incs, queries, *zero_at, *via),
        }
    }
}

fn curve_dev(spec: &Curve2Spec, meas: &[(u16, f64, f64, f64)], interval: &Option<(f64, f64)>) -> Verdict {
    let mut cx = Ctx::new();
    cx.label("curve_dev");
    let b = match spec.build() {
        Ok(Some(b)) => b,
        Ok(None) => return Verdict::Discard("degenerate polyline"),
        Err(e) => return Verdict::fail("C16/curve/from_points", e),
    };
    let c = &b.curve;
    let n = b.model.n();
    let scale = b.model.scale();
    let tol = 1e-9 * scale;
    let unit = b.model.len() / n as f64;
    let mut pts = vec![];
    let mut nt = false;
    for (i, f, dir, s) in meas {
        let k = idx(*i, n - 1);
        let r = b.model.v[k] + (b.model.v[k + 1] - b.model.v[k]) * *f;
        let p = r + Vector2::new(dir.cos(), dir.sin()) * (*s * unit);
        pts.push(p);
        let st = c.at_closest_to_point(&p);
        let dev = point_curve2_deviation(&st, &p);
        let (dstar, _, _, t) = b.model.closest(&p);
        if dstar < 1.000001e-6 {
            // the library treats offsets below an absolute 1e-6 as "on the curve" and reports the normal component
            ensure!(dev.deviation.abs() <= dstar + tol, "C16/curve/magnitude_on_surface", "|deviation| = {:e} exceeds the closest distance {dstar:e}", dev.deviation.abs());
        } else {
            ensure!((dev.deviation.abs() - dstar).abs() <= tol, "C16/curve/magnitude", "|deviation| = {:e} but the closest distance is {dstar:e}", dev.deviation.abs());
        }
        let v = p - st.point();
        let side = v.dot(&st.normal().into_inner());
        if v.norm() >= 1e-6 {
            if side.abs() > 1e-7 * v.norm() {
                ensure!((dev.deviation > 0.0) == (side > 0.0), "C16/curve/sign", "deviation {:e} but the point is on the {} side of the station normal (n.v = {side:e})", dev.deviation, if side > 0.0 { "positive" } else { "negative" });
                cx.label(if side > 0.0 { "outer_side" } else { "inner_side" });
                if side < 0.0 {
                    nt = true;
                }
            }
            ensure!((dev.actual_point() - p).norm() <= tol, "C16/curve/reconstruct", "reference + direction*value = {:?}, measured point {:?}", dev.actual_point(), p);
            ensure!((dev.surface.normal.norm() - 1.0).abs() <= 1e-12, "C16/curve/direction_unit", "direction not unit");
        } else {
            cx.label("on_surface");
            ensure!((dev.actual_point() - p).norm() <= 2e-6, "C16/curve/reconstruct_on_surface", "reconstruction error {:e} for a point on the curve", (dev.actual_point() - p).norm());
        }
        ensure!((dev.surface.point - st.point()).norm() == 0.0, "C16/curve/reference_point", "reference point is not the closest station");
        if t == 0.0 || t == 1.0 {
            cx.label("corner");
            nt = true;
        }
    }
    // set over an interval of station lengths
    let iv = interval.map(|(a, b2)| Interval::new(a * c.length(), b2 * c.length()));
    let set = line_surface_deviations(c, &pts, iv);
    let mut expect = vec![];
    for p in &pts {
        let st = c.at_closest_to_point(p);
        if let Some(i) = iv {
            if !(st.length_along() >= i.min && st.length_along() <= i.max) {
                continue;
            }
        }
        expect.push(point_curve2_deviation(&st, p).deviation);
    }
    let got: Vec<f64> = set.iter().map(|d| d.deviation).collect();
    ensure!(got == expect, "C16/curve/line_surface_deviations", "set has deviations {:?}, expected (in order, interval-filtered) {:?}", got, expect);
    cx.label_if(iv.is_some() && expect.len() < pts.len(), "interval_filter");
    if nt {
        cx.nontrivial();
    }
    cx.pass()
}

fn mesh_dev(spec: &MeshSpec, qs: &[Query]) -> Verdict {
    let mut cx = Ctx::new();
    cx.label("mesh_dev");
    let Some(bm) = spec.build() else { return Verdict::Discard("empty mesh") };
    let soup = bm.soup();
    for i in 0..soup.f.len() {
        let (a, b, c) = soup.tri(i);
        let lmax = (b - a).norm().max((c - b).norm()).max((a - c).norm());
        if crate::oracle::tri_area(&a, &b, &c) < 1e-6 * lmax * lmax {
            return Verdict::Discard("degenerate face");
        }
    }
    let m = bm.mesh(false);
    let size = soup.size();
    let tol = 1e-9 * (size + soup.max_abs());
    let mut nt = false;
    for q in qs {
        let p = q.resolve(&bm);
        let (dstar, _, _) = soup.closest(&p);
        for k in 0..2 {
            let mode = if k == 0 { DistMode::ToPoint } else { DistMode::ToPlane };
            let d: Distance3 = match guarded(|| m.measure_point_deviation(&p, mode)) {
                Ok(d) => d,
                Err(msg) => return Verdict::fail("C16/mesh/panic", msg),
            };
            ensure!((d.b - p).norm() == 0.0, "C16/mesh/b_is_measured_point", "b is not the measured point");
            ensure!(((d.a - p).norm() - dstar).abs() <= tol, "C16/mesh/a_is_closest", "a is {:e} from the measured point, exhaustive closest distance {dstar:e}", (d.a - p).norm());
            let v = p - d.a;
            // the face normal used: any face containing a and attaining the optimum
            let faces: Vec<usize> = (0..soup.f.len()).filter(|i| soup.dist_to_face(*i, &d.a) <= tol).collect();
            let normals: Vec<_> = faces.iter().filter_map(|i| { let (a, b, c) = soup.tri(*i); tri_normal(&a, &b, &c) }).collect();
            if k == 0 {
                if v.norm() < 1.000001e-6 {
                    ensure!(d.value().abs() <= v.norm() + tol, "C16/mesh/point_mode_magnitude_on_surface", "ToPoint |value| = {:e} exceeds |p - a| = {:e}", d.value().abs(), v.norm());
                } else {
                    ensure!((d.value().abs() - v.norm()).abs() <= tol, "C16/mesh/point_mode_magnitude", "ToPoint |value| = {:e}, |p - a| = {:e}", d.value().abs(), v.norm());
                }
                if v.norm() > 1e-5 * size {
                    // sign: positive on the outward (face normal) side, decided when all candidate faces agree
                    let sides: Vec<f64> = normals.iter().map(|n| n.dot(&v) / v.norm()).collect();
                    if !sides.is_empty() && sides.iter().all(|s| *s > 1e-6) {
                        ensure!(d.value() > 0.0, "C16/mesh/point_mode_sign", "point on the outward side has value {:e}", d.value());
                        cx.label("outer_side");
                    } else if !sides.is_empty() && sides.iter().all(|s| *s < -1e-6) {
                        ensure!(d.value() < 0.0, "C16/mesh/point_mode_sign", "point on the inward side has value {:e}", d.value());
                        cx.label("inner_side");
                        nt = true;
                    }
                    let rec = d.a + d.direction.into_inner() * d.value();
                    ensure!((rec - p).norm() <= tol, "C16/mesh/point_mode_reconstruct", "a + direction*value = {:?}, measured {:?}", rec, p);
                } else {
                    cx.label("on_surface");
                }
            } else {
                let ok = normals.iter().any(|n| (n.dot(&v) - d.value()).abs() <= tol && (n - d.direction.into_inner()).norm() <= 1e-7);
                ensure!(ok, "C16/mesh/plane_mode_value", "ToPlane value {:e} with direction {:?} is not n.(p-a) for any face containing the closest point", d.value(), d.direction);
                // foot on the normal line
                let rec = d.a + d.direction.into_inner() * d.value();
                ensure!(((rec - p).dot(&d.direction.into_inner())).abs() <= tol, "C16/mesh/plane_mode_reconstruct", "a + direction*value is not the foot of the measured point on the normal line");
            }
            if faces.len() >= 2 {
                cx.label("corner");
                nt = true;
            }
        }
    }
    if nt {
        cx.nontrivial();
    }
    cx.pass()
}

fn dist2(a: &P2, b: &P2, dir: &Option<f64>) -> Verdict {
    let mut cx = Ctx::new();
    cx.label("dist2");
    let (a, b) = (pt2(a), pt2(b));
    if (a - b).norm() < 1e-9 {
        return Verdict::Discard("coincident");
    }
    let u = dir.map(|x| engeom::UnitVec2::new_normalize(Vector2::new(x.cos(), x.sin())));
    let d = Distance2::new(a, b, u);
    let dv = match u {
        Some(u) => u.into_inner(),
        None => (b - a).normalize(),
    };
    ensure!((d.direction.into_inner() - dv).norm() <= 1e-12, "C16/dist2/direction", "direction {:?}, expected {:?}", d.direction, dv);
    ensure!((d.value() - dv.dot(&(b - a))).abs() <= 1e-12 * (1.0 + (b - a).norm()), "C16/dist2/value", "value {:e} is not direction.(b-a) = {:e}", d.value(), dv.dot(&(b - a)));
    let r = d.reversed();
    ensure!(r.a == b && r.b == a, "C16/dist2/reversed_ends", "reversed() did not swap a and b");
    ensure!((r.value() - d.value()).abs() <= 1e-12 * (1.0 + d.value().abs()), "C16/dist2/reversed_value", "reversed value {:e} vs {:e}", r.value(), d.value());
    let c = d.center();
    ensure!((c.point - Point2::from((a.coords + b.coords) * 0.5)).norm() <= 1e-12 * (1.0 + a.coords.norm() + b.coords.norm()), "C16/dist2/center", "center is not the midpoint");
    cx.nontrivial();
    cx.pass()
}

fn dist3(a: &P3, b: &P3, dir: &Option<P3>) -> Verdict {
    let mut cx = Ctx::new();
    cx.label("dist3");
    let (a, b) = (pt3(a), pt3(b));
    if (a - b).norm() < 1e-9 {
        return Verdict::Discard("coincident");
    }
    let u = dir.map(|x| UnitVec3::new_normalize(v3(&x)));
    let d = Distance3::new(a, b, u);
    let dv = match u {
        Some(u) => u.into_inner(),
        None => (b - a).normalize(),
    };
    ensure!((d.direction.into_inner() - dv).norm() <= 1e-12, "C16/dist3/direction", "direction {:?}, expected {:?}", d.direction, dv);
    ensure!((d.value() - dv.dot(&(b - a))).abs() <= 1e-12 * (1.0 + (b - a).norm()), "C16/dist3/value", "value {:e} is not direction.(b-a)", d.value());
    let r = d.reversed();
    ensure!(r.a == b && r.b == a, "C16/dist3/reversed_ends", "reversed() did not swap a and b");
    ensure!((r.value() - d.value()).abs() <= 1e-12 * (1.0 + d.value().abs()), "C16/dist3/reversed_value", "reversed value {:e} vs {:e}", r.value(), d.value());
    let c = d.center();
    ensure!((c.point - Point3::from((a.coords + b.coords) * 0.5)).norm() <= 1e-12 * (1.0 + a.coords.norm() + b.coords.norm()), "C16/dist3/center", "center is not the midpoint");
    cx.nontrivial();
    cx.pass()
}

fn mk_dev(i: usize, d: f64) -> SurfaceDeviation2 {
    SurfaceDeviation2::new(SurfacePoint2::new_normalize(Point2::new(i as f64, 0.0), Vector2::new(0.0, 1.0)), d)
}

fn devset(initial: &Option<Vec<f64>>, pushes: &[f64]) -> Verdict {
    let mut cx = Ctx::new();
    cx.label("devset");
    let mut model: Vec<f64> = vec![];
    let mut set = match initial {
        Some(v) => {
            model = v.clone();
            SurfaceDeviationSet2::new(v.iter().enumerate().map(|(i, d)| mk_dev(i, *d)).collect())
        }
        None => SurfaceDeviationSet2::default(),
    };
    let mut tie = false;
    let verify = |set: &SurfaceDeviationSet2, model: &[f64], step: usize| -> Result<(), Failure> {
        crate::ensure_r!(set.len() == model.len(), "C16/devset/len", "len {} vs model {} after step {step}", set.len(), model.len());
        for (i, d) in model.iter().enumerate() {
            crate::ensure_r!(set[i].deviation == *d && set[i].surface.point.x == i as f64, "C16/devset/contents", "element {i} differs from the model after step {step}");
        }
        let it: Vec<f64> = set.iter().map(|d| d.deviation).collect();
        crate::ensure_r!(it == model, "C16/devset/iter", "iteration differs from the model");
        if model.is_empty() {
            crate::ensure_r!(set.max().is_none() && set.min().is_none(), "C16/devset/empty_extremes", "empty set reports an extreme");
            crate::ensure_r!(set.symmetrical_zone_size() == 0.0, "C16/devset/empty_zone", "empty set zone {:e}", set.symmetrical_zone_size());
            return Ok(());
        }
        let mx = model.iter().cloned().fold(f64::NEG_INFINITY, f64::max);
        let mn = model.iter().cloned().fold(f64::INFINITY, f64::min);
        let (Some(a), Some(b)) = (set.max(), set.min()) else {
            return Err(failure("C16/devset/extreme_none", format!("non-empty set reports no extreme after step {step}")));
        };
        crate::ensure_r!(a.deviation == mx, "C16/devset/max", "max() = {:e} but the contents' maximum is {mx:e} after step {step}; contents {:?}", a.deviation, model);
        crate::ensure_r!(b.deviation == mn, "C16/devset/min", "min() = {:e} but the contents' minimum is {mn:e} after step {step}; contents {:?}", b.deviation, model);
        // the reported element is one of the stored ones attaining it
        crate::ensure_r!(model[a.surface.point.x as usize] == mx && model[b.surface.point.x as usize] == mn, "C16/devset/extreme_element", "reported extreme element does not attain the extreme");
        let z = 2.0 * mx.abs().max(mn.abs());
        crate::ensure_r!(set.symmetrical_zone_size() == z, "C16/devset/zone", "symmetrical_zone_size = {:e}, expected {z:e}", set.symmetrical_zone_size());
        Ok(())
    };
    if let Err(f) = verify(&set, &model, 0) {
        return Verdict::Fail(f);
    }
    for (k, d) in pushes.iter().enumerate() {
        if k % 2 == 0 {
            set.push(mk_dev(model.len(), *d));
        } else {
            set.push_new(SurfacePoint2::new_normalize(Point2::new(model.len() as f64, 0.0), Vector2::new(0.0, 1.0)), *d);
        }
        model.push(*d);
        if let Err(f) = verify(&set, &model, k + 1) {
            return Verdict::Fail(f);
        }
        // half-way through the history the set is written out and read back (and, for the other parity, cloned): what
        // comes back is a set holding the same deviations, so it reports the same extremes and carries on from there
        if k + 1 == (pushes.len() + 1) / 2 {
            if pushes.len() % 2 == 0 {
                let text = match serde_json::to_string(&set) {
                    Ok(t) => t,
                    Err(e) => return Verdict::fail("C16/devset/serialize", format!("{e}")),
                };
                set = match guarded(|| serde_json::from_str::<SurfaceDeviationSet2>(&text)) {
                    Ok(Ok(s)) => s,
                    Ok(Err(e)) => return Verdict::fail("C16/devset/deserialize", format!("{e}")),
                    Err(m) => return Verdict::fail("C16/devset/deserialize_panic", m),
                };
                cx.label("devset_read_back");
            } else {
                set = set.clone();
                cx.label("devset_cloned");
            }
            match guarded(|| verify(&set, &model, 1000 + k)) {
                Ok(Ok(())) => {}
                Ok(Err(mut f)) => {
                    f.sig = format!("{}/after_copy", f.sig);
                    return Verdict::Fail(f);
                }
                Err(m) => return Verdict::fail("C16/devset/panic_after_copy", m),
            }
        }
    }
    if !model.is_empty() {
        let mx = model.iter().cloned().fold(f64::NEG_INFINITY, f64::max);
        let mn = model.iter().cloned().fold(f64::INFINITY, f64::min);
        tie = model.iter().filter(|x| **x == mx).count() > 1 || model.iter().filter(|x| **x == mn).count() > 1;
    }
    cx.label_if(tie, "tie_extreme");
    if pushes.len() >= 3 && tie {
        cx.nontrivial();
    }
    cx.pass()
}

#[derive(Clone, PartialEq, Debug)]
struct CloudModel {
    p: Vec<Point3>,
    n: Option<Vec<UnitVec3>>,
    c: Option<Vec<[u8; 3]>>,
}

fn cloud_matches(pc: &PointCloud, m: &CloudModel, site: &str) -> Result<(), Failure> {
    crate::ensure_r!(pc.points() == &m.p[..], format!("C16/cloud/{site}/points"), "points differ from the model: {} vs {}", pc.points().len(), m.p.len());
    crate::ensure_r!(pc.normals().map(|x| x.to_vec()) == m.n, format!("C16/cloud/{site}/normals"), "normals differ from the model (present {}, len {:?} vs points {})", pc.normals().is_some(), pc.normals().map(|x| x.len()), pc.points().len());
    crate::ensure_r!(pc.colors().map(|x| x.to_vec()) == m.c, format!("C16/cloud/{site}/colors"), "colours differ from the model (present {}, len {:?} vs points {})", pc.colors().is_some(), pc.colors().map(|x| x.len()), pc.points().len());
    if let Some(n) = pc.normals() {
        crate::ensure_r!(n.len() == pc.points().len(), format!("C16/cloud/{site}/length_invariant"), "{} normals for {} points", n.len(), pc.points().len());
    }
    if let Some(c) = pc.colors() {
        crate::ensure_r!(c.len() == pc.points().len(), format!("C16/cloud/{site}/length_invariant"), "{} colours for {} points", c.len(), pc.points().len());
    }
    crate::ensure_r!(pc.len() == m.p.len() && pc.is_empty() == m.p.is_empty(), format!("C16/cloud/{site}/len"), "len()/is_empty() wrong");
    Ok(())
}

fn cloud(start: &CloudStart, ops: &[CloudOp]) -> Verdict {
    let mut cx = Ctx::new();
    cx.label("cloud");
    let mkp = |k: usize| Point3::new(k as f64, 0.5 * k as f64, -(k as f64));
    let mkn = |k: usize| UnitVec3::new_normalize(engeom::Vector3::new(1.0, k as f64, 0.5));
    let mkc = |k: usize| [k as u8, 7, 9];
    let (mut pc, mut model) = match start {
        CloudStart::Empty { hn, hc } => (PointCloud::empty(*hn, *hc), CloudModel { p: vec![], n: if *hn { Some(vec![]) } else { None }, c: if *hc { Some(vec![]) } else { None } }),
        CloudStart::TryNew { np, nn, nc } => {
            let p: Vec<Point3> = (0..*np).map(mkp).collect();
            let n = nn.map(|k| (0..k).map(mkn).collect::<Vec<_>>());
            let c = nc.map(|k| (0..k).map(mkc).collect::<Vec<_>>());
            let valid = nn.map(|k| k == *np).unwrap_or(true) && nc.map(|k| k == *np).unwrap_or(true);
            match PointCloud::try_new(p.clone(), n.clone(), c.clone()) {
                Ok(pc) => {
                    ensure!(valid, "C16/cloud/try_new/accepted_inconsistent", "try_new accepted {np} points, {:?} normals, {:?} colours", nn, nc);
                    (pc, CloudModel { p, n, c })
                }
                Err(_) => {
                    ensure!(!valid, "C16/cloud/try_new/rejected_consistent", "try_new rejected consistent lengths");
                    cx.label("try_new_rejected");
                    cx.nontrivial();
                    return cx.pass();
                }
            }
        }
        CloudStart::FromPoints { n } => {
            let p: Vec<Point3> = (0..*n).map(mkp).collect();
            (PointCloud::from(&p[..]), CloudModel { p, n: None, c: None })
        }
        CloudStart::FromSurfacePoints { n } => {
            let sps: Vec<SurfacePoint3> = (0..*n).map(|k| SurfacePoint3::new(mkp(k), mkn(k))).collect();
            (PointCloud::from(&sps[..]), CloudModel { p: (0..*n).map(mkp).collect(), n: Some((0..*n).map(mkn).collect()), c: None })
        }
        CloudStart::TryFromPair { np, nn } => {
            let p: Vec<Point3> = (0..*np).map(mkp).collect();
            let n: Vec<UnitVec3> = (0..*nn).map(mkn).collect();
            match PointCloud::try_from((&p[..], &n[..])) {
                Ok(pc) => {
                    ensure!(np == nn, "C16/cloud/try_from/accepted_inconsistent", "try_from accepted {np} points with {nn} normals");
                    (pc, CloudModel { p, n: Some(n), c: None })
                }
                Err(_) => {
                    ensure!(np != nn, "C16/cloud/try_from/rejected_consistent", "try_from rejected equal lengths");
                    cx.label("try_new_rejected");
                    cx.nontrivial();
                    return cx.pass();
                }
            }
        }
    };
    if let Err(f) = cloud_matches(&pc, &model, "start") {
        return Verdict::Fail(f);
    }
    let (mut rejected, mut accepted) = (0, 0);
    for op in ops {
        match op {
            CloudOp::Append { p, n, c } => {
                let ok = n.is_some() == model.n.is_some() && c.is_some() == model.c.is_some();
                let nn = n.map(|x| UnitVec3::new_normalize(v3(&x)));
                let r = pc.append(pt3(p), nn, *c);
                ensure!(r.is_ok() == ok, if ok { "C16/cloud/append/rejected_consistent" } else { "C16/cloud/append/accepted_inconsistent" }, "append(normal={}, colour={}) on a cloud with normals={} colours={} returned ok={}", n.is_some(), c.is_some(), model.n.is_some(), model.c.is_some(), r.is_ok());
                if ok {
                    model.p.push(pt3(p));
                    if let Some(v) = model.n.as_mut() {
                        v.push(nn.unwrap());
                    }
                    if let Some(v) = model.c.as_mut() {
                        v.push(c.unwrap());
                    }
                    accepted += 1;
                } else {
                    rejected += 1;
                }
                if let Err(f) = cloud_matches(&pc, &model, if ok { "append" } else { "append_rejected_changed_state" }) {
                    return Verdict::Fail(f);
                }
            }
            CloudOp::Merge { pts, hn, hc } => {
                let p: Vec<Point3> = pts.iter().map(pt3).collect();
                let n = if *hn { Some((0..p.len()).map(|k| mkn(k + 3)).collect::<Vec<_>>()) } else { None };
                let c = if *hc { Some((0..p.len()).map(|k| mkc(k + 3)).collect::<Vec<_>>()) } else { None };
                let other = PointCloud::try_new(p.clone(), n.clone(), c.clone()).unwrap();
                let ok = *hn == model.n.is_some() && *hc == model.c.is_some();
                let r = pc.merge(other);
                ensure!(r.is_ok() == ok, if ok { "C16/cloud/merge/rejected_consistent" } else { "C16/cloud/merge/accepted_inconsistent" }, "merge(normals={hn}, colours={hc}) into normals={} colours={} returned ok={}", model.n.is_some(), model.c.is_some(), r.is_ok());
                if ok {
                    model.p.extend(p);
                    if let Some(v) = model.n.as_mut() {
                        v.extend(n.unwrap());
                    }
                    if let Some(v) = model.c.as_mut() {
                        v.extend(c.unwrap());
                    }
                    accepted += 1;
                } else {
                    rejected += 1;
                }
                if let Err(f) = cloud_matches(&pc, &model, if ok { "merge" } else { "merge_rejected_changed_state" }) {
                    return Verdict::Fail(f);
                }
            }
            CloudOp::Select { idx: sel } => {
                if model.p.is_empty() {
                    continue;
                }
                let ix: Vec<usize> = sel.iter().map(|i| idx(*i, model.p.len())).collect();
                let sub = match guarded(|| pc.create_from_indices(&ix)) {
                    Ok(s) => s,
                    Err(m) => return Verdict::fail("C16/cloud/create_from_indices/panic", m),
                };
                let sm = CloudModel { p: ix.iter().map(|i| model.p[*i]).collect(), n: model.n.as_ref().map(|v| ix.iter().map(|i| v[*i]).collect()), c: model.c.as_ref().map(|v| ix.iter().map(|i| v[*i]).collect()) };
                if let Err(f) = cloud_matches(&sub, &sm, "create_from_indices") {
                    return Verdict::Fail(f);
                }
                // the source is untouched; continue with the selection half of the time
                if let Err(f) = cloud_matches(&pc, &model, "create_from_indices_source") {
                    return Verdict::Fail(f);
                }
                if ix.len() % 2 == 1 {
                    pc = sub;
                    model = sm;
                }
            }
        }
    }
    cx.label_if(rejected > 0, "rejected_op");
    cx.label_if(accepted > 0, "accepted_op");
    if rejected > 0 && accepted > 0 {
        cx.nontrivial();
    }
    cx.pass()
}

fn tolmap(start: f64, incs: &[f64], queries: &[(u16, f64, u8)], zero_at: Option<u16>, via: u8) -> Verdict {
    let mut cx = Ctx::new();
    cx.label("tolmap");
    let mut xs = vec![start];
    for i in incs {
        let l = *xs.last().unwrap();
        xs.push(l + i);
    }
    let n = xs.len();
    // optionally slide the table so that one breakpoint is exactly (positive) zero: queries 6 and 7 ask for -0.0 and +0.0
    if let Some(z) = zero_at {
        let x0 = xs[idx(z, n)];
        for x in xs.iter_mut() {
            *x = (*x - x0) + 0.0;
        }
        cx.label("zero_breakpoint");
    }
    let zones: Vec<Tolerance> = (0..n).map(|i| Tolerance::new_unchecked(-(i as f64) - 1.0, i as f64 + 1.0)).collect();
    // the table comes from any constructor of the domain type: the validated vector, an evenly spaced table with its
    // limits given in either order, or one grown by push; whatever it holds is the table the map is asked about
    let strictly = xs.windows(2).all(|w| w[0] < w[1]);
    let dom = match via {
        1 | 2 if n >= 2 && xs[n - 1] > xs[0] => {
            let (a, b) = if via == 1 { (xs[0], xs[n - 1]) } else { (xs[n - 1], xs[0]) };
            cx.label(if via == 1 { "table_linear" } else { "table_linear_reversed_limits" });
            match guarded(|| DiscreteDomain::linear(a, b, n)) {
                Ok(d) => d,
                Err(m) => return Verdict::fail("C16/tolmap/linear/panic", format!("DiscreteDomain::linear({a:e},{b:e},{n}): {m}")),
            }
        }
        3 if strictly => {
            cx.label("table_pushed");
            let mut d = DiscreteDomain::default();
            for x in &xs {
                if let Err(e) = d.push(*x) {
                    return Verdict::fail("C16/tolmap/push/rejected_valid", format!("push({x:e}) onto an ascending table failed: {e}"));
                }
            }
            d
        }
        _ => DiscreteDomain::try_from(xs.clone()).unwrap(),
    };
    let xs: Vec<f64> = dom.values().to_vec();
    ensure!(xs.len() == n, "C16/tolmap/table_length", "a table of {n} breakpoints was requested, the domain holds {}", xs.len());
    // length mismatch must be rejected
    ensure!(DiscreteDomainTolMap::try_new(dom.clone(), zones[..n - 1].to_vec()).is_err(), "C16/tolmap/try_new/accepted_mismatch", "try_new accepted {} breakpoints with {} zones", n, n - 1);
    let map = match DiscreteDomainTolMap::try_new(dom, zones.clone()) {
        Ok(m) => m,
        Err(e) => return Verdict::fail("C16/tolmap/try_new/rejected_valid", format!("{e}")),
    };
    let empty = DiscreteDomainTolMap::try_new(DiscreteDomain::default(), vec![]).unwrap();
    ensure!(empty.get(0.0).is_none(), "C16/tolmap/empty", "empty table returned a zone");
    let repeated = xs.windows(2).any(|w| w[0] == w[1]);
    cx.label_if(repeated, "repeated_breakpoint");
    for (i, f, kind) in queries {
        let k = idx(*i, n);
        let x = match kind {
            0 => xs[k],
            1 => next_up(xs[k]),
            2 => next_down(xs[k]),
            3 => {
                if k + 1 < n {
                    xs[k] + f * (xs[k + 1] - xs[k])
                } else {
                    xs[k]
                }
            }
            4 => xs[0] - 0.5 - f,
            5 => xs[n - 1] + 0.5 + f,
            6 => {
                cx.label("query_negative_zero");
                -0.0
            }
            _ => 0.0,
        };
        let got = match guarded(|| map.get(x)) {
            Ok(g) => g,
            Err(m) => return Verdict::fail("C16/tolmap/panic", format!("get({x:e}) on table {:?}: {m}", xs)),
        };
        let Some(z) = got else {
            return Verdict::fail("C16/tolmap/none_for_nonempty", format!("get({x:e}) returned None for a non-empty table"));
        };
        let zi = (z.upper - 1.0) as usize;
        if x > xs[n - 1] {
            ensure!(zi == n - 1, "C16/tolmap/beyond_last", "get({x:e}) beyond the last breakpoint returned zone {zi}, expected the last zone {}", n - 1);
            cx.label("beyond_last");
        } else if x >= xs[0] {
            // zone of the greatest breakpoint <= x (any index among equal breakpoints)
            let g = xs.iter().cloned().filter(|b| *b <= x).fold(f64::NEG_INFINITY, f64::max);
            ensure!(xs[zi] == g, "C16/tolmap/greatest_breakpoint_not_above", "get({x:e}) returned zone {zi} (breakpoint {:e}) but the greatest breakpoint not above x is {g:e}; table {:?}", xs[zi], xs);
        } else {
            // below the first breakpoint: the statement only excludes the first zone
            cx.label("below_first");
            if n >= 2 && xs[0] != xs[n - 1] {
                ensure!(xs[zi] != xs[0] || zi != 0, "C16/tolmap/below_first_returned_first", "get({x:e}) below the first breakpoint returned the first zone");
            }
        }
    }
    if repeated {
        cx.nontrivial();
    }
    cx.pass()
}
