//! C19 — Basis, frame and plane constructions are orthonormal and right-handed

use crate::ensure;
use crate::fw::*;
use crate::gen::*;
use engeom::common::svd_basis::{iso2_from_basis, iso3_from_basis, iso3_from_xyo, SvdBasis};
use engeom::geom3::IsoExtensions3;
use engeom::{Iso2, Iso3, Plane3, Point3, SurfacePoint3, UnitVec3, Vector3};
use parry2d_f64::na::{Point, SMatrix, SVector};
use proptest::prelude::*;
use serde::{Deserialize, Serialize};


/// graded check for quantities that come out of the library's SVD back end: within `tight` -> ok; within `loose`
/// -> the separately recorded accuracy finding; beyond -> the regular violation signature
macro_rules! graded {
    ($err:expr, $tight:expr, $loose:expr, $sig:expr, $($arg:tt)*) => {{
        let e: f64 = $err;
        if !(e <= $tight) {
            if e <= $loose {
                return Verdict::fail("C19/svd/accuracy/backend_svd_inexact", format!("(within the loose bound, error {:e} > tight bound {:e}) {}", e, $tight, format!($($arg)*)));
            }
            return Verdict::fail($sig, format!($($arg)*));
        }
    }};
}

pub struct C19;

#[derive(Clone, Debug, Serialize, Deserialize)]
pub enum Weights {
    None,
    Equal(f64),
    NonUniform(Vec<f64>),
}

#[derive(Clone, Debug, Serialize, Deserialize)]
pub enum Case {
    /// points = centre + sum_k coords[i][k] * stretch[k] * axis_k (axes from a pose); rank = number of non-zero stretches
    Svd3 { coords: Vec<P3>, stretch: P3, pose: Iso3D, offset: P3, weights: Weights, scale_w: f64, t: Iso3D, #[serde(default = "one")] unit: F },
    Svd2 { coords: Vec<P2>, stretch: P2, pose: Iso2D, offset: P2, weights: Weights, scale_w: f64, t: Iso2D, #[serde(default = "one")] unit: F },
    /// integer point sets that are exactly symmetric under exchanging two coordinates about their (integer) centre:
    /// each seed (a,b,c) contributes (a,b,c), (b,a,c) and their negatives, all shifted by the offset
    SvdSym { dim3: bool, seeds: Vec<(i8, i8, i8)>, offset: (i16, i16, i16), pair: u8, equal_w: Option<f64>, t: Iso3D },
    Frame { which: u8, a: P3, la: f64, angle: f64, roll: f64, lb: f64, origin: Option<P3>, degenerate: u8 },
    Xyo { a: P3, angle: f64, roll: f64, origin: P3 },
    Basis2 { ang: f64, len: f64, origin: P2 },
    PlaneTriple { p: P3, q: P3, r: P3, x: P3 },
    PlaneNormal { n: P3, p: P3, x: P3, spn: P3 },
    /// a triangle of the given size (corners centre + size*a, ...) anywhere up to 1e7 sizes from the origin
    PlaneFar { centre: P3, size: f64, a: P3, b: P3, c: P3 },
}

fn one() -> F {
    F(1.0)
}

/// overall length unit of a point set (metres vs microns): every clause is relative, so the answer may not depend on it
fn unit() -> BoxedStrategy<F> {
    prop_oneof![5 => Just(F(1.0)), 3 => logu(-8.0, 3.0).prop_map(F)].boxed()
}

fn weights(n: usize) -> BoxedStrategy<Weights> {
    prop_oneof![
        2 => Just(Weights::None),
        2 => prop::sample::select(vec![0.5, 1.0, 2.0, 7.0]).prop_map(Weights::Equal),
        3 => prop::collection::vec(logu(-1.0, 1.0), n).prop_map(Weights::NonUniform),
    ]
    .boxed()
}

impl Property for C19 {
    type Case = Case;
    const ID: &'static str = "C19";
    fn rule() -> &'static str {
        "families: point sets of D+1..120 points built from a known basis (generic, exactly planar / collinear / coincident by zeroing stretches, anisotropic up to 1e6, offset up to 1e3 from the origin) with no weights, equal weights c in {0.5,1,2,7} or non-uniform positive weights (max/min up to 100), plus a second isometry for equivariance and a weight scale factor; integer point sets exactly symmetric under exchanging two coordinates about an integer centre (two centred columns with bit-identical sums of squares); vector pairs of any length 1e-3..1e3 at angles 1e-6..pi-1e-6, exactly parallel, exactly opposite, zero, with optional origin, for the six two-vector frame constructors, iso3_from_xyo, iso3_from_basis, iso2_from_basis; planes from point triples in general position (coordinates up to 100, and triangles of size 1e-3..1e3 placed up to 1e7 sizes from the origin), from point+normal and from surface points. Oracle: defining constraints (mean, orthonormality, ordering, variance, diagonalised scatter, round trip, rank, equivariance, weight-scale invariance; proper rotation with the primary axis exact and the secondary in the right half-plane; points on plane, projection, inversion). Non-trivial: basis not axis-aligned and centre away from the origin (SVD), non-trivial weights, frame inputs farther than 5 degrees from perpendicular. Distinct = distinct canonical JSON."
    }
    fn cases(t: Tier) -> u32 {
        t.pick(1_600_000, 10_000_000)
    }
    fn expected_labels() -> Vec<&'static str> {
        vec!["svd3", "svd2", "weights_none", "weights_equal", "weights_nonuniform", "svd_symmetric_lattice", "rank_deficient", "frame_xy", "frame_xz", "frame_yz", "frame_yx", "frame_zx", "frame_zy", "frame_degenerate", "xyo", "basis2", "plane_triple", "plane_normal", "plane_far", "plane_far_1e4_sizes_away", "equivariance_checked"]
    }
    fn strategy(_t: Tier) -> BoxedStrategy<Case> {
        let stretch3 = prop_oneof![4 => (logu(-1.0, 1.0), logu(-1.0, 1.0), logu(-1.0, 1.0)).prop_map(|(a, b, c)| [a, b, c]), 1 => (logu(-3.0, 3.0), logu(-3.0, 3.0), logu(-3.0, 3.0)).prop_map(|(a, b, c)| [a, b, c]), 2 => (logu(-1.0, 1.0), logu(-1.0, 1.0), prop::sample::select(vec![0u8, 1, 2, 3])).prop_map(|(a, b, z)| match z { 0 => [a, b, 0.0], 1 => [a, 0.0, 0.0], 2 => [0.0, 0.0, 0.0], _ => [0.0, b, a] })];
        let stretch2 = prop_oneof![4 => (logu(-1.0, 1.0), logu(-1.0, 1.0)).prop_map(|(a, b)| [a, b]), 1 => (logu(-3.0, 3.0), logu(-3.0, 3.0)).prop_map(|(a, b)| [a, b]), 1 => logu(-1.0, 1.0).prop_map(|a| [a, 0.0]), 1 => Just([0.0, 0.0])];
        let svd3 = (4usize..120).prop_flat_map(move |n| (prop::collection::vec(p3(1.0), n), stretch3.clone(), iso3(0.0), p3(1000.0), weights(n), logu(-1.0, 1.0), iso3(100.0), unit())).prop_map(|(coords, stretch, pose, offset, weights, scale_w, t, unit)| Case::Svd3 { coords, stretch, pose, offset, weights, scale_w, t, unit });
        let svd2 = (3usize..120).prop_flat_map(move |n| (prop::collection::vec(p2(1.0), n), stretch2.clone(), iso2(0.0), p2(1000.0), weights(n), logu(-1.0, 1.0), iso2(100.0), unit())).prop_map(|(coords, stretch, pose, offset, weights, scale_w, t, unit)| Case::Svd2 { coords, stretch, pose, offset, weights, scale_w, t, unit });
        let frame = (0u8..6, unit3(), logu(-3.0, 3.0), prop_oneof![4 => unif(0.05, 3.09), 1 => logu(-6.0, -1.0), 1 => logu(-6.0, -1.0).prop_map(|x| std::f64::consts::PI - x)], unif(0.0, 6.2832), logu(-3.0, 3.0), prop::option::of(p3(1000.0)), prop_oneof![8 => Just(0u8), 1 => Just(1u8), 1 => Just(2u8), 1 => Just(3u8), 1 => Just(4u8)])
            .prop_map(|(which, a, la, angle, roll, lb, origin, degenerate)| Case::Frame { which, a, la, angle, roll, lb, origin, degenerate });
        let svdsym = (any::<bool>(), prop::collection::vec((-9i8..=9, -9i8..=9, -9i8..=9), 1..6), (-300i16..=300, -300i16..=300, -300i16..=300), 0u8..3, prop::option::of(prop::sample::select(vec![0.5, 1.0, 2.0, 7.0])), iso3(100.0))
            .prop_map(|(dim3, seeds, offset, pair, equal_w, t)| Case::SvdSym { dim3, seeds, offset, pair, equal_w, t });
        prop_oneof![
            1 => svdsym,
            4 => svd3,
            3 => svd2,
            5 => frame,
            1 => (unit3(), prop_oneof![3 => unif(0.05, 3.09), 1 => Just(std::f64::consts::FRAC_PI_2)], prop_oneof![3 => unif(0.0, 6.2832), 1 => (0i32..4).prop_map(|k| k as f64 * std::f64::consts::FRAC_PI_2)], p3(1000.0)).prop_map(|(a, angle, roll, origin)| Case::Xyo { a, angle, roll, origin }),
            1 => (prop_oneof![4 => unif(-3.2, 3.2), 1 => prop::sample::select(vec![std::f64::consts::PI, -std::f64::consts::PI, 0.0, std::f64::consts::FRAC_PI_2, 3.1415, -3.14159])], logu(-3.0, 3.0), p2(1000.0)).prop_map(|(ang, len, origin)| Case::Basis2 { ang, len, origin }),
            2 => (p3(100.0), p3(100.0), p3(100.0), p3(100.0)).prop_map(|(p, q, r, x)| Case::PlaneTriple { p, q, r, x }),
            2 => (unit3(), p3(100.0), p3(100.0), unit3()).prop_map(|(n, p, x, spn)| Case::PlaneNormal { n, p, x, spn }),
            2 => (unit3(), logu(0.0, 7.0), logu(-3.0, 3.0), p3(1.0), p3(1.0), p3(1.0)).prop_map(|(dir, far, size, a, b, c)| Case::PlaneFar { centre: [dir[0] * far * size, dir[1] * far * size, dir[2] * far * size], size, a, b, c }),
        ]
        .boxed()
    }
    fn check(case: &Case) -> Verdict {
        match case {
            Case::Svd3 { coords, stretch, pose, offset, weights, scale_w, t, unit } => {
                let u = unit.0;
                let r = pose.to_iso().rotation;
                let axes = [r * Vector3::x(), r * Vector3::y(), r * Vector3::z()];
                let pts: Vec<Point<f64, 3>> = coords.iter().map(|c| (Point3::new(offset[0], offset[1], offset[2]) + axes[0] * (c[0] * stretch[0]) + axes[1] * (c[1] * stretch[1]) + axes[2] * (c[2] * stretch[2])) * u).collect();
                let known_rank = stretch.iter().filter(|s| **s != 0.0).count();
                let mut iso = t.to_iso();
                iso.translation.vector *= u;
                let moved: Vec<Point<f64, 3>> = pts.iter().map(|p| iso * p).collect();
                let rot = |v: &SVector<f64, 3>| iso.rotation * v;
                let mut cx = Ctx::new();
                cx.label("svd3");
                let generic_pose = pose.is_generic() || pose.angle.abs() > 1e-3;
                cx.label_if(u < 1e-4, "unit_below_1e-4");
                svd::<3>(cx, &pts, known_rank, weights, *scale_w, &moved, &rot, generic_pose, u * stretch.iter().cloned().fold(0.0, f64::max))
            }
            Case::Svd2 { coords, stretch, pose, offset, weights, scale_w, t, unit } => {
                let u = unit.0;
                let r = pose.to_iso().rotation;
                let axes = [r * engeom::Vector2::x(), r * engeom::Vector2::y()];
                let pts: Vec<Point<f64, 2>> = coords.iter().map(|c| (engeom::Point2::new(offset[0], offset[1]) + axes[0] * (c[0] * stretch[0]) + axes[1] * (c[1] * stretch[1])) * u).collect();
                let known_rank = stretch.iter().filter(|s| **s != 0.0).count();
                let mut iso = t.to_iso();
                iso.translation.vector *= u;
                let moved: Vec<Point<f64, 2>> = pts.iter().map(|p| iso * p).collect();
                let rot = |v: &SVector<f64, 2>| iso.rotation * v;
                let mut cx = Ctx::new();
                cx.label("svd2");
                cx.label_if(u < 1e-4, "unit_below_1e-4");
                svd::<2>(cx, &pts, known_rank, weights, *scale_w, &moved, &rot, pose.angle.abs() > 1e-3, u * stretch.iter().cloned().fold(0.0, f64::max))
            }
            Case::SvdSym { dim3, seeds, offset, pair, equal_w, t } => svd_sym(*dim3, seeds, *offset, *pair, equal_w, t),
            Case::Frame { which, a, la, angle, roll, lb, origin, degenerate } => frame(*which, a, *la, *angle, *roll, *lb, origin, *degenerate),
            Case::Xyo { a, angle, roll, origin } => xyo(a, *angle, *roll, origin),
            Case::Basis2 { ang, len, origin } => basis2(*ang, *len, origin),
            Case::PlaneTriple { p, q, r, x } => plane_triple(p, q, r, x),
            Case::PlaneNormal { n, p, x, spn } => plane_normal(n, p, x, spn),
            Case::PlaneFar { centre, size, a, b, c } => plane_far(centre, *size, a, b, c),
        }
    }
}

fn wvec(w: &Weights, n: usize) -> Option<Vec<f64>> {
    match w {
        Weights::None => None,
        Weights::Equal(c) => Some(vec![*c; n]),
        Weights::NonUniform(v) => Some(v[..n].to_vec()),
    }
}

/// distance between two axes up to sign
fn axis_err<const D: usize>(a: &SVector<f64, D>, b: &SVector<f64, D>) -> f64 {
    (a - b).norm().min((a + b).norm())
}

#[allow(clippy::too_many_arguments)]
/// Exactly symmetric integer sets: two coordinate columns have bit-identical sums of squares and are correlated.
fn svd_sym(dim3: bool, seeds: &[(i8, i8, i8)], offset: (i16, i16, i16), pair: u8, equal_w: &Option<f64>, t: &Iso3D) -> Verdict {
    let mut cx = Ctx::new();
    cx.label("svd_symmetric_lattice");
    let weights = match equal_w {
        Some(c) => Weights::Equal(*c),
        None => Weights::None,
    };
    let (i, j) = if dim3 { [(0, 1), (0, 2), (1, 2)][pair as usize % 3] } else { (0, 1) };
    let mut raw: Vec<[f64; 3]> = vec![];
    for s in seeds {
        let v = [s.0 as f64, s.1 as f64, if dim3 { s.2 as f64 } else { 0.0 }];
        let mut w = v;
        w.swap(i, j);
        for q in [v, w] {
            raw.push(q);
            raw.push([-q[0], -q[1], -q[2]]);
        }
    }
    let off = [offset.0 as f64, offset.1 as f64, if dim3 { offset.2 as f64 } else { 0.0 }];
    let ext = raw.iter().fold(0.0f64, |m, q| m.max(q[0].abs()).max(q[1].abs()).max(q[2].abs()));
    if ext == 0.0 {
        return Verdict::Discard("all seeds at the centre");
    }
    if dim3 {
        let pts: Vec<Point<f64, 3>> = raw.iter().map(|q| Point3::new(q[0] + off[0], q[1] + off[1], q[2] + off[2])).collect();
        // dimension of the set (exact: small integers)
        let vs: Vec<Vector3> = raw.iter().map(|q| Vector3::new(q[0], q[1], q[2])).collect();
        let mut rank = 1;
        'o: for a in &vs {
            for b in &vs {
                if a.cross(b).norm() > 0.0 {
                    rank = 2;
                    for c in &vs {
                        if a.cross(b).dot(c) != 0.0 {
                            rank = 3;
                            break 'o;
                        }
                    }
                }
            }
        }
        let iso = t.to_iso();
        let moved: Vec<Point<f64, 3>> = pts.iter().map(|p| iso * p).collect();
        let rot = |v: &SVector<f64, 3>| iso.rotation * v;
        svd::<3>(cx, &pts, rank, &weights, 2.0, &moved, &rot, false, ext)
    } else {
        let pts: Vec<Point<f64, 2>> = raw.iter().map(|q| engeom::Point2::new(q[0] + off[0], q[1] + off[1])).collect();
        let rank = if raw.iter().any(|a| raw.iter().any(|b| a[0] * b[1] - a[1] * b[0] != 0.0)) { 2 } else { 1 };
        let ang = t.angle;
        let iso = Iso2::new(engeom::Vector2::new(t.t[0], t.t[1]), ang);
        let moved: Vec<Point<f64, 2>> = pts.iter().map(|p| iso * p).collect();
        let rot = |v: &SVector<f64, 2>| iso.rotation * v;
        svd::<2>(cx, &pts, rank, &weights, 2.0, &moved, &rot, false, ext)
    }
}

fn svd<const D: usize>(mut cx: Ctx, pts: &[Point<f64, D>], known_rank: usize, weights: &Weights, scale_w: f64, moved: &[Point<f64, D>], rot: &dyn Fn(&SVector<f64, D>) -> SVector<f64, D>, generic_pose: bool, max_stretch: f64) -> Verdict {
    let n = pts.len();
    let w = wvec(weights, n);
    cx.label(match weights {
        Weights::None => "weights_none",
        Weights::Equal(_) => "weights_equal",
        Weights::NonUniform(_) => "weights_nonuniform",
    });
    let b = match guarded(|| SvdBasis::<D>::from_points(pts, w.as_deref())) {
        Ok(b) => b,
        Err(m) => return Verdict::fail("C19/svd/panic", m),
    };
    let mag = pts.iter().fold(0.0f64, |m, p| m.max(p.coords.amax()));
    let spread = max_stretch.max(1e-300);
    let tol = 1e-9 * (mag + spread);
    // centre = (weighted) mean
    let ws: Vec<f64> = w.clone().unwrap_or(vec![1.0; n]);
    let wsum: f64 = ws.iter().sum();
    let mut mean = SVector::<f64, D>::zeros();
    for (p, wi) in pts.iter().zip(ws.iter()) {
        mean += p.coords * *wi;
    }
    mean /= wsum;
    ensure!((b.center.coords - mean).norm() <= tol, "C19/svd/centre", "centre {:?} is not the {}mean {:?}", b.center, if w.is_some() { "weighted " } else { "" }, mean);
    ensure!(b.n == n, "C19/svd/n", "n = {} for {n} points", b.n);
    // orthonormal
    for i in 0..D {
        for j in 0..D {
            let d = b.basis[i].dot(&b.basis[j]);
            let e = if i == j { 1.0 } else { 0.0 };
            ensure!((d - e).abs() <= 1e-10, "C19/svd/orthonormal", "basis[{i}].basis[{j}] = {d:e}");
        }
    }
    for k in 0..D {
        ensure!(b.sv[k] >= 0.0 && b.sv[k].is_finite(), "C19/svd/sv_sign", "singular value {k} = {:e}", b.sv[k]);
        if k + 1 < D {
            ensure!(b.sv[k] >= b.sv[k + 1] * (1.0 - 1e-12), "C19/svd/sv_order", "singular values not non-increasing: {:?}", b.sv);
        }
    }
    // round trip
    for p in pts.iter().take(5) {
        let q = b.point_from_basis(&b.point_to_basis(p));
        ensure!((q - p).norm() <= tol, "C19/svd/round_trip", "point_from_basis(point_to_basis(p)) is {:e} from p", (q - p).norm());
    }
    // axes are only unique when adjacent singular values differ clearly, relative to the largest and to the rounding floor
    let floor = 1e-6 * (mag + spread) * (n as f64).sqrt();
    let gaps_ok = (0..D - 1).all(|k| b.sv[k] > 0.0 && (b.sv[k] - b.sv[k + 1]) / b.sv[0].max(1e-300) > 1e-3 && (b.sv[k] - b.sv[k + 1]) > floor);
    // scatter matrices of deviations from the centre
    let scatter = |pow: i32| -> SMatrix<f64, D, D> {
        let mut s = SMatrix::<f64, D, D>::zeros();
        for (p, wi) in pts.iter().zip(ws.iter()) {
            let d = p.coords - mean;
            s += d * d.transpose() * wi.powi(pow);
        }
        s
    };
    match weights {
        Weights::None | Weights::Equal(_) => {
            // variance along each axis and diagonalised scatter (for equal weights c the singular values scale by c)
            let c = match weights {
                Weights::Equal(c) => *c,
                _ => 1.0,
            };
            let s = scatter(0);
            let tr = s.trace().max(1e-300);
            for k in 0..D {
                let var: f64 = pts.iter().map(|p| (p.coords - mean).dot(&b.basis[k]).powi(2)).sum::<f64>() / n as f64;
                // for equal weights c either convention is accepted: singular values scaled by c, or normalised weights
                let got_scaled = (b.sv[k] / c).powi(2) / n as f64;
                let got_plain = b.sv[k].powi(2) / n as f64;
                let got = if (got_plain - var).abs() < (got_scaled - var).abs() { got_plain } else { got_scaled };
                graded!((got - var).abs(), 1e-9 * (tr / n as f64) + 1e-18 * mag * mag, 2e-3 * (tr / n as f64) + 1e-18 * mag * mag, if w.is_some() { "C19/svd/weighted/variance_scale" } else { "C19/svd/variance" }, "sv[{k}]^2/n = {got:e} but the variance of the points along basis[{k}] is {var:e} (equal weights {c})");
                for j in 0..D {
                    if j != k {
                        let off = b.basis[k].dot(&(s * b.basis[j]));
                        graded!(off.abs(), 1e-8 * tr + 1e-16 * mag * mag * n as f64, 2e-3 * tr + 1e-16 * mag * mag * n as f64, if w.is_some() { "C19/svd/weighted/not_principal_axes" } else { "C19/svd/not_principal_axes" }, "basis does not diagonalise the scatter matrix: off-diagonal ({k},{j}) = {off:e}, trace {tr:e}");
                    }
                }
            }
            if w.is_none() {
                let v = b.basis_variances();
                for k in 0..D {
                    ensure!((v[k] - b.sv[k].powi(2) / n as f64).abs() <= 1e-12 * v[k].abs() + 1e-300, "C19/svd/basis_variances", "basis_variances()[{k}]");
                }
            }
        }
        Weights::NonUniform(_) => {
            // either weighting convention (w or w^2 on the outer products) is accepted
            let mut ok_any = false;
            let mut worst = f64::INFINITY;
            for pow in [1, 2] {
                let s = scatter(pow);
                let tr = s.trace().max(1e-300);
                let mut ok = true;
                let mut wp = 0.0f64;
                for k in 0..D {
                    for j in 0..D {
                        if j != k {
                            let off = b.basis[k].dot(&(s * b.basis[j])).abs();
                            if off > 1e-8 * tr + 1e-16 * mag * mag * n as f64 {
                                ok = false;
                                wp = wp.max(off / tr);
                            }
                        }
                    }
                }
                ok_any |= ok;
                worst = worst.min(wp);
            }
            graded!(if ok_any { 0.0 } else { worst }, 0.0, 2e-3, "C19/svd/weighted/not_principal_axes", "the weighted basis diagonalises neither sum w d d^T nor sum w^2 d d^T about the weighted mean (relative off-diagonal {worst:e})");
        }
    }
    // rank
    let rt = 1e-6 * (spread + 1e-9 * mag) * (n as f64).sqrt() + 1e-9 * mag * (n as f64).sqrt();
    if known_rank < D && w.is_none() {
        cx.label("rank_deficient");
        ensure!(b.rank(rt) <= known_rank, "C19/svd/rank", "rank({rt:e}) = {} for a point set of dimension {known_rank}; sv {:?}", b.rank(rt), b.sv);
    }
    if known_rank == D && w.is_none() && b.sv[D - 1] > 100.0 * rt {
        ensure!(b.rank(rt) == D, "C19/svd/rank", "rank({rt:e}) = {} for a full-dimensional point set; sv {:?}", b.rank(rt), b.sv);
    }
    // weights all equal to one reproduce the unweighted result
    if w.is_none() {
        let ones = vec![1.0; n];
        let b1 = SvdBasis::<D>::from_points(pts, Some(&ones));
        ensure!((b1.center - b.center).norm() <= tol, "C19/svd/unit_weights/centre", "weights of 1 moved the centre");
        for k in 0..D {
            graded!((b1.sv[k] - b.sv[k]).abs(), 1e-9 * b.sv[0].max(1e-300) + 1e-12 * mag, 1e-3 * b.sv[0].max(1e-300) + 1e-12 * mag, "C19/svd/unit_weights/sv", "weights of 1 changed singular value {k}: {:e} vs {:e}", b1.sv[k], b.sv[k]);
        }
        if gaps_ok {
            for k in 0..D {
                graded!(axis_err(&b1.basis[k], &b.basis[k]), 1e-6, 5e-2, "C19/svd/unit_weights/basis", "weights of 1 changed axis {k}");
            }
        }
    }
    // uniformly scaling all weights changes nothing but the overall scale of sv
    if let Some(wv) = &w {
        let scaled: Vec<f64> = wv.iter().map(|x| x * scale_w).collect();
        let b2 = SvdBasis::<D>::from_points(pts, Some(&scaled));
        ensure!((b2.center - b.center).norm() <= tol, "C19/svd/weight_scale/centre", "scaling all weights by {scale_w:e} moved the centre by {:e}", (b2.center - b.center).norm());
        if b.sv[0] > 0.0 && b2.sv[0] > 0.0 {
            for k in 1..D {
                graded!((b2.sv[k] / b2.sv[0] - b.sv[k] / b.sv[0]).abs(), 1e-8 + 1e-10 * mag / b.sv[0], 2e-3 + 1e-10 * mag / b.sv[0], "C19/svd/weight_scale/sv_ratio", "scaling all weights by {scale_w:e} changed sv[{k}]/sv[0]: {:e} -> {:e}", b.sv[k] / b.sv[0], b2.sv[k] / b2.sv[0]);
            }
        }
        if gaps_ok {
            for k in 0..D {
                graded!(axis_err(&b2.basis[k], &b.basis[k]), 1e-6, 5e-2, "C19/svd/weight_scale/basis", "scaling all weights by {scale_w:e} changed axis {k}: {:?} -> {:?}", b.basis[k], b2.basis[k]);
            }
        }
    }
    // equivariance under a rigid motion
    let bm = SvdBasis::<D>::from_points(moved, w.as_deref());
    let mmag = moved.iter().fold(0.0f64, |m, p| m.max(p.coords.amax()));
    for k in 0..D {
        graded!((bm.sv[k] - b.sv[k]).abs(), 1e-8 * b.sv[0].max(1e-300) + 1e-11 * (mag + mmag) * (n as f64).sqrt(), 2e-3 * b.sv[0].max(1e-300) + 1e-11 * (mag + mmag) * (n as f64).sqrt(), "C19/svd/equivariance/sv", "singular value {k} changed under a rigid motion: {:e} -> {:e}", b.sv[k], bm.sv[k]);
    }
    if gaps_ok && b.sv[D - 1] > 1e-6 * (mag + mmag) {
        for k in 0..D {
            graded!(axis_err(&bm.basis[k], &rot(&b.basis[k])), 1e-6, 5e-2, "C19/svd/equivariance/basis", "axis {k} of the moved set is not the rotated axis");
        }
        cx.label("equivariance_checked");
    }
    let wr = match weights {
        Weights::NonUniform(v) => v[..n].iter().cloned().fold(0.0, f64::max) / v[..n].iter().cloned().fold(f64::INFINITY, f64::min) >= 2.0,
        Weights::Equal(c) => *c != 1.0,
        Weights::None => true,
    };
    if generic_pose && mean.norm() > 1e-6 * (mag + spread) && wr {
        cx.nontrivial();
    }
    cx.pass()
}

fn perp(a: &Vector3) -> Vector3 {
    let t = if a.x.abs() < 0.9 { Vector3::x() } else { Vector3::y() };
    a.cross(&t).normalize()
}

#[allow(clippy::too_many_arguments)]
fn frame(which: u8, a: &P3, la: f64, angle: f64, roll: f64, lb: f64, origin: &Option<P3>, degenerate: u8) -> Verdict {
    let mut cx = Ctx::new();
    let names = ["frame_xy", "frame_xz", "frame_yz", "frame_yx", "frame_zx", "frame_zy"];
    let w = (which % 6) as usize;
    cx.label(names[w]);
    let ua = v3(a).normalize();
    let p0 = perp(&ua);
    let p1 = ua.cross(&p0);
    // second vector at `angle` from the first, rolled about it
    let side = p0 * roll.cos() + p1 * roll.sin();
    let mut first = ua * la;
    let mut second = (ua * angle.cos() + side * angle.sin()) * lb;
    match degenerate {
        1 => second = first * (lb / la),
        // exactly opposite: the angle between the two is pi, the cross product zero or rounding noise
        4 => second = first * (-(lb / la)),
        2 => second = Vector3::zeros(),
        3 => first = Vector3::zeros(),
        _ => {}
    }
    let o = origin.map(|p| pt3(&p));
    let res = match guarded(|| match w {
        0 => Iso3::try_from_basis_xy(&first, &second, o),
        1 => Iso3::try_from_basis_xz(&first, &second, o),
        2 => Iso3::try_from_basis_yz(&first, &second, o),
        3 => Iso3::try_from_basis_yx(&first, &second, o),
        4 => Iso3::try_from_basis_zx(&first, &second, o),
        _ => Iso3::try_from_basis_zy(&first, &second, o),
    }) {
        Ok(r) => r,
        Err(m) => return Verdict::fail(format!("C19/{}/panic", names[w]), m),
    };
    if degenerate != 0 {
        cx.label("frame_degenerate");
        match res {
            Err(_) => {}
            Ok(iso) => {
                let m = iso.rotation.to_rotation_matrix();
                let finite = m.matrix().iter().all(|x| x.is_finite());
                return Verdict::fail(format!("C19/{}/degenerate_accepted", names[w]), format!("parallel or zero inputs {:?}, {:?} produced a frame (finite: {finite})", first, second));
            }
        }
        cx.nontrivial();
        return cx.pass();
    }
    let crossn = first.cross(&second).norm();
    let iso = match res {
        Ok(i) => i,
        Err(e) => {
            ensure!(crossn < 1e-8 || first.norm() < 1e-8, format!("C19/{}/rejected_valid", names[w]), "non-parallel inputs (|a x b| = {crossn:e}) rejected: {e}");
            return Verdict::Discard("inputs below the constructor's absolute thresholds");
        }
    };
    let m = *iso.rotation.to_rotation_matrix().matrix();
    // (primary column, secondary column) per constructor
    let (pc, sc) = [(0, 1), (0, 2), (1, 2), (1, 0), (2, 0), (2, 1)][w];
    let mtm = m.transpose() * m;
    ensure!((mtm - SMatrix::<f64, 3, 3>::identity()).amax() <= 1e-9, format!("C19/{}/orthonormal", names[w]), "rotation matrix not orthonormal");
    ensure!((m.determinant() - 1.0).abs() <= 1e-9, format!("C19/{}/handedness", names[w]), "determinant {:e}: not a proper (right-handed) rotation", m.determinant());
    let prim: Vector3 = m.column(pc).into();
    let sec: Vector3 = m.column(sc).into();
    let sin_in = crossn / (first.norm() * second.norm());
    let atol = 1e-7 + 1e-13 / sin_in;
    ensure!((prim - first.normalize()).norm() <= atol, format!("C19/{}/primary_axis", names[w]), "primary axis column {:?} is not the normalised first argument {:?}", prim, first.normalize());
    ensure!(sec.dot(&second) > 0.0, format!("C19/{}/secondary_half_plane", names[w]), "secondary axis has non-positive dot product with the second argument");
    let out_of_plane = sec.dot(&first.cross(&second).normalize());
    ensure!(out_of_plane.abs() <= atol, format!("C19/{}/secondary_in_span", names[w]), "secondary axis leaves the span of the two arguments by {out_of_plane:e}");
    let oo = iso * Point3::origin();
    let want = o.unwrap_or(Point3::origin());
    ensure!((oo - want).norm() <= 1e-9 * (1.0 + want.coords.norm()), format!("C19/{}/origin", names[w]), "origin maps to {:?}, expected {:?}", oo, want);
    if (angle - std::f64::consts::FRAC_PI_2).abs() > 5f64.to_radians() {
        cx.nontrivial();
    }
    cx.pass()
}

fn xyo(a: &P3, angle: f64, roll: f64, origin: &P3) -> Verdict {
    let mut cx = Ctx::new();
    cx.label("xyo");
    let ua = v3(a).normalize();
    let p0 = perp(&ua);
    let p1 = ua.cross(&p0);
    let side = p0 * roll.cos() + p1 * roll.sin();
    let y = ua * angle.cos() + side * angle.sin();
    let o = pt3(origin);
    let x0 = UnitVec3::new_normalize(ua);
    let y0 = UnitVec3::new_normalize(y);
    let iso = match guarded(|| iso3_from_xyo(&x0, &y0, &o)) {
        Ok(i) => i,
        Err(m) => return Verdict::fail("C19/iso3_from_xyo/panic", m),
    };
    // the returned isometry maps world -> frame: origin -> 0, x0 -> +x, y into the +y half of the xy plane
    let tol = 1e-7;
    ensure!((iso * o).coords.norm() <= 1e-9 * (1.0 + o.coords.norm()), "C19/iso3_from_xyo/origin", "origin maps to {:?}", iso * o);
    ensure!((iso * ua - Vector3::x()).norm() <= tol, "C19/iso3_from_xyo/x_axis", "x0 maps to {:?}", iso * ua);
    let ym = iso * y;
    ensure!(ym.y > 0.0 && ym.z.abs() <= tol, "C19/iso3_from_xyo/y_half_plane", "y maps to {:?}", ym);
    let m = *iso.rotation.to_rotation_matrix().matrix();
    ensure!((m.determinant() - 1.0).abs() <= 1e-9, "C19/iso3_from_xyo/handedness", "determinant {:e}", m.determinant());
    // iso3_from_basis with an orthonormal right-handed basis
    let b1 = (y - ua * ua.dot(&y)).normalize();
    let b2 = ua.cross(&b1);
    let ib = iso3_from_basis(&[ua, b1, b2], &o);
    ensure!((ib * o).coords.norm() <= 1e-9 * (1.0 + o.coords.norm()) && (ib * ua - Vector3::x()).norm() <= tol && (ib * b1 - Vector3::y()).norm() <= tol && (ib * b2 - Vector3::z()).norm() <= tol, "C19/iso3_from_basis/axes", "basis vectors do not map onto the coordinate axes");
    // the same constructor given the two vectors as they are (any lengths, not perpendicular) and a third of either
    // handedness: first axis kept exactly, second vector in the upper xy half-plane, a proper rotation
    for sign in [1.0, -1.0] {
        let third = ua.cross(&y) * sign;
        let ik = match guarded(|| iso3_from_basis(&[ua * 2.5, y * 0.4, third], &o)) {
            Ok(i) => i,
            Err(m) => return Verdict::fail("C19/iso3_from_basis/panic", m),
        };
        let ym = ik * y.normalize();
        let rm = *ik.rotation.to_rotation_matrix().matrix();
        ensure!((ik * o).coords.norm() <= 1e-9 * (1.0 + o.coords.norm()), "C19/iso3_from_basis/skew/origin", "origin maps to {:?}", ik * o);
        ensure!((ik * ua - Vector3::x()).norm() <= tol, "C19/iso3_from_basis/skew/x_axis", "the normalised first vector maps to {:?} (second vector at {:e} rad from it)", ik * ua, ua.angle(&y));
        ensure!(ym.y > 0.0 && ym.z.abs() <= tol, "C19/iso3_from_basis/skew/y_half_plane", "the second vector maps to {:?}, expected z = 0 and y > 0 (angle between the two {:e} rad)", ym, ua.angle(&y));
        ensure!((rm.determinant() - 1.0).abs() <= 1e-9 && (rm.transpose() * rm - rm.clone_owned().map(|_| 0.0) - { let mut i = rm.clone_owned().map(|_| 0.0); i[(0, 0)] = 1.0; i[(1, 1)] = 1.0; i[(2, 2)] = 1.0; i }).norm() <= 1e-9, "C19/iso3_from_basis/skew/proper_rotation", "not a proper rotation");
    }
    cx.nontrivial();
    cx.pass()
}

fn basis2(ang: f64, len: f64, origin: &P2) -> Verdict {
    let mut cx = Ctx::new();
    cx.label("basis2");
    let b0 = engeom::Vector2::new(ang.cos(), ang.sin()) * len;
    let b1 = engeom::Vector2::new(-ang.sin(), ang.cos());
    let o = pt2(origin);
    let iso: Iso2 = iso2_from_basis(&[b0, b1], &o);
    ensure!((iso * o).coords.norm() <= 1e-9 * (1.0 + o.coords.norm()), "C19/iso2_from_basis/origin", "origin maps to {:?}", iso * o);
    ensure!((iso * b0.normalize() - engeom::Vector2::x()).norm() <= 1e-9, "C19/iso2_from_basis/x_axis", "basis[0] maps to {:?}", iso * b0.normalize());
    ensure!((iso * b1 - engeom::Vector2::y()).norm() <= 1e-9, "C19/iso2_from_basis/y_axis", "the left normal of basis[0] maps to {:?}", iso * b1);
    cx.nontrivial();
    cx.pass()
}

fn plane_checks(cx: &mut Ctx, pl: &Plane3, defining: &[Point3], x: &Point3, site: &str) -> Result<(), Failure> {
    let scale = defining.iter().fold(x.coords.norm(), |m, p| m.max(p.coords.norm())) + 1.0;
    let tol = 1e-9 * scale;
    crate::ensure_r!((pl.normal.norm() - 1.0).abs() <= 1e-12, format!("C19/{site}/normal_unit"), "normal not unit");
    for (i, p) in defining.iter().enumerate() {
        let d = pl.signed_distance_to_point(p);
        crate::ensure_r!(d.abs() <= tol, format!("C19/{site}/contains_defining_point"), "defining point {i} is {d:e} from the plane");
    }
    let pr = pl.project_point(x);
    crate::ensure_r!(pl.signed_distance_to_point(&pr).abs() <= tol, format!("C19/{site}/projection_on_plane"), "projection is {:e} off the plane", pl.signed_distance_to_point(&pr));
    crate::ensure_r!((pl.project_point(&pr) - pr).norm() <= tol, format!("C19/{site}/projection_idempotent"), "projection not idempotent");
    let dv = x - pr;
    crate::ensure_r!(dv.cross(&pl.normal.into_inner()).norm() <= tol, format!("C19/{site}/projection_along_normal"), "p - proj is not parallel to the normal");
    crate::ensure_r!((dv.dot(&pl.normal.into_inner()) - pl.signed_distance_to_point(x)).abs() <= tol, format!("C19/{site}/signed_distance"), "signed distance is not the normal component of p - proj");
    let inv = pl.inverted_normal();
    crate::ensure_r!(inv.signed_distance_to_point(x) == -pl.signed_distance_to_point(x), format!("C19/{site}/inversion_flips_sign"), "inverted normal: {:e} vs {:e}", inv.signed_distance_to_point(x), pl.signed_distance_to_point(x));
    crate::ensure_r!(inv.distance_to_point(x) == pl.distance_to_point(x) && pl.distance_to_point(x) == pl.signed_distance_to_point(x).abs(), format!("C19/{site}/inversion_keeps_distance"), "unsigned distance changed by inversion");
    let _ = cx;
    Ok(())
}

fn plane_triple(p: &P3, q: &P3, r: &P3, x: &P3) -> Verdict {
    let mut cx = Ctx::new();
    cx.label("plane_triple");
    let (p, q, r, x) = (pt3(p), pt3(q), pt3(r), pt3(x));
    let c = (q - p).cross(&(r - p));
    let scale = p.coords.norm().max(q.coords.norm()).max(r.coords.norm()) + 1.0;
    if c.norm() < 1e-3 * scale * scale.min((q - p).norm().max((r - p).norm())) || c.norm() < 1e-6 {
        return Verdict::Discard("triple not in general position");
    }
    let pl = Plane3::from((&p, &q, &r));
    // conditioning: a thin triangle amplifies rounding of the normal
    let cond = ((q - p).norm() * (r - p).norm() / c.norm()).max(1.0);
    let sc = Point3::from(p.coords * 0.0);
    let _ = sc;
    for (i, pt) in [p, q, r].iter().enumerate() {
        let d = pl.signed_distance_to_point(pt);
        ensure!(d.abs() <= 1e-9 * scale * cond, "C19/plane_triple/contains_defining_point", "defining point {i} is {d:e} from the plane");
    }
    ensure!(pl.normal.dot(&c) > 0.0, "C19/plane_triple/right_hand_rule", "normal {:?} opposes (q-p)x(r-p)", pl.normal);
    if cond < 100.0 {
        if let Err(f) = plane_checks(&mut cx, &pl, &[], &x, "plane_triple") {
            return Verdict::Fail(f);
        }
    }
    cx.nontrivial();
    cx.pass()
}

/// Three-point planes far from the origin: the defining points must stay on the plane to within the rounding of their
/// own coordinates (times the conditioning of the triangle), however small the triangle is compared with its distance
/// from the origin.
fn plane_far(centre: &P3, size: f64, a: &P3, b: &P3, c: &P3) -> Verdict {
    let mut cx = Ctx::new();
    cx.label("plane_far");
    let o = pt3(centre);
    let (p, q, r) = (o + v3(a) * size, o + v3(b) * size, o + v3(c) * size);
    let (e1, e2) = (q - p, r - p);
    let cr = e1.cross(&e2);
    if e1.norm() < 1e-3 * size || e2.norm() < 1e-3 * size || cr.norm() < 1e-2 * e1.norm() * e2.norm() {
        return Verdict::Discard("triple not in general position");
    }
    let cond = e1.norm() * e2.norm() / cr.norm();
    let big = p.coords.norm().max(q.coords.norm()).max(r.coords.norm());
    let pl = Plane3::from((&p, &q, &r));
    ensure!(pl.normal.dot(&cr) > 0.0, "C19/plane_far/right_hand_rule", "normal {:?} opposes (q-p)x(r-p)", pl.normal);
    // rounding of the coordinates (eps*big) enters the edge vectors, is amplified by the conditioning into the normal and
    // multiplied by the edge length again: eps*big*cond, with a factor for the handful of operations involved
    let tol = 64.0 * f64::EPSILON * big * cond + 1e-300;
    let mut worst = 0.0f64;
    for (i, pt) in [p, q, r].iter().enumerate() {
        let d = pl.signed_distance_to_point(pt);
        worst = worst.max(d.abs() / tol);
        ensure!(d.abs() <= tol, "C19/plane_far/contains_defining_point", "defining point {i} of a triangle of size {size:e} at {big:e} from the origin is {d:e} from the plane (allowed {tol:e})");
        let pr = pl.project_point(pt);
        ensure!((pr - pt).norm() <= tol, "C19/plane_far/projection_moves_defining_point", "projecting defining point {i} moves it by {:e} (allowed {tol:e})", (pr - pt).norm());
    }
    if std::env::var("VERIF_DEBUG").is_ok() {
        eprintln!("C19 plane_far worst/tol = {worst:e}");
    }
    cx.label_if(big > 1e4 * size, "plane_far_1e4_sizes_away");
    if big > 100.0 * size {
        cx.nontrivial();
    }
    cx.pass()
}

fn plane_normal(n: &P3, p: &P3, x: &P3, spn: &P3) -> Verdict {
    let mut cx = Ctx::new();
    cx.label("plane_normal");
    let nn = UnitVec3::new_normalize(v3(n));
    let (p, x) = (pt3(p), pt3(x));
    let pl = Plane3::from((&nn, &p));
    if let Err(f) = plane_checks(&mut cx, &pl, &[p], &x, "plane_normal") {
        return Verdict::Fail(f);
    }
    ensure!((pl.normal.into_inner() - nn.into_inner()).norm() == 0.0, "C19/plane_normal/normal", "normal changed");
    let sp = SurfacePoint3::new(p, nn);
    let pl2 = Plane3::from(&sp);
    ensure!((pl2.d - pl.d).abs() == 0.0 && pl2.normal == pl.normal, "C19/plane_surface_point/agrees", "plane from surface point differs from plane from (normal, point)");
    // line/plane intersection along a surface point's normal
    let ray = SurfacePoint3::new(x, UnitVec3::new_normalize(v3(spn)));
    match pl.intersection_distance(&ray) {
        Some(t) => {
            let hit = ray.at_distance(t);
            let denom = pl.normal.dot(&ray.normal).abs();
            ensure!(pl.signed_distance_to_point(&hit).abs() <= 1e-9 * (1.0 + x.coords.norm() + p.coords.norm() + t.abs()) / denom.max(1e-6), "C19/plane/intersection_distance", "sp.at_distance({t:e}) is {:e} off the plane", pl.signed_distance_to_point(&hit));
        }
        None => {
            ensure!(pl.normal.dot(&ray.normal) <= 1e-6 * (1.0 + 1e-9), "C19/plane/intersection_distance_none", "no intersection reported although normal.direction = {:e}", pl.normal.dot(&ray.normal));
        }
    }
    cx.nontrivial();
    cx.pass()
}
