//! C11 — Circle, arc and tangent constructions satisfy their defining constraints

use crate::ensure;
use crate::fw::*;
use crate::gen::*;
use engeom::common::Intersection;
use engeom::geom2::verif_hooks::intersection_line_circle;
use engeom::geom2::{HasBounds2, Line2, Ray2, Segment2};
use engeom::{Arc2, Circle2, Curve2, Point2, Vector2};
use proptest::prelude::*;
use serde::{Deserialize, Serialize};
use std::f64::consts::PI;

pub struct C11;

fn one() -> f64 {
    1.0
}

#[derive(Clone, Copy, Debug, Serialize, Deserialize, PartialEq)]
pub enum PairKind {
    Far,
    JustOutside,
    TouchExact,
    Crossing,
    InnerTouchExact,
    Nested,
    Concentric,
    EqualRadiiCrossing,
    EqualRadiiFar,
}

#[derive(Clone, Debug, Serialize, Deserialize)]
pub enum Case {
    /// r0, r1 in lattice units k; kind decides d; pose: quarter turns + lattice translation (exact) or a general isometry
    Pair { kind: PairKind, k: f64, a: u8, b: u8, f: f64, quarter: u8, shift: (i32, i32), pose: Option<Iso2D> },
    TangentPoint { c: P2, r: f64, ratio_exp: f64, ang: f64 },
    Line { c: P2, r: f64, dist_rel: f64, dir_ang: f64, dir_len: f64, along: f64, seg: (f64, f64), exact_tangent: bool, #[serde(default)] tangent_at: Option<f64> },
    CurveCircle { spec: Curve2Spec, c: P2, r: f64 },
    Project { c: P2, r: f64, p: P2 },
    Arc3 { p0: P2, p1: P2, p2: P2, collinear: bool, #[serde(default = "one")] scale: f64 },
    ArcBox { c: P2, r: f64, a0: f64, sweep: f64 },
    /// a segment with one end exactly on the circle (lattice construction: centre (cx,cy)k, radius 5k, end at centre +
    /// a (3,4,5)-type offset times k), the other end at a lattice offset from it; on_b: the end on the circle is b
    SegEnd { cx: i32, cy: i32, exp2: i32, which: u8, other: (i32, i32), on_b: bool },
    /// the inner case with every length multiplied by 2^exp2 (exact, so lattice constructions stay exact)
    Scaled { exp2: i32, inner: Box<Case> },
}

/// every length of a case multiplied by u (a power of two)
fn scale_case(c: &Case, u: f64) -> Option<Case> {
    let sp = |p: &P2| [p[0] * u, p[1] * u];
    Some(match c {
        Case::Pair { kind, k, a, b, f, quarter, shift, pose } => Case::Pair { kind: *kind, k: k * u, a: *a, b: *b, f: *f, quarter: *quarter, shift: *shift, pose: pose.as_ref().map(|p| Iso2D { angle: p.angle, t: sp(&p.t) }) },
        Case::TangentPoint { c, r, ratio_exp, ang } => Case::TangentPoint { c: sp(c), r: r * u, ratio_exp: *ratio_exp, ang: *ang },
        Case::Project { c, r, p } => Case::Project { c: sp(c), r: r * u, p: sp(p) },
        Case::ArcBox { c, r, a0, sweep } => Case::ArcBox { c: sp(c), r: r * u, a0: *a0, sweep: *sweep },
        _ => return None,
    })
}

fn pair_kind() -> BoxedStrategy<PairKind> {
    prop::sample::select(vec![PairKind::Far, PairKind::JustOutside, PairKind::TouchExact, PairKind::Crossing, PairKind::Crossing, PairKind::InnerTouchExact, PairKind::Nested, PairKind::Concentric, PairKind::EqualRadiiCrossing, PairKind::EqualRadiiFar]).boxed()
}

fn sweep() -> BoxedStrategy<f64> {
    prop_oneof![
        5 => unif(-2.0 * PI, 2.0 * PI),
        2 => (-4i32..=4).prop_map(|k| k as f64 * PI / 2.0),
        1 => prop::sample::select(vec![1e-9, -1e-9, 2.0 * PI, -2.0 * PI, 1e-3, -1e-3]),
    ]
    .boxed()
}

impl Property for C11 {
    type Case = Case;
    const ID: &'static str = "C11";
    fn rule() -> &'static str {
        "families: circle pairs parameterised by relative position (far, just outside, exactly externally tangent via 3-4-5 lattice constructions, crossing, exactly internally tangent, nested, concentric, equal radii) posed by exact quarter turns + lattice shifts or a general isometry (centres up to 1e3); external points at d/r = 1 + 10^[-6,3]; lines at any distance incl. exactly tangent (axis-parallel on a lattice, and in a general direction to within a few ulps), unit and non-unit directions, segments (incl. lattice segments with one end exactly on the circle); curve x circle; point triples in general position and exactly collinear; arcs with any centre, start angle in +-4pi and sweep in [-2pi, 2pi] incl. +-2pi, multiples of pi/2 and +-1e-9. A quarter of the pair / external point / projection / arc-box cases are rescaled as a whole by a power of two between 2^-20 and 2^20 (1e-6 .. 1e6; the library's documented absolute zero of 1e-10 sets the lower end). Oracle: the defining constraints (on both objects, count by configuration, perpendicular radius, documented left/right order, bounding box contains and touches). Non-trivial: neither circle centred at the origin and r/d farther than 0.05 from 1/sqrt 2. Distinct = distinct canonical JSON."
    }
    fn cases(t: Tier) -> u32 {
        t.pick(6_000_000, 50_000_000)
    }
    fn expected_labels() -> Vec<&'static str> {
        vec!["pair_far", "pair_just_outside", "pair_touch_exact", "pair_crossing", "pair_inner_touch_exact", "pair_nested", "pair_concentric", "tangent_point", "line_0", "line_1", "line_2", "line_tangent_generic", "segment", "curve_circle", "project", "arc3", "arc3_collinear", "arc_box", "outer_tangents", "unit_below_1", "unit_above_1", "segment_end_on_circle"]
    }
    fn check(case: &Case) -> Verdict {
        check_case(case)
    }
    fn strategy(t: Tier) -> BoxedStrategy<Case> {
        // a quarter of the cases of the scale-free families in another unit of length: 2^-30 (1e-9) .. 2^20 (1e6)
        (Self::unscaled(t), prop::option::weighted(0.25, -20i32..=20)).prop_map(|(c, e)| match e {
            Some(e) if e != 0 && scale_case(&c, 1.0).is_some() => Case::Scaled { exp2: e, inner: Box::new(c) },
            _ => c,
        })
        .boxed()
    }
}

impl C11 {
    fn unscaled(_t: Tier) -> BoxedStrategy<Case> {
        prop_oneof![
            5 => (pair_kind(), prop::sample::select(vec![0.125, 0.25, 0.5, 1.0, 2.0, 8.0]), 1u8..6, 1u8..6, unif(0.02, 0.98), 0u8..4, (-100i32..=100, -100i32..=100), prop::option::of(iso2(1e3)))
                .prop_map(|(kind, k, a, b, f, quarter, shift, pose)| Case::Pair { kind, k, a, b, f, quarter, shift, pose }),
            2 => (p2(100.0), logu(-1.0, 2.0), unif(-6.0, 3.0), unif(-PI, PI)).prop_map(|(c, r, ratio_exp, ang)| Case::TangentPoint { c, r, ratio_exp, ang }),
            3 => (p2(100.0), logu(-1.0, 2.0), prop_oneof![unif(0.0, 2.0), Just(1.0), Just(0.0)], unif(-PI, PI), logu(-2.0, 2.0), unif(-3.0, 3.0), (unif(-3.0, 3.0), unif(0.1, 4.0)), prop::bool::weighted(0.2), prop::option::weighted(0.25, unif(-PI, PI)))
                .prop_map(|(c, r, dist_rel, dir_ang, dir_len, along, seg, exact_tangent, tangent_at)| Case::Line { c, r, dist_rel, dir_ang, dir_len, along, seg, exact_tangent, tangent_at }),
            1 => (curve2_spec(3, 30, 0.0, 1.0, false), p2(1.0), unif(0.1, 1.5)).prop_map(|(spec, c, r)| Case::CurveCircle { spec, c, r }),
            1 => (p2(100.0), logu(-1.0, 2.0), p2(150.0)).prop_map(|(c, r, p)| Case::Project { c, r, p }),
            2 => (p2(50.0), p2(50.0), p2(50.0), prop::bool::weighted(0.15), prop_oneof![2 => Just(1.0), 3 => logu(-5.0, 2.0)]).prop_map(|(p0, p1, p2, collinear, scale)| Case::Arc3 { p0, p1, p2, collinear, scale }),
            3 => (p2(100.0), logu(-1.0, 2.0), unif(-4.0 * PI, 4.0 * PI), sweep()).prop_map(|(c, r, a0, sweep)| Case::ArcBox { c, r, a0, sweep }),
            1 => (-50i32..=50, -50i32..=50, -10i32..=10, 0u8..12, (-12i32..=12, -12i32..=12), any::<bool>()).prop_map(|(cx, cy, exp2, which, other, on_b)| Case::SegEnd { cx, cy, exp2, which, other, on_b }),
        ]
        .boxed()
    }
}

fn check_case(case: &Case) -> Verdict {
    match case {
        Case::Pair { kind, k, a, b, f, quarter, shift, pose } => pair(*kind, *k, *a, *b, *f, *quarter, *shift, pose),
        Case::TangentPoint { c, r, ratio_exp, ang } => tangent_point(c, *r, *ratio_exp, *ang),
        Case::Line { c, r, dist_rel, dir_ang, dir_len, along, seg, exact_tangent, tangent_at } => line(c, *r, *dist_rel, *dir_ang, *dir_len, *along, *seg, *exact_tangent, *tangent_at),
        Case::CurveCircle { spec, c, r } => curve_circle(spec, c, *r),
        Case::Project { c, r, p } => project(c, *r, p),
        Case::Arc3 { p0, p1, p2, collinear, scale } => arc3(p0, p1, p2, *collinear, *scale),
        Case::ArcBox { c, r, a0, sweep } => arc_box(c, *r, *a0, *sweep),
        Case::SegEnd { cx, cy, exp2, which, other, on_b } => seg_end(*cx, *cy, *exp2, *which, *other, *on_b),
        Case::Scaled { exp2, inner } => match scale_case(inner, 2f64.powi(*exp2)) {
            Some(c) => match check_case(&c) {
                Verdict::Pass(mut p) => {
                    p.labels.push(if *exp2 < 0 { "unit_below_1" } else { "unit_above_1" });
                    Verdict::Pass(p)
                }
                v => v,
            },
            None => Verdict::Discard("family is not scaled"),
        },
    }
}

/// A segment is closed: a crossing or touch exactly at either of its ends is an intersection (the library documents a
/// band of 1e-10 around the parameter range for this).
fn seg_end(cxi: i32, cyi: i32, exp2: i32, which: u8, other: (i32, i32), on_b: bool) -> Verdict {
    let mut cx = Ctx::new();
    cx.label("segment_end_on_circle");
    let k = 2f64.powi(exp2);
    let offs: [(i32, i32); 12] = [(5, 0), (0, 5), (-5, 0), (0, -5), (3, 4), (4, 3), (-3, 4), (-4, 3), (3, -4), (4, -3), (-3, -4), (-4, -3)];
    let (ox, oy) = offs[which as usize % 12];
    if other == (0, 0) {
        return Verdict::Discard("zero-length segment");
    }
    let c0 = Point2::new(cxi as f64 * k, cyi as f64 * k);
    let r = 5.0 * k;
    let on = Point2::new((cxi + ox) as f64 * k, (cyi + oy) as f64 * k);
    let far = Point2::new((cxi + ox + other.0) as f64 * k, (cyi + oy + other.1) as f64 * k);
    let circle = Circle2::from_point(c0, r);
    let (a, b) = if on_b { (far, on) } else { (on, far) };
    let Ok(seg) = Segment2::try_new(a, b) else { return Verdict::Discard("segment rejected") };
    let pts: Vec<Point2> = match guarded(|| circle.intersection(&seg)) {
        Ok(p) => p,
        Err(m) => return Verdict::fail("C11/circle_x_segment/panic", m),
    };
    let tol = 1e-9 * (r + c0.coords.norm() + (far - on).norm());
    ensure!(pts.iter().any(|p| (p - on).norm() <= tol), if on_b { "C11/circle_x_segment/end_b_on_circle_missed" } else { "C11/circle_x_segment/end_a_on_circle_missed" }, "segment {:?} -> {:?} has its {} end exactly on the circle ({:?}, r={r:e}) but the intersection {:?} does not contain it", a, b, if on_b { "second" } else { "first" }, c0, pts);
    for p in &pts {
        ensure!(circle.distance_to(p).abs() <= tol, "C11/circle_x_segment/not_on_circle", "segment intersection {:e} off the circle", circle.distance_to(p));
    }
    cx.nontrivial();
    cx.pass()
}

fn cross(a: &Vector2, b: &Vector2) -> f64 {
    a.x * b.y - a.y * b.x
}

#[allow(clippy::too_many_arguments)]
fn pair(kind: PairKind, k: f64, a: u8, b: u8, f: f64, quarter: u8, shift: (i32, i32), pose: &Option<Iso2D>) -> Verdict {
    let mut cx = Ctx::new();
    // radii in lattice units; centre offset along the 3-4-5 direction so that d is exactly representable
    let (mut r0, mut r1) = (a as f64 * k, b as f64 * k);
    if matches!(kind, PairKind::EqualRadiiCrossing | PairKind::EqualRadiiFar) {
        r1 = r0;
    }
    if matches!(kind, PairKind::InnerTouchExact | PairKind::Nested) && r0 == r1 {
        r0 += k;
    }
    let rs = r0 + r1;
    let rd = (r0 - r1).abs();
    // d = 5*m*k/?; exact when m is an integer multiple of k/..: use d = 5 * u with u dyadic
    let (d, exact): (f64, bool) = match kind {
        PairKind::Far => (rs * (1.5 + 3.0 * f), false),
        PairKind::JustOutside => (rs * (1.0 + 1e-6 * (1.0 + f)), false),
        PairKind::TouchExact => (rs, true),
        PairKind::Crossing => (rd + (rs - rd) * (0.02 + 0.96 * f), false),
        PairKind::InnerTouchExact => (rd, true),
        PairKind::Nested => (rd * 0.9 * f, false),
        PairKind::Concentric => (0.0, true),
        PairKind::EqualRadiiCrossing => (rs * (0.05 + 0.9 * f), false),
        PairKind::EqualRadiiFar => (rs * (1.2 + 2.0 * f), false),
    };
    // centre offset: (3,4)/5 * d  — exact when d/5 is dyadic; for exact kinds use radii multiples of 5k
    let (r0, r1, d) = if exact && d > 0.0 { (r0 * 5.0, r1 * 5.0, d * 5.0) } else { (r0, r1, d) };
    let off = Vector2::new(3.0 * (d / 5.0), 4.0 * (d / 5.0));
    let mut c0 = Point2::new(shift.0 as f64 * k, shift.1 as f64 * k);
    let mut c1 = c0 + off;
    // exact pose: quarter turns about the origin
    for _ in 0..quarter % 4 {
        c0 = Point2::new(-c0.y, c0.x);
        c1 = Point2::new(-c1.y, c1.x);
    }
    let mut exact = exact;
    if let Some(p) = pose {
        if !exact {
            let t = p.to_iso();
            c0 = t * c0;
            c1 = t * c1;
        }
    }
    if exact && d > 0.0 {
        // verify exactness of the construction itself; otherwise treat as approximate
        let dd = (c1 - c0).norm();
        let want = if kind == PairKind::TouchExact { r0 + r1 } else { (r0 - r1).abs() };
        if dd != want {
            exact = false;
        }
    }
    let d = (c1 - c0).norm();
    let (rs, rd) = (r0 + r1, (r0 - r1).abs());
    let scale = r0 + r1 + d + c0.coords.norm().max(c1.coords.norm());
    let tol = 1e-9 * scale;
    // the library's own documented zero is 1e-10 (absolute): configurations within a few of those of a boundary are left open
    let band = (1e-9 * scale).max(4e-10);
    let ca = Circle2::from_point(c0, r0);
    let cb = Circle2::from_point(c1, r1);
    cx.label(match kind {
        PairKind::Far => "pair_far",
        PairKind::JustOutside => "pair_just_outside",
        PairKind::TouchExact => "pair_touch_exact",
        PairKind::Crossing => "pair_crossing",
        PairKind::InnerTouchExact => "pair_inner_touch_exact",
        PairKind::Nested => "pair_nested",
        PairKind::Concentric => "pair_concentric",
        PairKind::EqualRadiiCrossing | PairKind::EqualRadiiFar => "pair_equal_radii",
    });
    // ---- intersections, both call directions
    for (x, y, nx, ny) in [(&ca, &cb, "self", "other"), (&cb, &ca, "other", "self")] {
        let _ = (nx, ny);
        let pts = match guarded(|| x.intersections_with(y)) {
            Ok(p) => p,
            Err(m) => return Verdict::fail("C11/intersections_with/panic", m),
        };
        for p in &pts {
            ensure!(p.x.is_finite() && p.y.is_finite(), if d < rd { "C11/intersections_with/non_finite/nested" } else { "C11/intersections_with/non_finite" }, "non-finite intersection point {:?} for circles ({:?}, r={r0:e}) and ({:?}, r={r1:e}), d={d:e}", p, c0, c1);
            ensure!((x.distance_to(p)).abs() <= tol && (y.distance_to(p)).abs() <= tol, "C11/intersections_with/not_on_both", "point {:?} is {:e} / {:e} off the two circles (d={d:e}, r0={r0:e}, r1={r1:e})", p, x.distance_to(p), y.distance_to(p));
        }
        let expected: Option<usize> = if d == 0.0 {
            Some(0)
        } else if exact && kind == PairKind::TouchExact {
            Some(1)
        } else if exact && kind == PairKind::InnerTouchExact {
            Some(1)
        } else if d > rs + band {
            Some(0)
        } else if d < rd - band {
            Some(0)
        } else if d > rd + band && d < rs - band {
            Some(2)
        } else {
            None
        };
        if let Some(e) = expected {
            let sig = if d < rd - band && d > 0.0 {
                "C11/intersections_with/count/nested"
            } else if exact && kind == PairKind::InnerTouchExact {
                "C11/intersections_with/count/inner_tangent"
            } else {
                "C11/intersections_with/count"
            };
            ensure!(pts.len() == e, sig, "{} intersection points for d={d:e}, r0={r0:e}, r1={r1:e} ({:?}); expected {e}", pts.len(), kind);
        }
        if pts.len() == 2 {
            let sep = (pts[0] - pts[1]).norm();
            if d > rd + band && d < rs - band {
                ensure!(sep > 0.0, "C11/intersections_with/duplicate", "the two intersection points coincide");
                // mirror images about the centre line
                let u = (y.center - x.center) / d;
                let m0 = pts[0] - x.center;
                let refl = x.center + (u * (2.0 * m0.dot(&u)) - m0);
                ensure!((refl - pts[1]).norm() <= tol * 10.0, "C11/intersections_with/mirror", "intersection points are not mirror images about the centre line");
            }
        }
        // interval on x containing both intersection angles and the direction to the other centre
        if d > rd + band * 100.0 && d < rs - band * 100.0 && pts.len() == 2 {
            match guarded(|| x.intersection_interval(*y)) {
                Ok(Some(iv)) => {
                    let to_other = x.angle_of_point(&y.center);
                    ensure!(iv.contains(to_other), "C11/intersection_interval/other_centre", "interval does not contain the direction to the other centre");
                    for p in &pts {
                        ensure!(iv.contains(x.angle_of_point(p)), "C11/intersection_interval/ends", "interval does not contain an intersection angle");
                    }
                    // and not the opposite direction (the lens is less than a full turn)
                    if iv.angle() < 2.0 * PI - 1e-6 {
                        ensure!(!iv.contains(to_other + PI) || iv.angle() > PI, "C11/intersection_interval/opposite", "interval of extent {:e} contains the direction away from the other centre", iv.angle());
                    }
                }
                Ok(None) => return Verdict::fail("C11/intersection_interval/none", "no interval for crossing circles".to_string()),
                Err(m) => return Verdict::fail("C11/intersection_interval/panic", m),
            }
        }
    }
    // ---- outer tangents (only where they exist: not nested, not concentric)
    if d > rd + 1e-6 * scale {
        let res = match guarded(|| ca.outer_tangents_to(&cb)) {
            Ok(r) => r,
            Err(m) => return Verdict::fail("C11/outer_tangents_to/panic", format!("{m} (d={d:e}, r0={r0:e}, r1={r1:e})")),
        };
        let Some((s0, s1)) = res else {
            return Verdict::fail("C11/outer_tangents_to/none", format!("no outer tangents for non-nested circles d={d:e}, r0={r0:e}, r1={r1:e}"));
        };
        cx.label("outer_tangents");
        let t2 = 1e-8 * scale;
        for (i, s) in [s0, s1].iter().enumerate() {
            ensure!(ca.distance_to(&s.a).abs() <= t2, "C11/outer_tangents_to/a_on_this", "segment {i} starts {:e} off this circle (d={d:e}, r0={r0:e}, r1={r1:e})", ca.distance_to(&s.a));
            ensure!(cb.distance_to(&s.b).abs() <= t2, "C11/outer_tangents_to/b_on_other", "segment {i} ends {:e} off the other circle (d={d:e}, r0={r0:e}, r1={r1:e})", cb.distance_to(&s.b));
            let dir = s.b - s.a;
            let l = dir.norm();
            ensure!(l > 0.0, "C11/outer_tangents_to/degenerate", "zero-length tangent segment");
            ensure!(((s.a - c0).dot(&dir) / l).abs() <= t2 && ((s.b - c1).dot(&dir) / l).abs() <= t2, "C11/outer_tangents_to/perpendicular", "segment {i} is not perpendicular to the radii at its ends: {:e}, {:e} (d={d:e}, r0={r0:e}, r1={r1:e})", (s.a - c0).dot(&dir) / l, (s.b - c1).dot(&dir) / l);
            // both circles on one side of the supporting line
            let n = Vector2::new(-dir.y, dir.x) / l;
            let (sa, sb) = ((c0 - s.a).dot(&n), (c1 - s.a).dot(&n));
            ensure!(sa * sb > 0.0 && (sa.abs() - r0).abs() <= t2 && (sb.abs() - r1).abs() <= t2, "C11/outer_tangents_to/same_side", "segment {i}: centres at signed distances {sa:e}, {sb:e} from its line (radii {r0:e}, {r1:e})");
        }
        // mirror images about the centre line
        let u = (c1 - c0) / d;
        let refl = |p: &Point2| c0 + (u * (2.0 * (p - c0).dot(&u)) - (p - c0));
        ensure!((refl(&s0.a) - s1.a).norm() <= t2 * 10.0 && (refl(&s0.b) - s1.b).norm() <= t2 * 10.0, "C11/outer_tangents_to/mirror", "the two segments are not mirror images about the centre line");
        // documented order: first segment on the left of this centre -> other centre
        let left0 = cross(&(c1 - c0), &(s0.a - c0));
        let left1 = cross(&(c1 - c0), &(s1.a - c0));
        if left0.abs() > 1e-9 * scale * scale {
            let sig = if (r0 - r1).abs() < 1e-10 { "C11/outer_tangents_to/order/equal_radii" } else { "C11/outer_tangents_to/order" };
            ensure!(left0 > 0.0 && left1 < 0.0, sig, "first segment starts on the {} of the line from this centre to the other centre (documented: left first); d={d:e}, r0={r0:e}, r1={r1:e}", if left0 > 0.0 { "left" } else { "right" });
        }
    }
    let origin_free = c0.coords.norm() > 1e-6 && c1.coords.norm() > 1e-6;
    if origin_free && d > 0.0 && ((r0 / d) - std::f64::consts::FRAC_1_SQRT_2).abs() > 0.05 {
        cx.nontrivial();
    }
    cx.pass()
}

fn tangent_point(c: &P2, r: f64, ratio_exp: f64, ang: f64) -> Verdict {
    let mut cx = Ctx::new();
    cx.label("tangent_point");
    let c0 = pt2(c);
    let circle = Circle2::from_point(c0, r);
    let d = r * (1.0 + 10f64.powf(ratio_exp));
    let p = c0 + Vector2::new(ang.cos(), ang.sin()) * d;
    let d = (p - c0).norm();
    // inside / on: None
    let inside = c0 + Vector2::new(ang.cos(), ang.sin()) * (r * 0.7);
    ensure!(circle.tangent_points_to(&inside).is_none(), "C11/tangent_points_to/inside_some", "tangent points returned for a point inside the circle");
    let res = circle.tangent_points_to(&p);
    if d <= r {
        ensure!(res.is_none(), "C11/tangent_points_to/on_circle_some", "tangent points returned for a point on the circle");
        return cx.pass();
    }
    let Some((t0, t1)) = res else {
        return Verdict::fail("C11/tangent_points_to/none_outside", format!("no tangent points for an external point at d/r = {:e}", d / r));
    };
    let scale = r + d + c0.coords.norm();
    for (i, t) in [t0, t1].iter().enumerate() {
        ensure!(circle.distance_to(t).abs() <= 1e-9 * scale, "C11/tangent_points_to/on_circle", "tangent point {i} is {:e} off the circle", circle.distance_to(t));
        let dot = (t - c0).dot(&(p - t));
        ensure!(dot.abs() <= 1e-9 * r * d + 1e-9 * scale * r, "C11/tangent_points_to/perpendicular", "radius . tangent = {dot:e} (r={r:e}, d={d:e}, d/r={:e}): the tangent line is not perpendicular to the radius", d / r);
    }
    // documented order: first point to the left of the ray from the point toward the centre
    let l0 = cross(&(c0 - p), &(t0 - p));
    let l1 = cross(&(c0 - p), &(t1 - p));
    if (d / r - 1.0) > 1e-5 {
        ensure!(l0 > 0.0 && l1 < 0.0, "C11/tangent_points_to/order", "first tangent point is on the {} of the ray point->centre", if l0 > 0.0 { "left" } else { "right" });
    }
    if c0.coords.norm() > 1e-6 && ((r / d) - std::f64::consts::FRAC_1_SQRT_2).abs() > 0.05 {
        cx.nontrivial();
    }
    cx.pass()
}

#[allow(clippy::too_many_arguments)]
#[allow(clippy::too_many_arguments)]
fn line(c: &P2, r: f64, dist_rel: f64, dir_ang: f64, dir_len: f64, along: f64, seg: (f64, f64), exact_tangent: bool, tangent_at: Option<f64>) -> Verdict {
    let mut cx = Ctx::new();
    let (c0, r, u, n, dist, exact) = if exact_tangent {
        // lattice construction: horizontal/vertical line at exactly one radius from a lattice centre
        let c0 = Point2::new((c[0] * 8.0).round() / 8.0, (c[1] * 8.0).round() / 8.0);
        let r = ((r * 8.0).round() / 8.0).max(0.125);
        let (u, n) = if dir_ang > 0.0 { (Vector2::new(1.0, 0.0), Vector2::new(0.0, 1.0)) } else { (Vector2::new(0.0, -1.0), Vector2::new(1.0, 0.0)) };
        (c0, r, u, n, r, true)
    } else if let Some(th) = tangent_at {
        // tangent in a general direction: through the point of the circle at angle th, along the perpendicular of the
        // radius there.  The centre-line distance is r up to a few ulps of the coordinates.
        let n = Vector2::new(th.cos(), th.sin());
        (pt2(c), r, Vector2::new(-n.y, n.x), n, r, false)
    } else {
        let u = Vector2::new(dir_ang.cos(), dir_ang.sin());
        (pt2(c), r, u, Vector2::new(-u.y, u.x), dist_rel * r, false)
    };
    let circle = Circle2::from_point(c0, r);
    let dir_len = if exact { (dir_len * 4.0).round().max(1.0) / 4.0 } else { dir_len };
    let along = if exact { (along * 4.0).round() / 4.0 } else { along };
    let origin = c0 + n * dist + u * (along * r);
    let ray = Ray2::new(origin, u * dir_len);
    let scale = r + c0.coords.norm() + dist + (along * r).abs();
    let tol = 1e-9 * scale;
    let ts = match guarded(|| intersection_line_circle(&ray, &circle)) {
        Ok(t) => t,
        Err(m) => return Verdict::fail("C11/intersection_line_circle/panic", m),
    };
    for t in &ts {
        let p = ray.at(*t);
        // near tangency the chord end is ill-conditioned: error in t scales like sqrt
        let slack = if (dist - r).abs() < 1e-6 * r { 1e-4 * r } else { tol };
        ensure!(circle.distance_to(&p).abs() <= slack, "C11/intersection_line_circle/not_on_circle", "line.at({t:e}) is {:e} off the circle (centre-line distance {dist:e}, r={r:e}, |dir|={dir_len:e})", circle.distance_to(&p));
    }
    let band = 1e-9 * scale;
    // a line built tangent in a general direction is at |d - r| <= a few ulps of the coordinates; the library counts
    // |d - r| < 1e-10 (absolute) as tangent, so for coordinates below 1e3 (64 ulp < 1e-11) exactly one point is due
    let generic_tangent = tangent_at.is_some() && !exact && 64.0 * ulp(scale) < 1e-11;
    cx.label_if(generic_tangent, "line_tangent_generic");
    let expected = if exact || generic_tangent { Some(1) } else if dist > r + band { Some(0) } else if dist < r - band { Some(2) } else { None };
    if let Some(e) = expected {
        ensure!(ts.len() == e, "C11/intersection_line_circle/count", "{} intersections for a line at distance {dist:e} from the centre of a circle of radius {r:e}", ts.len());
        cx.label(match e {
            0 => "line_0",
            1 => "line_1",
            _ => "line_2",
        });
        if e == 2 {
            // the two points are symmetric about the foot of the centre and h^2 + dist^2 = r^2
            let h = (r * r - dist * dist).sqrt();
            let gap = (ray.at(ts[1]) - ray.at(ts[0])).norm();
            ensure!((gap - 2.0 * h).abs() <= 1e-6 * r, "C11/intersection_line_circle/chord", "chord length {gap:e}, expected {:e}", 2.0 * h);
            ensure!(ts[0] < ts[1], "C11/intersection_line_circle/order", "parameters not ascending");
        }
    }
    // segment: those with t in [0, 1]
    let a = origin + u * (seg.0 * r);
    let b = a + u * (seg.1 * r);
    if let Ok(s) = Segment2::try_new(a, b) {
        let pts: Vec<Point2> = circle.intersection(&s);
        let all = intersection_line_circle(&s, &circle);
        let mut exp = 0;
        let mut dontcare = false;
        for t in &all {
            if (*t > 1e-9 && *t < 1.0 - 1e-9) {
                exp += 1;
            } else if *t >= -1e-9 && *t <= 1.0 + 1e-9 {
                dontcare = true;
            }
        }
        for p in &pts {
            let slack = if (dist - r).abs() < 1e-6 * r { 1e-4 * r } else { tol };
            ensure!(circle.distance_to(p).abs() <= slack, "C11/circle_x_segment/not_on_circle", "segment intersection {:e} off the circle", circle.distance_to(p));
            let t = s.projected_parameter(p);
            ensure!(t >= -1e-6 && t <= 1.0 + 1e-6, "C11/circle_x_segment/outside_segment", "segment intersection at parameter {t:e}");
        }
        if !dontcare {
            ensure!(pts.len() == exp, "C11/circle_x_segment/count", "{} segment intersections, {} line intersections have t in [0,1]", pts.len(), exp);
        }
        cx.label("segment");
    }
    if c0.coords.norm() > 1e-6 {
        cx.nontrivial();
    }
    cx.pass()
}

fn curve_circle(spec: &Curve2Spec, c: &P2, r: f64) -> Verdict {
    let mut cx = Ctx::new();
    cx.label("curve_circle");
    let b = match spec.build() {
        Ok(Some(b)) => b,
        Ok(None) => return Verdict::Discard("degenerate polyline"),
        Err(e) => return Verdict::fail("C11/curve/from_points", e),
    };
    let scale = b.model.scale();
    let bb_c = b.model.v[0] + Vector2::new(c[0], c[1]) * (scale * 0.3);
    let circle = Circle2::from_point(bb_c, r * scale * 0.3);
    let curve: &Curve2 = &b.curve;
    let pts: Vec<Point2> = match guarded(|| curve.intersection(&circle)) {
        Ok(p) => p,
        Err(m) => return Verdict::fail("C11/curve_x_circle/panic", m),
    };
    let tol = 1e-8 * scale;
    for p in &pts {
        ensure!(circle.distance_to(p).abs() <= tol * 100.0, "C11/curve_x_circle/not_on_circle", "point {:e} off the circle", circle.distance_to(p));
        ensure!(b.model.dist_to(p) <= tol, "C11/curve_x_circle/not_on_curve", "point {:e} off the curve", b.model.dist_to(p));
    }
    // completeness: robust crossings found by the harness scan
    for i in 0..b.model.n() - 1 {
        let (p0, p1) = (b.model.v[i], b.model.v[i + 1]);
        let dv = p1 - p0;
        let fq = p0 - circle.center;
        let (qa, qb, qc) = (dv.dot(&dv), 2.0 * fq.dot(&dv), fq.dot(&fq) - circle.r() * circle.r());
        let disc = qb * qb - 4.0 * qa * qc;
        if disc <= 1e-9 * qb * qb + 1e-12 * scale.powi(4) {
            continue;
        }
        for sgn in [-1.0, 1.0] {
            let t = (-qb + sgn * disc.sqrt()) / (2.0 * qa);
            if t > 1e-6 && t < 1.0 - 1e-6 {
                let x = p0 + dv * t;
                ensure!(pts.iter().any(|p| (p - x).norm() <= tol * 1000.0), "C11/curve_x_circle/missed", "edge {i} crosses the circle at {:?} (t={t:e}) but no reported point is near it", x);
            }
        }
    }
    cx.nontrivial();
    cx.pass()
}

fn project(c: &P2, r: f64, p: &P2) -> Verdict {
    let mut cx = Ctx::new();
    cx.label("project");
    let c0 = pt2(c);
    let p = pt2(p);
    let circle = Circle2::from_point(c0, r);
    let d = (p - c0).norm();
    let scale = r + d + c0.coords.norm();
    ensure!((circle.distance_to(&p) - (d - r)).abs() <= 1e-12 * scale, "C11/distance_to/value", "distance_to = {:e}, |p-c| - r = {:e}", circle.distance_to(&p), d - r);
    if (d - r).abs() > 1e-9 * scale {
        ensure!((circle.distance_to(&p) > 0.0) == (d > r), "C11/distance_to/sign", "sign of distance_to wrong");
    }
    match circle.project_point_to_perimeter(&p) {
        Some(q) => {
            ensure!(circle.distance_to(&q).abs() <= 1e-9 * scale, "C11/project/on_circle", "projection {:e} off the circle", circle.distance_to(&q));
            ensure!(cross(&(q - c0), &(p - c0)).abs() <= 1e-9 * scale * scale && (q - c0).dot(&(p - c0)) > 0.0, "C11/project/direction", "projection not on the ray from the centre through the point");
        }
        None => ensure!(d < 1e-9, "C11/project/none", "no projection for a point {d:e} from the centre"),
    }
    ensure!(circle.project_point_to_perimeter(&c0).is_none(), "C11/project/centre", "projection of the centre returned a point");
    // bounding box of a circle: centre +- r
    let bb = circle.aabb();
    ensure!((bb.mins - (c0 - Vector2::new(r, r))).norm() <= 1e-12 * scale && (bb.maxs - (c0 + Vector2::new(r, r))).norm() <= 1e-12 * scale, "C11/circle_aabb", "circle bounding box is not centre +- r");
    // the same holds for circles that come out of other constructions (the box is cached at construction, so every way of
    // producing a circle must produce its own box): a fit started from a different guess, a three-point circle, a seeded
    // RANSAC circle, and the full and partial arcs made from them
    {
        let box_of = |who: &str, k: &Circle2| -> Result<(), Failure> {
            let sc = k.r() + k.center.coords.norm();
            let bb = k.aabb();
            crate::ensure_r!((bb.mins - (k.center - Vector2::new(k.r(), k.r()))).norm() <= 1e-9 * sc && (bb.maxs - (k.center + Vector2::new(k.r(), k.r()))).norm() <= 1e-9 * sc, format!("C11/circle_aabb/{who}"), "bounding box [{:?}, {:?}] of a circle from {who} is not centre {:?} +- r {:e}", bb.mins, bb.maxs, k.center, k.r());
            let fa = k.to_arc();
            let fb = *fa.aabb();
            crate::ensure_r!((fb.mins - bb.mins).norm() <= 1e-9 * sc && (fb.maxs - bb.maxs).norm() <= 1e-9 * sc, format!("C11/arc_aabb/full_arc_of/{who}"), "bounding box of the full arc of a circle from {who} differs from the circle's");
            Ok(())
        };
        let on: Vec<Point2> = (0..12).map(|k| { let t = 0.37 + k as f64 * 0.5; c0 + Vector2::new(t.cos(), t.sin()) * r }).collect();
        let guess = Circle2::new(p.x, p.y, r * 1.7);
        if (p - c0).norm() < 0.3 * r {
            if let Ok(Ok(f)) = guarded(|| Circle2::fitting_circle(&on, &guess, engeom::common::BestFit::All).map_err(|e| e.to_string())) {
                cx.label("box_of_fitted_circle");
                if let Err(e) = box_of("fitting_circle", &f) {
                    return Verdict::Fail(e);
                }
            }
        }
        if let Ok(t) = Circle2::from_3_points(on[0], on[3], on[7]) {
            if let Err(e) = box_of("from_3_points", &t) {
                return Verdict::Fail(e);
            }
        }
        if let Ok(Ok(k)) = guarded(|| Circle2::ransac(&on, 1e-6 * r, None, None, None).map_err(|e| e.to_string())) {
            if let Err(e) = box_of("ransac", &k) {
                return Verdict::Fail(e);
            }
        }
    }
    if c0.coords.norm() > 1e-6 {
        cx.nontrivial();
    }
    cx.pass()
}

fn arc3(p0: &P2, p1: &P2, p2: &P2, collinear: bool, sc: f64) -> Verdict {
    let mut cx = Ctx::new();
    // the triple is scaled about its first point: a triangle of any size, anywhere
    let a = pt2(p0);
    let (mut b, c) = (a + (pt2(p1) - a) * sc, a + (pt2(p2) - a) * sc);
    cx.label_if(sc < 1e-2, "arc3_small");
    if collinear {
        // exactly collinear lattice triple
        let a = Point2::new((a.x * 4.0).round() / 4.0, (a.y * 4.0).round() / 4.0);
        let dv = Vector2::new((b.x).round() / 4.0, (b.y).round() / 4.0);
        if dv.norm() == 0.0 {
            return Verdict::Discard("zero step");
        }
        let (b, c) = (a + dv, a + dv * 3.0);
        ensure!(Circle2::from_3_points(a, b, c).is_err(), "C11/from_3_points/collinear_accepted", "collinear triple {:?} {:?} {:?} accepted", a, b, c);
        cx.label("arc3_collinear");
        cx.nontrivial();
        return cx.pass();
    }
    let scale = a.coords.norm().max(b.coords.norm()).max(c.coords.norm()) + (b - a).norm() + (c - a).norm();
    let area2 = cross(&(b - a), &(c - a));
    if area2.abs() < 2e-3 * ((b - a).norm() * (c - a).norm()).max(1e-300) {
        // not in general position: nudge b off the chord
        let chord = c - a;
        if chord.norm() < 1e-3 * sc {
            return Verdict::Discard("coincident end points");
        }
        let n = Vector2::new(-chord.y, chord.x) / chord.norm();
        b = a + chord * 0.5 + n * (0.3 * chord.norm());
    }
    let area2 = cross(&(b - a), &(c - a));
    // general position means that no angle of the triangle is (nearly) zero: a needle with two vertices close together
    // has a large angle at one of them and a vanishing one at the far vertex, and the library judges collinearity by
    // the sine at the middle point.  Between 1e-6 (its threshold) and 2e-3 the answer is left open.
    let min_sine = {
        let (ab, bc, ca) = ((b - a).norm(), (c - b).norm(), (a - c).norm());
        let m = ab.max(bc).max(ca);
        let second = if m == ab { bc.max(ca) } else if m == bc { ab.max(ca) } else { ab.max(bc) };
        area2.abs() / (m * second).max(1e-300)
    };
    if min_sine < 2e-3 {
        return Verdict::Discard("needle triangle: neither collinear nor in general position");
    }
    let circ = match Circle2::from_3_points(a, b, c) {
        Ok(x) => x,
        Err(e) => return Verdict::fail("C11/from_3_points/general_position_rejected", format!("{e}: {:?} {:?} {:?}", a, b, c)),
    };
    // conditioning depends on the shape of the triangle only (the construction is exact under translation); the
    // coordinates themselves carry a rounding error of a few ulps of their magnitude
    let size = (b - a).norm().max((c - b).norm()).max((a - c).norm());
    let cond = (size * size / area2.abs()).max(1.0);
    let tol = (1e-9 * (circ.r() + size) + 64.0 * ulp(scale)) * cond * cond;
    for (i, p) in [a, b, c].iter().enumerate() {
        ensure!(circ.distance_to(p).abs() <= tol, "C11/from_3_points/not_through_point", "point {i} is {:e} off the circle (r={:e})", circ.distance_to(p), circ.r());
    }
    let arc = match guarded(|| Arc2::three_points(a, b, c)) {
        Ok(x) => x,
        Err(m) => return Verdict::fail("C11/three_points/panic", m),
    };
    cx.label("arc3");
    ensure!((arc.start() - a).norm() <= tol, "C11/three_points/start", "start() is {:e} from the first point", (arc.start() - a).norm());
    ensure!((arc.end() - c).norm() <= tol, "C11/three_points/end", "end() is {:e} from the third point (sweep {:e})", (arc.end() - c).norm(), arc.angle);
    ensure!((arc.angle > 0.0) == (area2 > 0.0), "C11/three_points/sweep_sign", "sweep {:e} but the triangle orientation is {}", arc.angle, if area2 > 0.0 { "counter-clockwise" } else { "clockwise" });
    // the middle point is passed: its sweep fraction is strictly inside (0,1)
    let v0 = a - arc.center();
    let v1 = b - arc.center();
    let mut th = cross(&v0, &v1).atan2(v0.dot(&v1));
    if arc.angle > 0.0 && th < 0.0 {
        th += 2.0 * PI;
    }
    if arc.angle < 0.0 && th > 0.0 {
        th -= 2.0 * PI;
    }
    let frac = th / arc.angle;
    ensure!(frac > 0.0 && frac < 1.0, "C11/three_points/passes_second", "the second point is at sweep fraction {frac:e}, not inside the arc (sweep {:e})", arc.angle);
    ensure!((arc.length() - arc.radius() * arc.angle.abs()).abs() <= 1e-12 * arc.length(), "C11/arc/length", "length != r*|angle|");
    for f in [0.0, 0.25, 0.7, 1.0] {
        let l = f * arc.length();
        let (x, y, z) = (arc.point_at_length(l), arc.point_at_fraction(f), arc.point_at_angle(arc.angle * f));
        ensure!((x - y).norm() <= 1e-9 * (arc.radius() + scale) && (y - z).norm() <= 1e-9 * (arc.radius() + scale), "C11/arc/point_at_agree", "point_at_length/fraction/angle disagree at f={f}");
        ensure!(arc.circle.distance_to(&x).abs() <= 1e-9 * (arc.radius() + scale), "C11/arc/point_on_circle", "arc point off its circle");
    }
    cx.nontrivial();
    cx.pass()
}

fn arc_box(c: &P2, r: f64, a0: f64, sweep: f64) -> Verdict {
    let mut cx = Ctx::new();
    cx.label("arc_box");
    let c0 = pt2(c);
    let arc = Arc2::circle_angles(c0, r, a0, sweep);
    let bb = *arc.aabb();
    let scale = r + c0.coords.norm();
    let tol = 1e-9 * scale;
    // (1) contains sampled arc points
    for i in 0..=720 {
        let t = a0 + sweep * i as f64 / 720.0;
        let p = c0 + Vector2::new(t.cos(), t.sin()) * r;
        ensure!(p.x >= bb.mins.x - tol && p.x <= bb.maxs.x + tol && p.y >= bb.mins.y - tol && p.y <= bb.maxs.y + tol, "C11/arc_aabb/does_not_contain", "arc point at angle {t:e} = {:?} outside the box [{:?}, {:?}] (centre {:?}, r={r:e}, start {a0:e}, sweep {sweep:e})", p, bb.mins, bb.maxs, c0);
    }
    // (2) touches on all four sides: analytic extremes
    let (lo, hi) = if sweep >= 0.0 { (a0, a0 + sweep) } else { (a0 + sweep, a0) };
    let inside = |axis: f64| -> bool {
        // is there an integer k with lo <= axis + 2 pi k <= hi ?
        let k = ((lo - axis) / (2.0 * PI)).ceil();
        axis + 2.0 * PI * k <= hi + 1e-12 || (hi - lo) >= 2.0 * PI
    };
    let ends = [c0 + Vector2::new(lo.cos(), lo.sin()) * r, c0 + Vector2::new(hi.cos(), hi.sin()) * r];
    let ext = |axis: f64, coord: usize, sign: f64| -> f64 {
        if inside(axis) {
            c0[coord] + sign * r
        } else if sign > 0.0 {
            ends[0][coord].max(ends[1][coord])
        } else {
            ends[0][coord].min(ends[1][coord])
        }
    };
    let exp = [ext(0.0, 0, 1.0), ext(PI, 0, -1.0), ext(PI / 2.0, 1, 1.0), ext(-PI / 2.0, 1, -1.0)];
    let got = [bb.maxs.x, bb.mins.x, bb.maxs.y, bb.mins.y];
    let names = ["max x", "min x", "max y", "min y"];
    for k in 0..4 {
        ensure!((exp[k] - got[k]).abs() <= tol, "C11/arc_aabb/not_tight", "{} of the box is {:e} but the arc's extreme is {:e} (centre {:?}, r={r:e}, start {a0:e}, sweep {sweep:e})", names[k], got[k], exp[k], c0);
    }
    // (3) length = r |sweep| for every sweep up to a full turn either way, and the three ways of addressing a point agree
    ensure!((arc.length() - r * sweep.abs()).abs() <= 1e-12 * r * (1.0 + sweep.abs()), "C11/arc/length", "length {:e} of an arc of radius {r:e} and sweep {sweep:e}, expected {:e}", arc.length(), r * sweep.abs());
    if sweep.abs() > 1e-6 {
        for f in [0.0, 0.3, 0.75, 1.0] {
            let x = arc.point_at_fraction(f);
            let y = arc.point_at_length(f * r * sweep.abs());
            let th = a0 + sweep * f;
            let want = c0 + Vector2::new(th.cos(), th.sin()) * r;
            ensure!(x.x.is_finite() && x.y.is_finite() && y.x.is_finite() && y.y.is_finite(), "C11/arc/point_non_finite", "non-finite arc point at fraction {f} (sweep {sweep:e})");
            ensure!((x - want).norm() <= 1e-9 * scale * (1.0 + a0.abs()) && (y - want).norm() <= 1e-9 * scale * (1.0 + a0.abs()), "C11/arc/point_at_agree", "at fraction {f}: point_at_fraction {:?}, point_at_length {:?}, expected {:?} (start {a0:e}, sweep {sweep:e})", x, y, want);
        }
    }
    // (4) the same arc built from its start point (circle_point_angle) is the same arc: same start direction, sweep,
    //     end points, interior points and cached box
    {
        let sp = c0 + Vector2::new(a0.cos(), a0.sin()) * r;
        let arc2 = match guarded(|| Arc2::circle_point_angle(c0, r, sp, sweep)) {
            Ok(a) => a,
            Err(m) => return Verdict::fail("C11/circle_point_angle/panic", m),
        };
        let ptol = 1e-9 * scale * (1.0 + a0.abs());
        ensure!(arc2.angle == sweep, "C11/circle_point_angle/sweep", "sweep {:e} stored for a requested sweep of {sweep:e}", arc2.angle);
        ensure!((arc2.angle0.cos() - a0.cos()).abs() <= 1e-9 * (1.0 + a0.abs()) && (arc2.angle0.sin() - a0.sin()).abs() <= 1e-9 * (1.0 + a0.abs()), "C11/circle_point_angle/start_angle", "start angle {:e} is not the direction of the start point (angle {a0:e})", arc2.angle0);
        ensure!((arc2.start() - sp).norm() <= ptol, "C11/circle_point_angle/start", "start() is {:e} from the given start point", (arc2.start() - sp).norm());
        ensure!((arc2.end() - arc.end()).norm() <= ptol, "C11/circle_point_angle/end", "end() differs by {:e} from the arc built from angles (start {a0:e}, sweep {sweep:e})", (arc2.end() - arc.end()).norm());
        ensure!((arc2.length() - arc.length()).abs() <= 1e-12 * r * (1.0 + sweep.abs()), "C11/circle_point_angle/length", "length {:e} vs {:e}", arc2.length(), arc.length());
        for f in [0.25, 0.5, 0.9] {
            ensure!((arc2.point_at_fraction(f) - arc.point_at_fraction(f)).norm() <= ptol, "C11/circle_point_angle/point_at_fraction", "point at fraction {f} differs from the arc built from angles (start {a0:e}, sweep {sweep:e})");
        }
        let b2 = *arc2.aabb();
        let got2 = [b2.maxs.x, b2.mins.x, b2.maxs.y, b2.mins.y];
        for k in 0..4 {
            ensure!((exp[k] - got2[k]).abs() <= tol.max(ptol), "C11/circle_point_angle/aabb", "{} of the box is {:e} but the arc's extreme is {:e} (centre {:?}, r={r:e}, start point at angle {a0:e}, sweep {sweep:e})", names[k], got2[k], exp[k], c0);
        }
    }
    if c0.coords.norm() > 1e-6 {
        cx.nontrivial();
    }
    cx.pass()
}
