//! C12 — Mesh connectivity results are exact partitions and always terminate

use crate::ensure;
use crate::fw::*;
use crate::gen::*;
use crate::gen_mesh::*;
use engeom::common::indices::chained_indices;
use engeom::raster3::clusters_from_sparse;
use engeom::{Mesh, Point3};
use proptest::prelude::*;
use serde::{Deserialize, Serialize};
use std::collections::{BTreeMap, BTreeSet, HashSet};
use std::time::Duration;

pub struct C12;

#[derive(Clone, Debug, Serialize, Deserialize)]
pub enum Case {
    /// explicit face list over nv vertices (exhaustive enumeration, fuzzing, replay)
    Faces { nv: u8, faces: Vec<[u32; 3]> },
    /// exp2: the whole mesh is rescaled by 2^exp2 (exact)
    Wild { spec: MeshSpec, #[serde(default)] exp2: i32 },
    Voxels { cells: Vec<(i32, i32, i32)> },
    /// directed simple paths/cycles given by their lengths, labels drawn from a permutation, pairs shuffled
    Chains { parts: Vec<(u8, bool)>, seed: u64, extra: Vec<(u8, u8)> },
    Box { w: f64, h: f64, d: f64 },
    Cylinder { r: f64, h: f64, steps: usize },
}

const REPEATS: usize = 8;

impl Property for C12 {
    type Case = Case;
    const ID: &'static str = "C12";
    fn rule() -> &'static str {
        "enumerated phase (complete): every set of at most 4 oriented triangles over 5 labelled vertices and at most 3 over 6 vertices (both windings of every vertex triple); generated phase: meshes from the harness generators (grids with random diagonals, L-shapes, tubes, fans, boxes, octahedra, icospheres, tori, prisms) with holes, per-face flips, second components, vertex-only (bow-tie) contacts, shuffled numbering, a third of them rescaled as a whole by 2^-50..2^30; voxel sets (blobs, diagonal-only contacts, negative coordinates); index-pair lists that are shuffled disjoint unions of directed paths and cycles plus arbitrary pairs; the library's box and cylinder generators. Every case runs in a killable worker (10 s deadline, normal cost < 1 ms) and every hash-map-dependent result is recomputed 8 times and compared as canonical sets. Oracle: harness edge multisets and union-find. Non-trivial: at least two faces sharing an edge and at least one boundary edge (meshes); at least two clusters/chains (voxels/pairs). Distinct = distinct canonical JSON."
    }
    fn cases(t: Tier) -> u32 {
        t.pick(150_000, 600_000)
    }
    fn isolated() -> Option<Duration> {
        Some(Duration::from_secs(10))
    }
    fn enumerated_exhaustive() -> bool {
        true
    }
    fn expected_labels() -> Vec<&'static str> {
        vec!["faces", "wild", "voxels", "chains", "box", "cylinder", "bowtie", "flipped", "multi_component", "closed", "holes_or_open", "nonmanifold_rejected", "hash_order_repeats", "unit_below_1e-6", "unit_above_1e3", "patches_touching_in_a_vertex"]
    }
    fn enumerated(t: Tier) -> Vec<Case> {
        let mut out = vec![];
        let plan: Vec<(u8, usize)> = match t {
            Tier::Quick => vec![(5, 4), (6, 3)],
            Tier::Thorough => vec![(5, 4), (6, 3), (7, 3)],
        };
        for (nv, maxf) in plan {
            // oriented faces up to rotation
            let mut all: Vec<[u32; 3]> = vec![];
            for a in 0..nv as u32 {
                for b in a + 1..nv as u32 {
                    for c in b + 1..nv as u32 {
                        all.push([a, b, c]);
                        all.push([a, c, b]);
                    }
                }
            }
            let n = all.len();
            let mut idx: Vec<usize> = vec![];
            fn rec(all: &[[u32; 3]], start: usize, idx: &mut Vec<usize>, maxf: usize, nv: u8, out: &mut Vec<Case>) {
                if !idx.is_empty() {
                    out.push(Case::Faces { nv, faces: idx.iter().map(|i| all[*i]).collect() });
                }
                if idx.len() == maxf {
                    return;
                }
                for i in start..all.len() {
                    idx.push(i);
                    rec(all, i + 1, idx, maxf, nv, out);
                    idx.pop();
                }
            }
            rec(&all, 0, &mut idx, maxf, nv, &mut out);
            let _ = n;
        }
        out
    }
    fn strategy(t: Tier) -> BoxedStrategy<Case> {
        let gmax = t.pick(10, 30);
        let voxels = prop_oneof![
            // blob: random walk of cells
            (prop::collection::vec((-1i32..=1, -1i32..=1, -1i32..=1), 1..60), (-20i32..20, -20i32..20, -20i32..20)).prop_map(|(steps, s)| {
                let mut c = s;
                let mut cells = vec![c];
                for st in steps {
                    c = (c.0 + st.0, c.1 + st.1, c.2 + st.2);
                    cells.push(c);
                }
                Case::Voxels { cells }
            }),
            // scattered cells in a small box: many clusters, diagonal contacts, gaps of one cell
            prop::collection::vec((-4i32..=4, -4i32..=4, -2i32..=2), 0..50).prop_map(|cells| Case::Voxels { cells }),
        ];
        let chains = (prop::collection::vec((1u8..8, any::<bool>()), 1..6), any::<u64>(), prop_oneof![3 => Just(vec![]), 1 => prop::collection::vec((0u8..12, 0u8..12), 1..5)]).prop_map(|(parts, seed, extra)| Case::Chains { parts, seed, extra });
        prop_oneof![
            6 => (wild_mesh(gmax), prop_oneof![2 => Just(0i32), 1 => -50i32..=30]).prop_map(|(spec, exp2)| Case::Wild { spec, exp2 }),
            2 => (3u8..9, prop::collection::vec((0u32..9, 0u32..9, 0u32..9), 1..10)).prop_map(|(nv, f)| {
                let faces = f.into_iter().map(|(a, b, c)| [a % nv as u32, b % nv as u32, c % nv as u32]).filter(|t| t[0] != t[1] && t[1] != t[2] && t[0] != t[2]).collect::<Vec<_>>();
                Case::Faces { nv, faces }
            }),
            2 => voxels,
            2 => chains,
            1 => (unif(0.1, 5.0), unif(0.1, 5.0), unif(0.1, 5.0)).prop_map(|(w, h, d)| Case::Box { w, h, d }),
            1 => (unif(0.1, 5.0), unif(0.1, 5.0), 3usize..40).prop_map(|(r, h, steps)| Case::Cylinder { r, h, steps }),
        ]
        .boxed()
    }
    fn check(case: &Case) -> Verdict {
        match case {
            Case::Faces { nv, faces } => {
                if faces.is_empty() {
                    return Verdict::Discard("no faces");
                }
                let v: Vec<Point3> = (0..*nv as usize).map(|i| Point3::new((i as f64 * 2.1).cos() * 2.0, (i as f64 * 1.3).sin() + i as f64, (i * i) as f64 * 0.1)).collect();
                let mut cx = Ctx::new();
                cx.label("faces");
                mesh_checks(cx, v, faces.clone())
            }
            Case::Wild { spec, exp2 } => {
                let Some(mut b) = spec.build() else { return Verdict::Discard("empty mesh") };
                let u = 2f64.powi(*exp2);
                for p in b.v.iter_mut() {
                    *p = Point3::from(p.coords * u);
                }
                let mut cx = Ctx::new();
                cx.label("wild");
                cx.label_if(*exp2 < -20, "unit_below_1e-6");
                cx.label_if(*exp2 > 10, "unit_above_1e3");
                mesh_checks(cx, b.v, b.f)
            }
            Case::Voxels { cells } => voxels(cells),
            Case::Chains { parts, seed, extra } => chains(parts, *seed, extra),
            Case::Box { w, h, d } => primitive(Mesh::create_box(*w, *h, *d, false), "box", None),
            Case::Cylinder { r, h, steps } => {
                let m = match guarded(|| Mesh::create_cylinder(*r, *h, *steps)) {
                    Ok(m) => m,
                    Err(msg) => return Verdict::fail("C12/create_cylinder/panic", msg),
                };
                primitive(m, "cylinder", Some(*steps))
            }
        }
    }
}

type EdgeKey = (u32, u32);
fn ek(a: u32, b: u32) -> EdgeKey {
    (a.min(b), a.max(b))
}

/// canonical form of a loop as a sorted multiset of undirected edges
fn loop_edges(l: &[u32]) -> Vec<EdgeKey> {
    let n = l.len();
    let mut out: Vec<EdgeKey> = (0..n).map(|i| ek(l[i], l[(i + 1) % n])).collect();
    out.sort();
    out
}

#[derive(PartialEq, Eq, Debug, Clone)]
struct Canon {
    edges_ok: bool,
    loops: Vec<Vec<EdgeKey>>,
    patches: BTreeSet<BTreeSet<usize>>,
}

fn mesh_checks(mut cx: Ctx, v: Vec<Point3>, f: Vec<[u32; 3]>) -> Verdict {
    let topo = Topo::of(v.len(), &f);
    let mesh = match guarded(|| Mesh::new(v.clone(), f.clone(), false)) {
        Ok(m) => m,
        Err(m) => return Verdict::fail("C12/mesh_new/panic", m),
    };
    if mesh.faces() != &f[..] {
        return Verdict::Discard("mesh constructor changed the faces");
    }
    cx.label_if(topo.vertex_only_contact, "bowtie");
    cx.label_if(!topo.consistent, "flipped");
    cx.label_if(topo.components > 1, "multi_component");
    cx.label_if(topo.closed, "closed");
    cx.label_if(!topo.closed, "holes_or_open");
    // harness expectations
    let mut uniq: Vec<EdgeKey> = topo.edge_faces.keys().cloned().collect();
    uniq.sort();
    let mut boundary: Vec<EdgeKey> = topo.edge_faces.iter().filter(|(_, l)| l.len() == 1).map(|(k, _)| *k).collect();
    boundary.sort();
    // expected patches: union-find over shared undirected edges
    let mut p: Vec<usize> = (0..f.len()).collect();
    for l in topo.edge_faces.values() {
        for w in l.windows(2) {
            let (a, b) = (find(&mut p, w[0].0), find(&mut p, w[1].0));
            p[a] = b;
        }
    }
    let mut groups: BTreeMap<usize, BTreeSet<usize>> = BTreeMap::new();
    for i in 0..f.len() {
        let r = find(&mut p, i);
        groups.entry(r).or_default().insert(i);
    }
    let expect_patches: BTreeSet<BTreeSet<usize>> = groups.into_values().collect();

    let mut first: Option<Canon> = None;
    for rep in 0..REPEATS {
        // ---- edges and boundary loops
        let res = match guarded(|| mesh.calc_edges().map(|e| (e.edges.clone(), e.edge_lengths.clone(), e.face_edges.clone(), e.boundary_loops.clone())).map_err(|e| e.to_string())) {
            Ok(r) => r,
            Err(m) => {
                let class = if topo.manifold { if !topo.consistent { "inconsistent_winding" } else if topo.vertex_only_contact { "bowtie_vertex" } else { "manifold" } } else { "nonmanifold" };
                return Verdict::fail(format!("C12/calc_edges/panic/{class}"), format!("calc_edges panicked on {} faces over {} vertices ({class}): {m}; faces {:?}", f.len(), v.len(), &f[..f.len().min(12)]));
            }
        };
        let mut canon = Canon { edges_ok: res.is_ok(), loops: vec![], patches: BTreeSet::new() };
        match res {
            Err(e) => {
                ensure!(!topo.manifold, "C12/calc_edges/rejected_manifold", "calc_edges failed on a mesh with no edge in more than two faces: {e}");
                cx.label("nonmanifold_rejected");
            }
            Ok((edges, lengths, face_edges, loops)) => {
                ensure!(topo.manifold, "C12/calc_edges/accepted_nonmanifold", "calc_edges accepted a mesh with an edge shared by more than two faces");
                let got: Vec<EdgeKey> = edges.iter().map(|e| (e[0], e[1])).collect();
                ensure!(got == uniq, "C12/calc_edges/edge_table", "edge table {:?} is not the sorted list of distinct undirected edges {:?}", got, uniq);
                ensure!(lengths.len() == edges.len(), "C12/calc_edges/lengths_len", "{} lengths for {} edges", lengths.len(), edges.len());
                for (i, e) in edges.iter().enumerate() {
                    let l = (v[e[0] as usize] - v[e[1] as usize]).norm();
                    ensure!((lengths[i] - l).abs() <= 1e-12 * l, "C12/calc_edges/edge_length", "edge {i} length {:e}, vertices are {l:e} apart", lengths[i]);
                }
                ensure!(face_edges.len() == f.len(), "C12/calc_edges/face_edges_len", "{} face edge rows for {} faces", face_edges.len(), f.len());
                for (fi, t) in f.iter().enumerate() {
                    for j in 0..3 {
                        let opp = ek(t[(j + 1) % 3], t[(j + 2) % 3]);
                        let ei = face_edges[fi][j] as usize;
                        ensure!(ei < edges.len() && ek(edges[ei][0], edges[ei][1]) == opp, "C12/calc_edges/face_edges", "face {fi} entry {j} names edge {ei}, expected the edge opposite vertex {j}: {:?}", opp);
                    }
                }
                // boundary loops: closed cycles over boundary edges, every boundary edge exactly once
                let mut used: Vec<EdgeKey> = vec![];
                for l in &loops {
                    ensure!(l.len() >= 2, "C12/boundary_loops/short_loop", "loop {:?} has fewer than two vertices", l);
                    used.extend(loop_edges(l));
                }
                used.sort();
                let class = if !topo.consistent { "inconsistent_winding" } else if topo.vertex_only_contact { "bowtie_vertex" } else { "clean" };
                ensure!(used == boundary, format!("C12/boundary_loops/edges_exactly_once/{class}"), "the loops {:?} use the undirected edges {:?}, but the boundary edges (edges in exactly one face) are {:?}", loops, used, boundary);
                let mut lc: Vec<Vec<EdgeKey>> = loops.iter().map(|l| loop_edges(l)).collect();
                lc.sort();
                canon.loops = lc;
                if !topo.vertex_only_contact && topo.consistent {
                    ensure!(loops.len() == topo.boundary_loops, "C12/boundary_loops/count", "{} loops, harness finds {} boundary cycles", loops.len(), topo.boundary_loops);
                }
            }
        }
        // ---- patches
        let patches = match guarded(|| mesh.get_patches()) {
            Ok(p) => p,
            Err(m) => return Verdict::fail("C12/get_patches/panic", m),
        };
        let mut seen = vec![0usize; f.len()];
        for p in &patches {
            for i in p {
                ensure!(*i < f.len(), "C12/get_patches/index_range", "face index {i} out of range");
                seen[*i] += 1;
            }
        }
        ensure!(seen.iter().all(|c| *c == 1), "C12/get_patches/not_a_partition", "faces appear {:?} times across the patches {:?}", seen, patches);
        let got: BTreeSet<BTreeSet<usize>> = patches.iter().map(|p| p.iter().cloned().collect()).collect();
        let class = if !topo.consistent { "inconsistent_winding" } else { "consistent" };
        ensure!(got == expect_patches, format!("C12/get_patches/connectivity/{class}"), "patches {:?} but faces connected through shared edges form {:?} (faces {:?})", got, expect_patches, &f[..f.len().min(12)]);
        canon.patches = got;
        match &first {
            None => first = Some(canon),
            Some(c0) => {
                ensure!(*c0 == canon, "C12/hash_order/result_changed", "repetition {rep} gave a different answer than repetition 0 on the same mesh: {:?} vs {:?}", canon, c0);
                cx.label("hash_order_repeats");
            }
        }
    }
    // patch boundaries on clean meshes.  Two different patches may touch in a vertex (each is walked on its own); what is
    // excluded is a patch that is pinched in one of its own vertices
    let per_patch_clean = !topo.vertex_only_contact
        || expect_patches.iter().all(|p| {
            let pf: Vec<[u32; 3]> = p.iter().map(|i| f[*i]).collect();
            !Topo::of(v.len(), &pf).vertex_only_contact
        });
    cx.label_if(topo.vertex_only_contact && per_patch_clean && topo.manifold && topo.consistent, "patches_touching_in_a_vertex");
    if topo.manifold && per_patch_clean {
        cx.label_if(!topo.consistent, "patch_boundary_inconsistent_winding");
        match guarded(|| mesh.get_patch_boundary_points().map_err(|e| e.to_string())) {
            Ok(Ok(loops)) => {
                let mut used: Vec<((u64, u64, u64), (u64, u64, u64))> = vec![];
                let key = |p: &Point3| (p.x.to_bits(), p.y.to_bits(), p.z.to_bits());
                for l in &loops {
                    for i in 0..l.len() {
                        let (a, b) = (key(&l[i]), key(&l[(i + 1) % l.len()]));
                        used.push(if a <= b { (a, b) } else { (b, a) });
                    }
                }
                used.sort();
                let mut exp: Vec<_> = boundary.iter().map(|e| { let (a, b) = (key(&v[e.0 as usize]), key(&v[e.1 as usize])); if a <= b { (a, b) } else { (b, a) } }).collect();
                exp.sort();
                ensure!(used == exp, "C12/patch_boundary_points/edges_exactly_once", "patch boundary loops do not cover each boundary edge exactly once ({} vs {} edges)", used.len(), exp.len());
            }
            // faces wound against their neighbours give boundary edges whose directions do not chain; the walk may refuse
            // such a patch, but loops it does return must still be the boundary, each edge once
            Ok(Err(_)) if !topo.consistent => cx.label("patch_boundary_inconsistent_refused"),
            Ok(Err(e)) => return Verdict::fail("C12/patch_boundary_points/rejected_clean", format!("clean mesh rejected: {e}")),
            Err(m) => return Verdict::fail("C12/patch_boundary_points/panic", m),
        }
    }
    // history on the object that has answered all of the above: a far-away copy of itself is appended; the patches and
    // the edge structure must be those of the mesh as it now is (the original partition plus its shifted copy)
    {
        let mut hm = mesh;
        let shift = engeom::Vector3::new(1.0e3, 2.0e3, -1.5e3);
        let other_v: Vec<Point3> = v.iter().map(|p| p + shift).collect();
        if let Ok(other) = guarded(|| Mesh::new(other_v, f.clone(), false)) {
            if hm.append(&other).is_ok() {
                cx.label("history_append");
                let nf = f.len();
                let patches = match guarded(|| hm.get_patches()) {
                    Ok(p) => p,
                    Err(m) => return Verdict::fail("C12/history/get_patches/panic", m),
                };
                let got: BTreeSet<BTreeSet<usize>> = patches.iter().map(|p| p.iter().cloned().collect()).collect();
                let mut want = expect_patches.clone();
                for p in &expect_patches {
                    want.insert(p.iter().map(|i| i + nf).collect());
                }
                ensure!(got == want, "C12/history/get_patches/stale_after_append", "after appending a copy ({} faces now) the patches are {:?}, expected {:?}", 2 * nf, got, want);
                ensure!(hm.faces().len() == 2 * nf, "C12/history/append_faces", "{} faces after appending {nf} to {nf}", hm.faces().len());
            }
        }
    }
    let shared = topo.edge_faces.values().any(|l| l.len() >= 2);
    if shared && topo.boundary_edges > 0 {
        cx.nontrivial();
    }
    cx.pass()
}

fn voxels(cells: &[(i32, i32, i32)]) -> Verdict {
    let mut cx = Ctx::new();
    cx.label("voxels");
    let set: HashSet<(i32, i32, i32)> = cells.iter().cloned().collect();
    let list: Vec<(i32, i32, i32)> = { let mut l: Vec<_> = set.iter().cloned().collect(); l.sort(); l };
    // union-find over 26-adjacency
    let index: BTreeMap<(i32, i32, i32), usize> = list.iter().enumerate().map(|(i, c)| (*c, i)).collect();
    let mut p: Vec<usize> = (0..list.len()).collect();
    for (i, c) in list.iter().enumerate() {
        for dx in -1..=1 {
            for dy in -1..=1 {
                for dz in -1..=1 {
                    if let Some(j) = index.get(&(c.0 + dx, c.1 + dy, c.2 + dz)) {
                        let (a, b) = (find(&mut p, i), find(&mut p, *j));
                        p[a] = b;
                    }
                }
            }
        }
    }
    let mut groups: BTreeMap<usize, BTreeSet<(i32, i32, i32)>> = BTreeMap::new();
    for i in 0..list.len() {
        let r = find(&mut p, i);
        groups.entry(r).or_default().insert(list[i]);
    }
    let expect: BTreeSet<BTreeSet<(i32, i32, i32)>> = groups.into_values().collect();
    for rep in 0..REPEATS {
        let s: HashSet<(i32, i32, i32)> = list.iter().cloned().collect();
        let got = match guarded(|| clusters_from_sparse(s)) {
            Ok(g) => g,
            Err(m) => return Verdict::fail("C12/clusters_from_sparse/panic", m),
        };
        let total: usize = got.iter().map(|c| c.len()).sum();
        ensure!(total == list.len(), "C12/clusters_from_sparse/not_a_partition", "{total} cells in clusters, {} in the input", list.len());
        let gs: BTreeSet<BTreeSet<(i32, i32, i32)>> = got.iter().map(|c| c.iter().cloned().collect()).collect();
        ensure!(gs.iter().map(|c| c.len()).sum::<usize>() == list.len(), "C12/clusters_from_sparse/duplicates", "a cell appears twice");
        ensure!(gs == expect, "C12/clusters_from_sparse/connectivity", "clusters (repetition {rep}) differ from 26-connected components: {} vs {} clusters", gs.len(), expect.len());
    }
    cx.label_if(!list.is_empty(), "hash_order_repeats");
    if expect.len() >= 2 {
        cx.nontrivial();
    }
    cx.pass()
}

fn chains(parts: &[(u8, bool)], seed: u64, extra: &[(u8, u8)]) -> Verdict {
    let mut cx = Ctx::new();
    cx.label("chains");
    // labels from a permutation so numbering carries no order
    let total: usize = parts.iter().map(|(l, c)| *l as usize + if *c { 0 } else { 1 }).sum::<usize>().max(1);
    let perm = permutation(total + 12, seed);
    let mut pairs: Vec<[u32; 2]> = vec![];
    let mut next = 0usize;
    let mut expect: Vec<Vec<u32>> = vec![];
    for (len, closed) in parts {
        let len = *len as usize;
        if *closed && len < 2 {
            continue;
        }
        let nverts = if *closed { len } else { len + 1 };
        let labels: Vec<u32> = (0..nverts).map(|i| perm[next + i] as u32 + 100).collect();
        next += nverts;
        for i in 0..len {
            pairs.push([labels[i], labels[(i + 1) % nverts]]);
        }
        expect.push(if *closed { let mut l = labels.clone(); l.push(labels[0]); l } else { labels });
    }
    let structured = extra.is_empty();
    for (a, b) in extra {
        pairs.push([*a as u32, *b as u32]);
    }
    if pairs.is_empty() {
        return Verdict::Discard("no pairs");
    }
    // shuffle
    let order = permutation(pairs.len(), seed ^ 0x77);
    let mut shuffled = vec![[0u32; 2]; pairs.len()];
    for (i, j) in order.iter().enumerate() {
        shuffled[*j] = pairs[i];
    }
    let got = match guarded(|| chained_indices(&shuffled)) {
        Ok(g) => g,
        Err(m) => return Verdict::fail("C12/chained_indices/panic", m),
    };
    // every input pair appears exactly once as a consecutive pair of exactly one chain
    let mut used: Vec<[u32; 2]> = vec![];
    for c in &got {
        ensure!(c.len() >= 2, "C12/chained_indices/short_chain", "chain {:?} has fewer than two entries", c);
        for w in c.windows(2) {
            used.push([w[0], w[1]]);
        }
    }
    let mut a = used.clone();
    a.sort();
    let mut b = shuffled.clone();
    b.sort();
    ensure!(a == b, "C12/chained_indices/pairs_exactly_once", "the chains {:?} use the pairs {:?}, the input pairs are {:?}", got, a, b);
    if structured {
        // on disjoint directed paths and cycles the chains are exactly the maximal paths / cycles
        ensure!(got.len() == expect.len(), "C12/chained_indices/maximal", "{} chains for {} disjoint paths/cycles: {:?}", got.len(), expect.len(), got);
        for e in &expect {
            let closed = e[0] == *e.last().unwrap();
            let ok = got.iter().any(|g| {
                if !closed {
                    g == e
                } else {
                    // a cycle may start anywhere
                    g.len() == e.len() && g[0] == *g.last().unwrap() && {
                        let n = e.len() - 1;
                        (0..n).any(|s| (0..=n).all(|i| g[i] == e[(s + i) % n]))
                    }
                }
            });
            ensure!(ok, "C12/chained_indices/maximal", "expected chain {:?} not among {:?}", e, got);
        }
    }
    if got.len() >= 2 {
        cx.nontrivial();
    }
    cx.pass()
}

fn primitive(m: Mesh, name: &'static str, steps: Option<usize>) -> Verdict {
    let mut cx = Ctx::new();
    cx.label(name);
    let v = m.vertices().to_vec();
    let f = m.faces().to_vec();
    let topo = Topo::of(v.len(), &f);
    ensure!(topo.manifold, format!("C12/create_{name}/manifold"), "an edge is shared by more than two faces");
    ensure!(topo.consistent, format!("C12/create_{name}/consistent_winding"), "two faces traverse a shared edge in the same direction (inconsistent winding)");
    // outward normals
    let centre = v.iter().fold(Point3::origin().coords, |a, p| a + p.coords) / v.len() as f64;
    for (i, t) in f.iter().enumerate() {
        let (a, b, c) = (v[t[0] as usize], v[t[1] as usize], v[t[2] as usize]);
        let n = (b - a).cross(&(c - a));
        let mid = (a.coords + b.coords + c.coords) / 3.0;
        let out = if name == "cylinder" { engeom::Vector3::new(mid.x, mid.y, 0.0) } else { mid - centre };
        ensure!(n.norm() > 0.0 && n.dot(&out) > 0.0, format!("C12/create_{name}/outward_normals"), "face {i} {:?} has its normal pointing inward", t);
    }
    if name == "box" {
        ensure!(topo.closed && f.len() == 12 && v.len() == 8, "C12/create_box/closed", "box is not a closed 12-face mesh");
    } else {
        let s = steps.unwrap();
        ensure!(f.len() == 2 * s && v.len() == 2 * s, "C12/create_cylinder/size", "cylinder with {s} steps has {} faces and {} vertices", f.len(), v.len());
        let e = match guarded(|| m.calc_edges().map(|e| e.boundary_loops.clone()).map_err(|e| e.to_string())) {
            Ok(Ok(l)) => l,
            Ok(Err(e)) => return Verdict::fail("C12/create_cylinder/calc_edges", e),
            Err(msg) => return Verdict::fail("C12/create_cylinder/calc_edges_panic", msg),
        };
        ensure!(e.len() == 2 && e.iter().all(|l| l.len() == s), "C12/create_cylinder/boundary_loops", "cylinder with {s} steps has loops of sizes {:?}", e.iter().map(|l| l.len()).collect::<Vec<_>>());
    }
    cx.nontrivial();
    cx.pass()
}
