//! C13 — Plane sections and splits of a mesh lie on the plane and on the surface

use crate::ensure;
use crate::fw::*;
use crate::gen::*;
use crate::gen_mesh::*;
use crate::oracle::{tri_area, Soup, P3 as Pt3};
use engeom::common::SplitResult;
use engeom::{Curve3, Mesh, Plane3, UnitVec3};
use proptest::prelude::*;
use serde::{Deserialize, Serialize};

pub struct C13;

#[derive(Clone, Debug, Serialize, Deserialize)]
pub enum Offset {
    /// fraction of the mesh extent along the normal (0..1 inside, outside misses)
    Fraction(f64),
    /// exactly through vertex i (robustness family)
    ThroughVertex(u16),
    /// exactly through three mesh vertices (the case normal is ignored): typically contains whole mesh edges
    ThroughThree(u16, u16, u16),
    /// containing mesh edge number e (in sorted order), turned about it by the angle
    ThroughEdge(u16, f64),
    /// exactly through vertex i with the normal of the surface there (mean of the adjacent face normals) tilted by the
    /// first angle in the azimuth of the second: at a saddle vertex four crossing segments meet in the vertex
    TangentAtVertex(u16, f64, f64),
}

#[derive(Clone, Debug, Serialize, Deserialize)]
pub struct Case {
    pub mesh: MeshSpec,
    pub normal: P3,
    pub offset: Offset,
    pub t: Iso3D,
    /// build the mesh flagged as a solid (only meaningful, and only done, for watertight meshes)
    #[serde(default)]
    pub solid: bool,
}

impl Property for C13 {
    type Case = Case;
    const ID: &'static str = "C13";
    fn rule() -> &'static str {
        "a case is a mesh (closed: boxes, prisms, octahedra, icospheres, tori; open: height-field grids, L-shapes, tubes, fans; shuffled numbering, any pose, one in five with one to three faces wound against their neighbours; one case in a few thousand is a height field of 260..330 squared vertices, checked with the linear-time clauses only) with a plane of any normal whose offset is a fraction of the mesh extent (inside, grazing, missing) or passes exactly through a vertex (robustness family: only no-panic and on-plane/on-surface are required), and a second isometry for the commutation clause. Generic planes keep every vertex at least 1e-4 of the mesh size from the plane. Oracle: harness face-plane crossing segments (each exactly once), exhaustive distance to the surface, closedness on watertight meshes, one loop with the polygon perimeter on convex solids, side/area bookkeeping for splits. Non-trivial: plane normal not axis-aligned in the mesh frame and at least 4 faces cut. Distinct = distinct canonical JSON."
    }
    fn cases(t: Tier) -> u32 {
        t.pick(240_000, 1_500_000)
    }
    fn isolated() -> Option<std::time::Duration> {
        // sectioning / splitting run inside a killable worker: a runaway allocation or loop in the
        // back end is reported with the case that caused it instead of taking the whole run down
        Some(std::time::Duration::from_secs(20))
    }
    fn expected_labels() -> Vec<&'static str> {
        vec!["closed_mesh", "open_mesh", "convex", "miss", "cut", "through_vertex", "split_pair", "split_one_side", "two_loops", "commutes", "exact_in_plane_edge", "exact_convex_loop", "through_saddle_vertex", "through_vertex_closed_checked", "mesh_above_65536_vertices", "faces_wound_against_neighbours"]
    }
    fn strategy(t: Tier) -> BoxedStrategy<Case> {
        let gmax = t.pick(8, 14);
        // one case in a few thousand is a height field with more than 65536 vertices (index arithmetic in 32 bits)
        let big = (260usize..=330, 260usize..=330, unif(4.0, 8.0), any::<u64>(), (unif(0.05, 0.4), unif(0.5, 2.0), unif(0.5, 2.0)))
            .prop_map(|(nx, ny, s, diag, (amp, fx, fy))| MeshKind::Grid { nx, ny, sx: s, sy: s, jitter: 0.2, diag, height: Height::Waves { amp, fx, fy } });
        // (the byte-level stage does not honour weights - coverage guidance would spend the whole campaign on the large
        // family - so it decodes the same strategy without it; run_fuzz.sh sets VERIF_BYTE_LEVEL for target and re-decision alike)
        let kind = if std::env::var("VERIF_BYTE_LEVEL").is_ok() { prop_oneof![3 => closed_kind(2), 2 => open_kind(gmax)].boxed() } else { prop_oneof![3000 => closed_kind(2), 2000 => open_kind(gmax), 1 => big].boxed() };
        (clean_mesh(kind, 10.0), unit3(), prop_oneof![8 => unif(-0.2, 1.2).prop_map(Offset::Fraction), 1 => any::<u16>().prop_map(Offset::ThroughVertex), 1 => (any::<u16>(), any::<u16>(), any::<u16>()).prop_map(|(a, b, c)| Offset::ThroughThree(a, b, c)), 1 => (any::<u16>(), unif(0.0, 3.1416)).prop_map(|(e, a)| Offset::ThroughEdge(e, a)), 1 => (any::<u16>(), prop_oneof![1 => Just(0.0), 2 => unif(0.0, 0.5)], unif(0.0, 6.2832)).prop_map(|(i, tilt, az)| Offset::TangentAtVertex(i, tilt, az))], iso3(10.0), any::<bool>())
            .prop_map(|(mut mesh, normal, offset, t, solid)| {
                mesh.flip_all = false;
                // one mesh in five has one to three faces wound against their neighbours (the face list says nothing about
                // which way a face is wound: sections and splits are about geometry); never flagged solid
                let s = mesh.shuffle;
                if s % 5 == 0 && s != 0 {
                    mesh.flips = (0..1 + (s >> 8) % 3).map(|k| ((s >> (16 + 12 * k)) & 0xffff) as u16).collect();
                }
                let solid = solid && mesh.flips.is_empty();
                Case { mesh, normal, offset, t, solid }
            })
            .boxed()
    }
    fn check(case: &Case) -> Verdict {
        check(case)
    }
}

fn margin_of(size: f64) -> f64 {
    1e-4 * size
}

fn is_convex_kind(k: &MeshKind) -> bool {
    matches!(k, MeshKind::Box { .. } | MeshKind::Octa { .. } | MeshKind::Ico { .. } | MeshKind::Prism { .. })
}

/// harness face-plane crossing segments for faces strictly straddling the plane
fn crossings(soup: &Soup, n: &crate::oracle::V3, d: f64) -> Vec<(Pt3, Pt3, usize)> {
    let mut out = vec![];
    for i in 0..soup.f.len() {
        let (a, b, c) = soup.tri(i);
        let pts = [a, b, c];
        let s: Vec<f64> = pts.iter().map(|p| n.dot(&p.coords) - d).collect();
        let mut xs = vec![];
        for k in 0..3 {
            let (p, q, sp, sq) = (pts[k], pts[(k + 1) % 3], s[k], s[(k + 1) % 3]);
            if (sp < 0.0 && sq > 0.0) || (sp > 0.0 && sq < 0.0) {
                let t = sp / (sp - sq);
                xs.push(p + (q - p) * t);
            }
        }
        if xs.len() == 2 {
            out.push((xs[0], xs[1], i));
        }
    }
    out
}

fn section_of(mesh: &Mesh, plane: &Plane3, tol: f64) -> Result<Vec<Curve3>, Failure> {
    match guarded(|| mesh.section(plane, Some(tol)).map_err(|e| e.to_string())) {
        Ok(Ok(c)) => Ok(c),
        Ok(Err(e)) => Err(failure("C13/section/error", e)),
        Err(m) => Err(failure("C13/section/panic", m)),
    }
}

fn check(case: &Case) -> Verdict {
    let mut cx = Ctx::new();
    let Some(bm) = case.mesh.build() else { return Verdict::Discard("empty mesh") };
    let soup = bm.soup();
    for i in 0..soup.f.len() {
        let (a, b, c) = soup.tri(i);
        let lmax = (b - a).norm().max((c - b).norm()).max((a - c).norm());
        if tri_area(&a, &b, &c) < 1e-6 * lmax * lmax {
            return Verdict::Discard("degenerate face");
        }
    }
    let size = soup.size();
    let scale = size + soup.max_abs();
    let tol = 1e-9 * scale;
    let mut n = v3(&case.normal).normalize();
    let mut exact = false;
    match &case.offset {
        Offset::ThroughThree(a, b, c) => {
            let (pa, pb, pc) = (soup.v[idx(*a, soup.v.len())], soup.v[idx(*b, soup.v.len())], soup.v[idx(*c, soup.v.len())]);
            let m = (pb - pa).cross(&(pc - pa));
            if m.norm() < 1e-3 * size * size {
                return Verdict::Discard("three chosen vertices are (nearly) collinear or repeated");
            }
            n = m.normalize();
            exact = true;
        }
        Offset::ThroughEdge(e, ang) => {
            let edges: Vec<(u32, u32)> = bm.topo.edge_faces.keys().cloned().collect();
            let (a, b) = edges[idx(*e, edges.len())];
            let dir = (soup.v[b as usize] - soup.v[a as usize]).normalize();
            let t = if dir.x.abs() < 0.9 { crate::oracle::V3::x() } else { crate::oracle::V3::y() };
            let p0 = dir.cross(&t).normalize();
            let p1 = dir.cross(&p0);
            n = (p0 * ang.cos() + p1 * ang.sin()).normalize();
            exact = true;
        }
        Offset::TangentAtVertex(i, tilt, az) => {
            let vi = idx(*i, soup.v.len()) as u32;
            let mut m = crate::oracle::V3::zeros();
            for k in 0..soup.f.len() {
                if soup.f[k].contains(&vi) {
                    let (a, b, c) = soup.tri(k);
                    m += (b - a).cross(&(c - a));
                }
            }
            if m.norm() < 1e-9 * size * size {
                return Verdict::Discard("vertex without a usable normal");
            }
            let m = m.normalize();
            let t = if m.x.abs() < 0.9 { crate::oracle::V3::x() } else { crate::oracle::V3::y() };
            let p0 = m.cross(&t).normalize();
            let p1 = m.cross(&p0);
            n = (m * tilt.cos() + (p0 * az.cos() + p1 * az.sin()) * tilt.sin()).normalize();
        }
        _ => {}
    }
    let proj: Vec<f64> = soup.v.iter().map(|p| n.dot(&p.coords)).collect();
    let (lo, hi) = (proj.iter().cloned().fold(f64::INFINITY, f64::min), proj.iter().cloned().fold(f64::NEG_INFINITY, f64::max));
    let (d, robust) = match &case.offset {
        Offset::Fraction(f) => (lo + f * (hi - lo), false),
        Offset::ThroughVertex(i) | Offset::TangentAtVertex(i, _, _) => (proj[idx(*i, proj.len())], true),
        Offset::ThroughThree(a, _, _) => (proj[idx(*a, proj.len())], false),
        Offset::ThroughEdge(e, _) => {
            let edges: Vec<(u32, u32)> = bm.topo.edge_faces.keys().cloned().collect();
            (proj[edges[idx(*e, edges.len())].0 as usize], false)
        }
    };
    if exact {
        return check_exact(cx, case, &bm, &soup, n, d, &proj);
    }
    // (a height field with tens of thousands of vertices always has one within 1e-4 of its size of any plane: there the margin
    // is ten times the library's absolute sectioning epsilon of 1e-6)
    let margin = if soup.f.len() > 50_000 { 1e-5f64.max(1e-6 * size) } else { 1e-4 * size };
    let generic = proj.iter().all(|p| (p - d).abs() >= margin);
    if !robust && !generic {
        return Verdict::Discard("plane within the margin of a vertex");
    }
    let plane = Plane3::new(UnitVec3::new_normalize(n), d);
    let mesh = bm.mesh(case.solid && bm.topo.closed);
    cx.label_if(case.solid && bm.topo.closed, "solid_flag");
    cx.label(if bm.topo.closed { "closed_mesh" } else { "open_mesh" });
    cx.label_if(!case.mesh.flips.is_empty(), "faces_wound_against_neighbours");
    let curve_tol = 1e-9 * size;
    // hazard class: the section of an open mesh that ends on the mesh boundary (an open chain of crossings)
    let open_chain = {
        let segs = crossings(&soup, &n, d);
        let mut deg: std::collections::BTreeMap<(u64, u64, u64), usize> = std::collections::BTreeMap::new();
        let key = |p: &Pt3| (((p.x / (1e-7 * scale)).round() as i64) as u64, ((p.y / (1e-7 * scale)).round() as i64) as u64, ((p.z / (1e-7 * scale)).round() as i64) as u64);
        for (a, b, _) in &segs {
            *deg.entry(key(a)).or_default() += 1;
            *deg.entry(key(b)).or_default() += 1;
        }
        deg.values().any(|c| *c == 1)
    };
    if open_chain && std::env::var("VERIF_C13_SKIP_OPEN").is_ok() {
        return Verdict::Discard("open chain (dev skip)");
    }
    cx.label_if(open_chain, "open_chain");
    let curves = match section_of(&mesh, &plane, curve_tol) {
        Ok(c) => c,
        Err(f) => return Verdict::Fail(f),
    };
    // meshes beyond 50 000 faces take the cheap clauses only (the exhaustive on-surface scan is quadratic): every vertex on the
    // plane, as many curve edges as faces crossed, and the total length equal to the sum of the face crossings
    if soup.f.len() > 50_000 {
        cx.label("mesh_above_65536_vertices");
        for (ci, c) in curves.iter().enumerate() {
            for (vi, p) in c.points().iter().enumerate() {
                let sd = plane.signed_distance_to_point(p);
                // as below: vertices within the sectioning epsilon (1e-6, absolute) of the plane are taken as lying on it
                let ptol = if robust { (1e-8 * scale).max(2e-6) } else { 1e-8 * scale };
                ensure!(sd.abs() <= ptol, "C13/section/vertex_off_plane", "curve {ci} vertex {vi} is {sd:e} from the plane");
            }
        }
        if !robust {
            let segs = crossings(&soup, &n, d);
            let nedges: usize = curves.iter().map(|c| c.points().len() - 1).sum();
            ensure!(nedges == segs.len(), "C13/section/crossing_segments_exactly_once", "{} face crossings but {nedges} curve edges", segs.len());
            let total: f64 = curves.iter().map(|c| c.length()).sum();
            let per: f64 = segs.iter().map(|(a, b, _)| (a - b).norm()).sum();
            ensure!((total - per).abs() <= 1e-8 * scale * (1.0 + segs.len() as f64 * 1e-3), "C13/section/total_length", "total curve length {total:e}, sum of face crossings {per:e}");
        }
        cx.nontrivial();
        return cx.pass();
    }
    // (a) on the plane and on the surface
    for (ci, c) in curves.iter().enumerate() {
        for (vi, p) in c.points().iter().enumerate() {
            let sd = plane.signed_distance_to_point(p);
            // vertices within the sectioning epsilon (1e-6, absolute) of the plane are taken as lying on it
            let ptol = if robust { (1e-8 * scale).max(2e-6) } else { 1e-8 * scale };
            ensure!(sd.abs() <= ptol, "C13/section/vertex_off_plane", "curve {ci} vertex {vi} is {sd:e} from the plane");
            let dm = soup.closest(p).0;
            ensure!(dm <= 1e-8 * scale, "C13/section/vertex_off_surface", "curve {ci} vertex {vi} is {dm:e} from the mesh surface");
        }
    }
    if robust {
        cx.label("through_vertex");
        // how many crossing segments of strictly straddling faces end in the chosen vertex: four or more at a saddle
        if let Offset::ThroughVertex(i) | Offset::TangentAtVertex(i, _, _) = &case.offset {
            let v = soup.v[idx(*i, soup.v.len())];
            let ring = soup.f.iter().filter(|t| t.contains(&(idx(*i, soup.v.len()) as u32))).filter(|t| { let s: Vec<f64> = t.iter().map(|k| proj[*k as usize] - d).collect(); s.iter().any(|x| *x > margin_of(size)) && s.iter().any(|x| *x < -margin_of(size)) }).count();
            let _ = v;
            cx.label_if(ring >= 4, "through_saddle_vertex");
        }
        // "for a watertight mesh every section curve is closed" has no exception for planes through a vertex
        // (asserted when that vertex is the only one within the margin of the plane - no in-plane edge, no grazing contact
        // along an edge or face - and the plane has mesh on both sides)
        let on_plane = proj.iter().filter(|p| (*p - d).abs() < margin).count();
        let two_sided = proj.iter().any(|p| *p - d >= margin) && proj.iter().any(|p| *p - d <= -margin);
        if bm.topo.closed && bm.topo.manifold && !bm.topo.vertex_only_contact && on_plane == 1 && two_sided {
            cx.label("through_vertex_closed_checked");
            for (ci, c) in curves.iter().enumerate() {
                let p = c.points();
                let gap = (p[0] - p[p.len() - 1]).norm();
                ensure!(gap <= (1e-8 * scale).max(4e-6), "C13/section/open_curve_on_watertight_mesh/through_vertex", "plane through a vertex: curve {ci} of {} on a watertight mesh is open, ends {gap:e} apart ({} points)", curves.len(), p.len());
            }
        }
        // splitting must not panic either
        if let Err(m) = guarded(|| mesh.split(&plane)) {
            return Verdict::fail("C13/split/panic", m);
        }
        return cx.pass();
    }
    let segs = crossings(&soup, &n, d);
    if segs.is_empty() {
        cx.label("miss");
        ensure!(curves.is_empty(), "C13/section/curves_without_crossing", "{} curves returned although no face crosses the plane", curves.len());
    } else {
        cx.label("cut");
        ensure!(!curves.is_empty(), "C13/section/no_curves", "{} faces cross the plane but no curve was returned", segs.len());
        // (b)+(c) every curve edge is a crossing segment of one face, every crossing segment is used exactly once
        let mut used = vec![0usize; segs.len()];
        let mut nedges = 0;
        for (ci, c) in curves.iter().enumerate() {
            for w in c.points().windows(2) {
                nedges += 1;
                let hit = segs.iter().position(|(a, b, _)| ((a - w[0]).norm() <= 1e-8 * scale && (b - w[1]).norm() <= 1e-8 * scale) || ((a - w[1]).norm() <= 1e-8 * scale && (b - w[0]).norm() <= 1e-8 * scale));
                match hit {
                    Some(k) => used[k] += 1,
                    None => {
                        return Verdict::fail("C13/section/edge_not_a_face_crossing", format!("curve {ci} has an edge {:?} -> {:?} that is not the crossing segment of any single face", w[0], w[1]));
                    }
                }
            }
        }
        let min_seg = segs.iter().map(|(a, b, _)| (a - b).norm()).fold(f64::INFINITY, f64::min);
        if min_seg > 10.0 * curve_tol {
            ensure!(used.iter().all(|u| *u == 1), "C13/section/crossing_segments_exactly_once", "{} face crossings, usage counts {:?} ({} curve edges)", segs.len(), used, nedges);
        }
        // (d) closedness and convex perimeter
        if bm.topo.closed {
            for (ci, c) in curves.iter().enumerate() {
                let p = c.points();
                ensure!((p[0] - p[p.len() - 1]).norm() <= 1e-8 * scale, "C13/section/open_curve_on_watertight_mesh", "curve {ci} of a watertight mesh is open: ends {:e} apart", (p[0] - p[p.len() - 1]).norm());
            }
            if is_convex_kind(&case.mesh.kind) && case.mesh.extra.is_none() {
                cx.label("convex");
                ensure!(curves.len() == 1, "C13/section/convex_one_loop", "{} loops on a convex solid", curves.len());
                let per: f64 = segs.iter().map(|(a, b, _)| (a - b).norm()).sum();
                ensure!((curves[0].length() - per).abs() <= 1e-8 * scale, "C13/section/convex_perimeter", "loop length {:e}, polygon perimeter {per:e}", curves[0].length());
            }
            cx.label_if(curves.len() >= 2, "two_loops");
        }
        let total: f64 = curves.iter().map(|c| c.length()).sum();
        let per: f64 = segs.iter().map(|(a, b, _)| (a - b).norm()).sum();
        ensure!((total - per).abs() <= 1e-8 * scale * (1.0 + segs.len() as f64 * 1e-3), "C13/section/total_length", "total curve length {total:e}, sum of face crossings {per:e}");
    }
    // (e) split
    let area = soup.area();
    let below = proj.iter().all(|p| *p < d);
    let above = proj.iter().all(|p| *p > d);
    // the same plane with its normal inverted (Plane3::inverted_normal) is the same set of points: the same section, and
    // the two sides exchanged
    {
        let inv = plane.inverted_normal();
        let icurves = match section_of(&mesh, &inv, curve_tol) {
            Ok(c) => c,
            Err(mut f) => {
                f.sig = format!("{}/inverted_plane", f.sig);
                return Verdict::Fail(f);
            }
        };
        for c in &icurves {
            for p in c.points() {
                let sd = plane.signed_distance_to_point(p);
                ensure!(sd.abs() <= 1e-6 + 1e-8 * scale, "C13/section/inverted_plane/on_plane", "a vertex of the section by the inverted plane is {sd:e} from the plane");
            }
        }
        let (t0, t1): (f64, f64) = (curves.iter().map(|c| c.length()).sum(), icurves.iter().map(|c| c.length()).sum());
        ensure!((t0 - t1).abs() <= 1e-8 * scale * (1.0 + soup.f.len() as f64 * 1e-3) + 4.0 * curve_tol * (curves.len() + icurves.len()) as f64, "C13/section/inverted_plane/length", "total section length {t0:e} with the plane, {t1:e} with its inverted copy");
        match guarded(|| mesh.split(&inv)) {
            Err(m) => return Verdict::fail("C13/split/inverted_plane/panic", m),
            Ok(SplitResult::Negative) => ensure!(above, "C13/split/inverted_plane/side", "split by the inverted plane reports the mesh wholly on its negative side, but not every vertex is on the positive side of the plane"),
            Ok(SplitResult::Positive) => ensure!(below, "C13/split/inverted_plane/side", "split by the inverted plane reports the mesh wholly on its positive side, but not every vertex is on the negative side of the plane"),
            Ok(SplitResult::Pair(_, _)) => ensure!(!below && !above, "C13/split/inverted_plane/side", "split by the inverted plane produced two meshes although all vertices are on one side"),
        }
        cx.label("inverted_plane");
    }
    match guarded(|| mesh.split(&plane)) {
        Err(m) => return Verdict::fail("C13/split/panic", m),
        Ok(SplitResult::Negative) => {
            ensure!(below, "C13/split/negative_but_not_all_below", "split reports the mesh wholly on the negative side but some vertices are above");
            cx.label("split_one_side");
        }
        Ok(SplitResult::Positive) => {
            ensure!(above, "C13/split/positive_but_not_all_above", "split reports the mesh wholly on the positive side but some vertices are below");
            cx.label("split_one_side");
        }
        Ok(SplitResult::Pair(a, b)) => {
            ensure!(!below && !above, "C13/split/pair_but_one_sided", "split produced two meshes although all vertices are on one side");
            let eps = 1e-6 * size.max(1.0);
            for p in a.vertices() {
                let s = plane.signed_distance_to_point(p);
                ensure!(s <= eps, "C13/split/first_piece_side", "a vertex of the first (negative-side) piece is at signed distance {s:e}");
            }
            for p in b.vertices() {
                let s = plane.signed_distance_to_point(p);
                ensure!(s >= -eps, "C13/split/second_piece_side", "a vertex of the second (positive-side) piece is at signed distance {s:e}");
            }
            let ar = |m: &Mesh| Soup { v: m.vertices().to_vec(), f: m.faces().to_vec() }.area();
            let (aa, ab) = (ar(&a), ar(&b));
            ensure!((aa + ab - area).abs() <= 1e-8 * area.max(1e-12) + 1e-9, "C13/split/areas_sum", "piece areas {aa:e} + {ab:e} != {area:e}");
            // (whether the open pieces carry the parent's solid flag is not part of the property; it is only recorded)
            cx.label_if(a.is_solid() || b.is_solid(), "split_piece_flagged_solid");
            // each piece's vertices lie on the original surface
            for m in [&a, &b] {
                for p in m.vertices().iter().take(40) {
                    ensure!(soup.closest(p).0 <= 1e-8 * scale, "C13/split/vertex_off_surface", "a split-piece vertex is {:e} from the original surface", soup.closest(p).0);
                }
            }
            cx.label("split_pair");
            // second level: each piece is a mesh in its own right (an open shell: the cut is not capped); its section by
            // a plane ACROSS the first cut must lie on the plane and on the piece, every curve edge running across one
            // face of the piece (its midpoint is on the piece's surface)
            let t0 = if n.x.abs() < 0.9 { crate::oracle::V3::x() } else { crate::oracle::V3::y() };
            let n2 = n.cross(&t0).normalize();
            let cen = soup.v.iter().fold(crate::oracle::V3::zeros(), |s, p| s + p.coords) / soup.v.len() as f64;
            let plane2 = Plane3::new(UnitVec3::new_normalize(n2), n2.dot(&cen) + 0.013 * size);
            for (who, piece) in [("negative", &a), ("positive", &b)] {
                let ps = Soup { v: piece.vertices().to_vec(), f: piece.faces().to_vec() };
                if ps.f.is_empty() {
                    continue;
                }
                let curves2 = match section_of(piece, &plane2, curve_tol) {
                    Ok(c) => c,
                    Err(f) => return Verdict::Fail(f),
                };
                for c in &curves2 {
                    let pts = c.points();
                    for p in pts {
                        ensure!(plane2.signed_distance_to_point(p).abs() <= (1e-8 * scale).max(2e-6), "C13/piece_section/vertex_off_plane", "section of the {who} piece: a vertex is {:e} from the plane", plane2.signed_distance_to_point(p));
                        ensure!(ps.closest(p).0 <= 1e-8 * scale, "C13/piece_section/vertex_off_piece", "section of the {who} piece: a vertex is {:e} from the piece", ps.closest(p).0);
                    }
                    for w in pts.windows(2) {
                        let mid = w[0] + (w[1] - w[0]) * 0.5;
                        ensure!(ps.closest(&mid).0 <= 1e-7 * scale, "C13/piece_section/edge_not_across_a_face", "section of the {who} piece: the middle of a curve edge is {:e} from the piece (the edge does not run across one of its faces)", ps.closest(&mid).0);
                    }
                }
                cx.label("piece_section");
            }
        }
    }
    // (f) commutes with a rigid motion of mesh and plane together
    let iso = case.t.to_iso();
    // the object that has just been sectioned and split is the one that is moved (a clone of it: whatever it remembers
    // from the earlier queries travels with it)
    let mut moved = mesh.clone();
    moved.transform(&iso);
    let mplane = plane.transform_by(&iso);
    let mcurves = match section_of(&moved, &mplane, curve_tol) {
        Ok(c) => c,
        Err(f) => return Verdict::Fail(f),
    };
    ensure!(mcurves.len() == curves.len(), "C13/section/commute/count", "{} curves before, {} after moving mesh and plane together", curves.len(), mcurves.len());
    let (l0, l1): (f64, f64) = (curves.iter().map(|c| c.length()).sum(), mcurves.iter().map(|c| c.length()).sum());
    let mscale = scale + iso.translation.vector.norm();
    ensure!((l0 - l1).abs() <= 1e-8 * mscale, "C13/section/commute/length", "total length {l0:e} before, {l1:e} after");
    let inv = iso.inverse();
    let polys: Vec<crate::oracle::Poly<3>> = curves.iter().map(|c| crate::oracle::Poly::new(c.points().to_vec())).collect();
    for c in &mcurves {
        for p in c.points() {
            let q = inv * p;
            let dmin = polys.iter().map(|pl| pl.dist_to(&q)).fold(f64::INFINITY, f64::min);
            ensure!(dmin <= 1e-7 * mscale, "C13/section/commute/points", "a vertex of the moved section is {dmin:e} from the original section");
        }
    }
    cx.label("commutes");
    let axis_aligned = {
        let local = case.mesh.pose.to_iso().inverse().rotation * n;
        local.iter().filter(|c| c.abs() > 1e-3).count() <= 1
    };
    if !axis_aligned && segs.len() >= 4 {
        cx.nontrivial();
    }
    cx.pass()
}


/// Planes that contain mesh vertices and whole mesh edges exactly.  Every vertex is either on the plane (by
/// construction, to rounding) or clearly off it, so the classification the sectioning makes with its 1e-6 epsilon
/// is unambiguous; faces lying in the plane make the section itself ambiguous and are discarded.
fn check_exact(mut cx: Ctx, case: &Case, bm: &BuiltMesh, soup: &Soup, n: crate::oracle::V3, d: f64, proj: &[f64]) -> Verdict {
    let size = soup.size();
    let scale = size + soup.max_abs();
    let on_tol = 1e-9 * scale;
    if on_tol > 5e-7 {
        return Verdict::Discard("mesh too large for the absolute sectioning epsilon");
    }
    let mut side = vec![0i8; proj.len()];
    for (i, p) in proj.iter().enumerate() {
        let s = p - d;
        if s.abs() <= on_tol {
            side[i] = 0;
        } else if s.abs() >= (1e-4 * size).max(1e-5) {
            side[i] = if s > 0.0 { 1 } else { -1 };
        } else {
            return Verdict::Discard("a vertex is neither on the plane nor clearly off it");
        }
    }
    if !side.iter().any(|s| *s > 0) || !side.iter().any(|s| *s < 0) {
        return Verdict::Discard("exact plane does not separate the vertices (supporting plane)");
    }
    // expected segments, per face, from the vertex classification; geometric de-duplication of shared in-plane edges
    let mut expected: Vec<(Pt3, Pt3)> = vec![];
    let mut in_plane_edges = 0;
    for f in &soup.f {
        let ids = [f[0] as usize, f[1] as usize, f[2] as usize];
        let on = ids.iter().filter(|i| side[**i] == 0).count();
        if on == 3 {
            return Verdict::Discard("a face lies in the plane");
        }
        let mut hits: Vec<Pt3> = vec![];
        for k in 0..3 {
            let (a, b) = (ids[k], ids[(k + 1) % 3]);
            if side[a] == 0 {
                hits.push(soup.v[a]);
            } else if side[a] * side[b] < 0 {
                let (sa, sb) = (proj[a] - d, proj[b] - d);
                hits.push(soup.v[a] + (soup.v[b] - soup.v[a]) * (sa / (sa - sb)));
            }
        }
        if hits.len() == 2 && (hits[0] - hits[1]).norm() > 1e-7 * scale {
            if on == 2 {
                in_plane_edges += 1;
            }
            let dup = expected.iter().any(|(a, b)| ((a - hits[0]).norm() <= 1e-8 * scale && (b - hits[1]).norm() <= 1e-8 * scale) || ((a - hits[1]).norm() <= 1e-8 * scale && (b - hits[0]).norm() <= 1e-8 * scale));
            if !dup {
                expected.push((hits[0], hits[1]));
            }
        }
    }
    if expected.is_empty() {
        return Verdict::Discard("no segment expected");
    }
    let min_seg = expected.iter().map(|(a, b)| (a - b).norm()).fold(f64::INFINITY, f64::min);
    let curve_tol = 1e-9 * size;
    if min_seg <= 100.0 * curve_tol {
        return Verdict::Discard("a crossing segment is shorter than the curve tolerance");
    }
    cx.label_if(in_plane_edges > 0, "exact_in_plane_edge");
    cx.label(if bm.topo.closed { "closed_mesh" } else { "open_mesh" });
    let plane = Plane3::new(UnitVec3::new_normalize(n), d);
    let mesh = bm.mesh(false);
    let curves = match section_of(&mesh, &plane, curve_tol) {
        Ok(c) => c,
        Err(f) => return Verdict::Fail(f),
    };
    for (ci, c) in curves.iter().enumerate() {
        for (vi, p) in c.points().iter().enumerate() {
            let sd = plane.signed_distance_to_point(p);
            ensure!(sd.abs() <= 1e-8 * scale, "C13/section/exact/vertex_off_plane", "curve {ci} vertex {vi} is {sd:e} from the plane");
            let dm = soup.closest(p).0;
            ensure!(dm <= 1e-8 * scale, "C13/section/exact/vertex_off_surface", "curve {ci} vertex {vi} is {dm:e} from the mesh surface");
        }
    }
    let mut used = vec![0usize; expected.len()];
    for (ci, c) in curves.iter().enumerate() {
        for w in c.points().windows(2) {
            let hit = expected.iter().position(|(a, b)| ((a - w[0]).norm() <= 1e-8 * scale && (b - w[1]).norm() <= 1e-8 * scale) || ((a - w[1]).norm() <= 1e-8 * scale && (b - w[0]).norm() <= 1e-8 * scale));
            match hit {
                Some(k) => used[k] += 1,
                None => return Verdict::fail("C13/section/exact/edge_not_a_face_crossing", format!("curve {ci} has an edge {:?} -> {:?} that is not the crossing segment of any face (plane through mesh vertices)", w[0], w[1])),
            }
        }
    }
    ensure!(used.iter().all(|u| *u == 1), "C13/section/exact/crossing_segments_exactly_once", "{} distinct face crossings ({in_plane_edges} face sides lying in the plane), usage counts {:?}", expected.len(), used);
    if bm.topo.closed && is_convex_kind(&case.mesh.kind) && case.mesh.extra.is_none() {
        cx.label("exact_convex_loop");
        ensure!(curves.len() == 1, "C13/section/exact/convex_one_loop", "{} curves on a convex solid cut through its vertices", curves.len());
        let p = curves[0].points();
        ensure!((p[0] - p[p.len() - 1]).norm() <= 1e-8 * scale, "C13/section/exact/open_curve_on_watertight_mesh", "the section loop of a convex solid is open: ends {:e} apart", (p[0] - p[p.len() - 1]).norm());
        // independent perimeter: convex hull, in the plane, of all crossing points
        let t = if n.x.abs() < 0.9 { crate::oracle::V3::x() } else { crate::oracle::V3::y() };
        let (e0, e1) = (n.cross(&t).normalize(), n.cross(&n.cross(&t).normalize()));
        let mut pts2: Vec<(f64, f64)> = expected.iter().flat_map(|(a, b)| [*a, *b]).map(|q| (q.coords.dot(&e0), q.coords.dot(&e1))).collect();
        pts2.sort_by(|a, b| a.partial_cmp(b).unwrap());
        let cr = |o: (f64, f64), a: (f64, f64), b: (f64, f64)| (a.0 - o.0) * (b.1 - o.1) - (a.1 - o.1) * (b.0 - o.0);
        let mut hull: Vec<(f64, f64)> = vec![];
        for pass in 0..2 {
            let start = hull.len();
            let it: Vec<(f64, f64)> = if pass == 0 { pts2.clone() } else { pts2.iter().rev().cloned().collect() };
            for q in it {
                while hull.len() >= start + 2 && cr(hull[hull.len() - 2], hull[hull.len() - 1], q) <= 0.0 {
                    hull.pop();
                }
                hull.push(q);
            }
            hull.pop();
        }
        let per: f64 = (0..hull.len()).map(|i| ((hull[i].0 - hull[(i + 1) % hull.len()].0).powi(2) + (hull[i].1 - hull[(i + 1) % hull.len()].1).powi(2)).sqrt()).sum();
        ensure!((curves[0].length() - per).abs() <= 1e-7 * scale, "C13/section/exact/convex_perimeter", "loop length {:e}, perimeter of the convex cross-section {per:e}", curves[0].length());
    }
    // moving mesh and plane together changes neither the number of curves nor their total length
    let iso = case.t.to_iso();
    // the object that has just been sectioned and split is the one that is moved (a clone of it: whatever it remembers
    // from the earlier queries travels with it)
    let mut moved = mesh.clone();
    moved.transform(&iso);
    let mplane = plane.transform_by(&iso);
    let mcurves = match section_of(&moved, &mplane, curve_tol) {
        Ok(c) => c,
        Err(f) => return Verdict::Fail(f),
    };
    let (l0, l1): (f64, f64) = (curves.iter().map(|c| c.length()).sum(), mcurves.iter().map(|c| c.length()).sum());
    let mscale = scale + iso.translation.vector.norm();
    if 1e-9 * mscale <= 5e-7 {
        ensure!((l0 - l1).abs() <= 1e-7 * mscale, "C13/section/exact/commute/length", "total length {l0:e} before, {l1:e} after moving mesh and plane together");
    }
    if let Err(m) = guarded(|| mesh.split(&plane)) {
        return Verdict::fail("C13/split/panic", m);
    }
    if in_plane_edges > 0 && expected.len() >= 3 {
        cx.nontrivial();
    }
    cx.pass()
}
