//! C14 — Mesh face selection is set algebra over a per-face predicate

use crate::ensure;
use crate::fw::*;
use crate::gen::*;
use crate::gen_mesh::*;
use crate::oracle::{tri_normal, Soup};
use engeom::common::{SelectOp, Selection};
use engeom::{Point3, Vector3};
use proptest::prelude::*;
use serde::{Deserialize, Serialize};
use std::collections::BTreeSet;
use std::f64::consts::PI;

pub struct C14;

#[derive(Clone, Copy, Debug, Serialize, Deserialize, PartialEq)]
pub enum Op {
    Add,
    Remove,
    Keep,
}

#[derive(Clone, Debug, Serialize, Deserialize)]
pub enum Criterion {
    Facing { dir: P3, angle: f64 },
    NearMesh { all_points: bool, dist: f64, planar: Option<f64>, angle: Option<f64> },
    /// facing the direction of the (unnormalised, rescaled, possibly reversed) normal of one of the mesh's own faces:
    /// exactly parallel to that face's normal
    FacingFace { face: u16, len: f64, reverse: bool, angle: f64 },
}

#[derive(Clone, Debug, Serialize, Deserialize)]
pub enum Start {
    None,
    All,
    Indices(Vec<u16>),
}

#[derive(Clone, Debug, Serialize, Deserialize)]
pub struct Case {
    pub mesh: MeshSpec,
    pub reference: MeshSpec,
    pub start: Start,
    pub steps: Vec<(Criterion, Op)>,
    /// vertices no face references, each inserted at a position of the vertex list (face indices shift accordingly)
    #[serde(default)]
    pub orphans: Vec<(u16, P3)>,
    /// zero-area faces [a, a, b] over existing vertices, each inserted at a position of the face list
    #[serde(default)]
    pub slivers: Vec<(u16, u16, u16)>,
    /// additionally run the whole chain with the mesh itself as the reference, once as the same object and once as a clone
    #[serde(default)]
    pub self_ref: bool,
}

const REPEATS: usize = 6;

fn criterion() -> BoxedStrategy<Criterion> {
    prop_oneof![
        // the direction is any non-zero vector, not necessarily of unit length: only its direction may matter
        2 => (unit3(), prop_oneof![1 => Just(1.0), 1 => logu(-3.0, 3.0)], unif(0.05, PI)).prop_map(|(d, l, angle)| Criterion::Facing { dir: [d[0] * l, d[1] * l, d[2] * l], angle }),
        5 => (any::<bool>(), logu(-1.3, 0.5), prop::option::of(logu(-1.5, 0.3)), prop::option::of(unif(0.05, 2.0))).prop_map(|(all_points, dist, planar, angle)| Criterion::NearMesh { all_points, dist, planar, angle }),
        1 => (any::<u16>(), prop_oneof![1 => Just(1.0), 1 => logu(-3.0, 3.0)], any::<bool>(), unif(0.05, PI)).prop_map(|(face, len, reverse, angle)| Criterion::FacingFace { face, len, reverse, angle }),
    ]
    .boxed()
}

impl Property for C14 {
    type Case = Case;
    const ID: &'static str = "C14";
    fn rule() -> &'static str {
        "a case is a history: a mesh (grids with creases/waves, L-shapes, tubes, fans, boxes, prisms, icospheres; adjacent faces share vertices but differ in normal), a reference mesh posed nearby (offset copies, tilted planes, partial overlaps), a quarter of the meshes carrying 1-3 vertices that no face references, a fifth carrying 1-3 zero-area faces (a repeated vertex index), a starting selection (none / all / arbitrary index set) and 1-5 steps of (facing a free direction or exactly the normal direction of one of the mesh's own faces | near-mesh with distance, optional planar and optional angle tolerance, all-vertices or any-vertex) x (Add | Remove | Keep). Model: each face's predicate is evaluated from scratch by the harness (own closest-point scan; three-valued with a 1e-9 don't-care band) and combined by set union / difference / intersection; the library result is compared after every step and recomputed 6 times (hash order). Non-trivial: >=2 steps, at least one near-mesh step with an angle tolerance, and the selection changes in >=2 steps. Distinct = distinct canonical JSON."
    }
    fn cases(t: Tier) -> u32 {
        t.pick(240_000, 1_000_000)
    }
    fn expected_labels() -> Vec<&'static str> {
        vec!["start_none", "start_all", "start_indices", "facing", "near", "near_angle", "near_planar", "all_points", "any_point", "add", "remove", "keep", "create_mesh", "changed>=2", "unreferenced_vertices", "zero_area_faces", "facing_own_face_normal", "self_reference"]
    }
    fn strategy(t: Tier) -> BoxedStrategy<Case> {
        let gmax = t.pick(6, 10);
        let target = prop_oneof![3 => open_kind(gmax), 2 => closed_kind(1)].boxed();
        let reference = prop_oneof![3 => grid_kind(6, false), 1 => closed_kind(1)].boxed();
        (clean_mesh(target, 1.5), clean_mesh(reference, 1.0), prop_oneof![Just(Start::None), Just(Start::All), prop::collection::vec(any::<u16>(), 0..12).prop_map(Start::Indices)], prop::collection::vec((criterion(), prop::sample::select(vec![Op::Add, Op::Remove, Op::Keep])), 1..6), prop_oneof![3 => Just(vec![]), 1 => prop::collection::vec((any::<u16>(), p3(3.0)), 1..4)], prop_oneof![4 => Just(vec![]), 1 => prop::collection::vec((any::<u16>(), any::<u16>(), any::<u16>()), 1..4)], prop::bool::weighted(0.25))
            .prop_map(|(mesh, reference, start, steps, orphans, slivers, self_ref)| Case { mesh, reference, start, steps, orphans, slivers, self_ref })
            .boxed()
    }
    fn check(case: &Case) -> Verdict {
        check(case)
    }
}

#[derive(Clone, Copy, PartialEq, Debug)]
enum Tri {
    T,
    F,
    U,
}

fn and3(v: &[Tri]) -> Tri {
    if v.contains(&Tri::F) {
        Tri::F
    } else if v.contains(&Tri::U) {
        Tri::U
    } else {
        Tri::T
    }
}
fn or3(v: &[Tri]) -> Tri {
    if v.contains(&Tri::T) {
        Tri::T
    } else if v.contains(&Tri::U) {
        Tri::U
    } else {
        Tri::F
    }
}

fn cmp_band(x: f64, limit: f64, band: f64, strict: bool) -> Tri {
    if (x - limit).abs() <= band {
        Tri::U
    } else if (strict && x < limit) || (!strict && x <= limit) {
        Tri::T
    } else {
        Tri::F
    }
}

/// per-face predicate evaluated from scratch
fn predicate(c: &Criterion, msoup: &Soup, rsoup: &Soup, scale: f64) -> Vec<Tri> {
    let band = 1e-9 * scale;
    let nf = msoup.f.len();
    match c {
        Criterion::FacingFace { .. } => unreachable!("resolved to Facing before evaluation"),
        Criterion::Facing { dir, angle } => (0..nf)
            .map(|i| {
                let (a, b, cc) = msoup.tri(i);
                match tri_normal(&a, &b, &cc) {
                    Some(n) => cmp_band(n.angle(&v3(dir)), *angle, 1e-9, true),
                    None => Tri::F,
                }
            })
            .collect(),
        Criterion::NearMesh { all_points, dist, planar, angle } => {
            // vertex-dependent part: distance, and per candidate reference face: planar ok + reference normal
            (0..nf)
                .map(|i| {
                    let (a, b, cc) = msoup.tri(i);
                    let fnorm = tri_normal(&a, &b, &cc);
                    let verdicts: Vec<Tri> = [a, b, cc]
                        .iter()
                        .map(|p| {
                            let (dstar, q, _) = rsoup.closest(p);
                            let dv = cmp_band(dstar, *dist, band, false);
                            if dv == Tri::F {
                                return Tri::F;
                            }
                            if planar.is_none() && angle.is_none() {
                                return dv;
                            }
                            // candidate reference faces: attain the optimum (the returned face may be any of them)
                            let cands: Vec<usize> = (0..rsoup.f.len()).filter(|k| rsoup.dist_to_face(*k, p) <= dstar + band).collect();
                            let mut res: Vec<Tri> = vec![];
                            for k in cands {
                                let (ra, rb, rc) = rsoup.tri(k);
                                let Some(rn) = tri_normal(&ra, &rb, &rc) else {
                                    res.push(Tri::F);
                                    continue;
                                };
                                let foot = crate::oracle::closest_on_triangle(p, &ra, &rb, &rc);
                                let w = p - foot;
                                let lateral = (w - rn * rn.dot(&w)).norm();
                                let pv = match planar {
                                    Some(t) => cmp_band(lateral, *t, band, false),
                                    None => Tri::T,
                                };
                                let av = match angle {
                                    Some(t) => match fnorm {
                                        Some(fnv) => cmp_band(fnv.angle(&rn), *t, 1e-9, false),
                                        None => Tri::F,
                                    },
                                    None => Tri::T,
                                };
                                res.push(and3(&[pv, av]));
                                let _ = q;
                            }
                            let combined = if res.iter().all(|r| *r == res[0]) { res[0] } else { Tri::U };
                            and3(&[dv, combined])
                        })
                        .collect();
                    if *all_points {
                        and3(&verdicts)
                    } else {
                        or3(&verdicts)
                    }
                })
                .collect()
        }
    }
}

fn to_selectop(o: Op) -> SelectOp {
    match o {
        Op::Add => SelectOp::Add,
        Op::Remove => SelectOp::Remove,
        Op::Keep => SelectOp::Keep,
    }
}

fn check(case: &Case) -> Verdict {
    let mut cx = Ctx::new();
    let (Some(mut bm), Some(br)) = (case.mesh.build(), case.reference.build()) else { return Verdict::Discard("empty mesh") };
    for (pos, p) in &case.orphans {
        let k = idx(*pos, bm.v.len() + 1);
        bm.v.insert(k, pt3(p));
        for f in bm.f.iter_mut() {
            for i in f.iter_mut() {
                if *i as usize >= k {
                    *i += 1;
                }
            }
        }
    }
    cx.label_if(!case.orphans.is_empty(), "unreferenced_vertices");
    let (msoup, rsoup) = (bm.soup(), br.soup());
    for s in [&msoup, &rsoup] {
        for i in 0..s.f.len() {
            let (a, b, c) = s.tri(i);
            let lmax = (b - a).norm().max((c - b).norm()).max((a - c).norm());
            if crate::oracle::tri_area(&a, &b, &c) < 1e-6 * lmax * lmax {
                return Verdict::Discard("degenerate face");
            }
        }
    }
    // zero-area faces (a repeated vertex index) are legal members of a mesh: they have no normal, so they face no
    // direction and pass no angle test, but distance and planar tolerances are about their vertices and apply as usual
    for (pos, a, b) in &case.slivers {
        let nv = bm.v.len();
        let (a, b) = (idx(*a, nv) as u32, idx(*b, nv) as u32);
        if a != b {
            let k = idx(*pos, bm.f.len() + 1);
            bm.f.insert(k, [a, a, b]);
        }
    }
    cx.label_if(!case.slivers.is_empty(), "zero_area_faces");
    let msoup = bm.soup();
    let mesh = bm.mesh(false);
    let reference = br.mesh(false);
    let nf = msoup.f.len();
    let scale = msoup.size() + rsoup.size() + msoup.max_abs() + rsoup.max_abs();
    let start_set: BTreeSet<usize> = match &case.start {
        Start::None => {
            cx.label("start_none");
            BTreeSet::new()
        }
        Start::All => {
            cx.label("start_all");
            (0..nf).collect()
        }
        Start::Indices(v) => {
            cx.label("start_indices");
            v.iter().map(|i| idx(*i, nf)).collect()
        }
    };
    let start_sel = || match &case.start {
        Start::None => Selection::None,
        Start::All => Selection::All,
        Start::Indices(_) => Selection::Indices(start_set.iter().cloned().collect()),
    };
    // model: membership per face, with an "unknown" set for faces decided inside a don't-care band
    let mut model = start_set.clone();
    let mut unknown: BTreeSet<usize> = BTreeSet::new();
    // criteria that refer to a face of the mesh are resolved to a plain direction
    let steps: Vec<(Criterion, Op)> = case
        .steps
        .iter()
        .map(|(c, op)| match c {
            Criterion::FacingFace { face, len, reverse, angle } => {
                let (a, b, cc) = msoup.tri(idx(*face, nf));
                let n = (b - a).cross(&(cc - a)) * (*len * if *reverse { -1.0 } else { 1.0 });
                (Criterion::Facing { dir: [n.x, n.y, n.z], angle: *angle }, *op)
            }
            other => (other.clone(), *op),
        })
        .collect();
    if steps.iter().any(|(c, _)| matches!(c, Criterion::Facing { dir, .. } if !(dir[0] * dir[0] + dir[1] * dir[1] + dir[2] * dir[2] > 0.0))) {
        return Verdict::Discard("facing direction of zero length");
    }
    cx.label_if(case.steps.iter().any(|(c, _)| matches!(c, Criterion::FacingFace { .. })), "facing_own_face_normal");
    let preds: Vec<Vec<Tri>> = steps.iter().map(|(c, _)| predicate(c, &msoup, &rsoup, scale)).collect();
    let mut changed_steps = 0;
    let mut has_near_angle = false;
    let mut models: Vec<(BTreeSet<usize>, BTreeSet<usize>)> = vec![];
    for (k, (c, op)) in steps.iter().enumerate() {
        let before = model.clone();
        for i in 0..nf {
            if unknown.contains(&i) {
                continue;
            }
            let p = preds[k][i];
            let inm = model.contains(&i);
            match (op, inm, p) {
                (Op::Add, false, Tri::T) => {
                    model.insert(i);
                }
                (Op::Add, false, Tri::U) => {
                    unknown.insert(i);
                }
                (Op::Remove, true, Tri::T) => {
                    model.remove(&i);
                }
                (Op::Remove, true, Tri::U) => {
                    unknown.insert(i);
                }
                (Op::Keep, true, Tri::F) => {
                    model.remove(&i);
                }
                (Op::Keep, true, Tri::U) => {
                    unknown.insert(i);
                }
                _ => {}
            }
        }
        if before != model {
            changed_steps += 1;
        }
        match c {
            Criterion::Facing { .. } | Criterion::FacingFace { .. } => cx.label("facing"),
            Criterion::NearMesh { all_points, planar, angle, .. } => {
                cx.label("near");
                cx.label(if *all_points { "all_points" } else { "any_point" });
                cx.label_if(planar.is_some(), "near_planar");
                if angle.is_some() {
                    cx.label("near_angle");
                    has_near_angle = true;
                }
            }
        }
        cx.label(match op {
            Op::Add => "add",
            Op::Remove => "remove",
            Op::Keep => "keep",
        });
        models.push((model.clone(), unknown.clone()));
    }
    fn apply_fn<'a>(f: engeom::geom3::mesh::filtering::TriangleFilter<'a>, reference: &engeom::Mesh, c: &Criterion, op: Op) -> engeom::geom3::mesh::filtering::TriangleFilter<'a> {
        match c {
            Criterion::FacingFace { .. } => unreachable!("resolved to Facing before evaluation"),
            Criterion::Facing { dir, angle } => f.facing(&Vector3::new(dir[0], dir[1], dir[2]), *angle, to_selectop(op)),
            Criterion::NearMesh { all_points, dist, planar, angle } => f.near_mesh(reference, *all_points, *dist, *planar, *angle, to_selectop(op)),
        }
    }
    let reference_ref = &reference;
    let apply = |f, c: &Criterion, op: Op| apply_fn(f, reference_ref, c, op);
    let describe = |k: usize| format!("step {k}: {:?}", steps[k]);
    let mut first_final: Option<BTreeSet<usize>> = None;
    for rep in 0..REPEATS {
        // (a) full chain; (b) step by step through re-selection, compared with the model after every step
        let mut f = mesh.face_select(start_sel());
        for (c, op) in &steps {
            f = match guarded(|| apply(f, c, *op)) {
                Ok(f) => f,
                Err(m) => return Verdict::fail("C14/filter/panic", m),
            };
        }
        let chain: BTreeSet<usize> = f.collect().into_iter().collect();
        let mut cur: BTreeSet<usize> = start_set.clone();
        for (k, (c, op)) in steps.iter().enumerate() {
            let f = mesh.face_select(Selection::Indices(cur.iter().cloned().collect()));
            let got: Vec<usize> = apply(f, c, *op).collect();
            let gs: BTreeSet<usize> = got.iter().cloned().collect();
            ensure!(gs.len() == got.len(), "C14/collect/duplicates", "collect() returned duplicate indices");
            ensure!(gs.iter().all(|i| *i < nf), "C14/collect/index_range", "face index out of range");
            let (m, u) = &models[k];
            for i in 0..nf {
                if u.contains(&i) {
                    continue;
                }
                let (exp, g) = (m.contains(&i), gs.contains(&i));
                if exp != g {
                    let kind = match (&steps[k].0, steps[k].1) {
                        (Criterion::Facing { .. }, _) | (Criterion::FacingFace { .. }, _) => "facing",
                        (Criterion::NearMesh { angle: Some(_), .. }, _) => "near_mesh_with_angle",
                        (Criterion::NearMesh { .. }, _) => "near_mesh",
                    };
                    return Verdict::fail(format!("C14/step/{kind}/{}", if exp { "missing_face" } else { "extra_face" }), format!("after {} (repetition {rep}) face {i} is {} the selection, the per-face model says it should {}be (model {:?}, library {:?}, predicate for this face {:?})", describe(k), if g { "in" } else { "not in" }, if exp { "" } else { "not " }, m, gs, preds[k][i]));
                }
            }
            // continue from the library's own state (unknown faces follow the library)
            cur = gs;
        }
        // chain and stepwise agree on decided faces
        let (m, u) = models.last().unwrap();
        for i in 0..nf {
            if !u.contains(&i) {
                ensure!(chain.contains(&i) == m.contains(&i), "C14/chain/differs_from_model", "after the full chain (repetition {rep}) face {i} membership is {}, model says {}", chain.contains(&i), m.contains(&i));
            }
        }
        let decided: BTreeSet<usize> = chain.iter().cloned().filter(|i| !u.contains(i)).collect();
        match &first_final {
            None => first_final = Some(decided),
            Some(f0) => ensure!(*f0 == decided, "C14/hash_order/result_changed", "repetition {rep} selected {:?}, repetition 0 selected {:?}", decided, f0),
        }
    }
    // mesh built from the final selection
    let final_sel: Vec<usize> = {
        let mut f = mesh.face_select(start_sel());
        for (c, op) in &steps {
            f = apply(f, c, *op);
        }
        f.collect()
    };
    if !final_sel.is_empty() {
        cx.label("create_mesh");
        let sub = match guarded(|| mesh.create_from_indices(&final_sel)) {
            Ok(s) => s,
            Err(m) => return Verdict::fail("C14/create_from_indices/panic", m),
        };
        ensure!(sub.faces().len() == final_sel.len(), "C14/create_from_indices/face_count", "{} faces for a selection of {}", sub.faces().len(), final_sel.len());
        // triangles as coordinate triples in winding order, in the order of the selection
        for (k, fi) in final_sel.iter().enumerate() {
            let t = sub.faces()[k];
            let got = [sub.vertices()[t[0] as usize], sub.vertices()[t[1] as usize], sub.vertices()[t[2] as usize]];
            let (a, b, c) = msoup.tri(*fi);
            let exp = [a, b, c];
            let ok = (0..3).any(|r| (0..3).all(|j| got[j] == exp[(j + r) % 3]));
            ensure!(ok, "C14/create_from_indices/triangle", "face {k} of the new mesh is {:?}, selected face {fi} is {:?} (coordinates or winding differ)", got, exp);
        }
        // vertex list = exactly the used vertices, each once (the order is the library's business)
        let mut used: BTreeSet<u32> = BTreeSet::new();
        for fi in &final_sel {
            for v in msoup.f[*fi] {
                used.insert(v);
            }
        }
        let bits = |p: &Point3| [p.x.to_bits(), p.y.to_bits(), p.z.to_bits()];
        let mut exp: Vec<_> = used.iter().map(|v| bits(&msoup.v[*v as usize])).collect();
        let mut got: Vec<_> = sub.vertices().iter().map(bits).collect();
        exp.sort();
        got.sort();
        ensure!(got == exp, "C14/create_from_indices/vertices", "new mesh has {} vertices, the selection uses {} (count or content differs)", got.len(), exp.len());

        // create_mesh() on the filter gives the same triangles as a set
        let mut f = mesh.face_select(start_sel());
        for (c, op) in &steps {
            f = apply(f, c, *op);
        }
        let cm = f.create_mesh();
        ensure!(cm.faces().len() == final_sel.len(), "C14/create_mesh/face_count", "create_mesh() has {} faces for a selection of {}", cm.faces().len(), final_sel.len());
        let mut got_cm: Vec<_> = cm.vertices().iter().map(bits).collect();
        got_cm.sort();
        ensure!(got_cm == exp, "C14/create_mesh/vertices", "create_mesh() has {} vertices, the selection uses {} (count or content differs)", got_cm.len(), exp.len());
        let key = |m: &engeom::Mesh, k: usize| {
            let t = m.faces()[k];
            let mut pts: Vec<[u64; 3]> = t.iter().map(|i| { let p = m.vertices()[*i as usize]; [p.x.to_bits(), p.y.to_bits(), p.z.to_bits()] }).collect();
            // rotate to a canonical start (winding preserved)
            let s = (0..3).min_by_key(|i| pts[*i]).unwrap();
            pts.rotate_left(s);
            pts
        };
        let mut a: Vec<_> = (0..cm.faces().len()).map(|k| key(&cm, k)).collect();
        let mut b: Vec<_> = (0..sub.faces().len()).map(|k| key(&sub, k)).collect();
        a.sort();
        b.sort();
        ensure!(a == b, "C14/create_mesh/triangles", "create_mesh() triangles differ from create_from_indices(collect())");
    }
    // the reference is an argument like any other: the mesh itself, passed as the same object or as an equal copy, must
    // give the same selection
    if case.self_ref {
        let copy = mesh.clone();
        let run = |reference: &engeom::Mesh| {
            let mut f = mesh.face_select(start_sel());
            for (c, op) in &steps {
                f = apply_fn(f, reference, c, *op);
            }
            let mut v = f.collect();
            v.sort();
            v
        };
        let (same_object, equal_copy) = (run(&mesh), run(&copy));
        ensure!(same_object == equal_copy, "C14/near_mesh/reference_identity_matters", "with the mesh itself as reference the chain selects {:?}, with an equal copy of it {:?}", same_object, equal_copy);
        cx.label("self_reference");
    }
    cx.label_if(changed_steps >= 2, "changed>=2");
    if steps.len() >= 2 && has_near_angle && changed_steps >= 2 {
        cx.nontrivial();
    }
    cx.pass()
}
