//! C07 — Rigid alignment recovers a known displacement and reports honest residuals

use crate::ensure;
use crate::fw::*;
use crate::gen::*;
use crate::gen_mesh::*;
use crate::oracle::{tri_normal, Poly, Soup};
use engeom::common::DistMode;
use engeom::geom2::align2::points_to_curve;
use engeom::geom3::align3::points_to_mesh;
use engeom::{Curve2, Iso2, Iso3, Point2, Point3, Vector2, Vector3};
use proptest::prelude::*;
use serde::{Deserialize, Serialize};

pub struct C07;

#[derive(Clone, Debug, Serialize, Deserialize)]
pub enum Shape2 {
    Star { radii: Vec<f64> },
    LShape { w: f64, h: f64, a: f64, b: f64 },
    Notch { w: f64, h: f64, nx: f64, nw: f64, nd: f64 },
}

#[derive(Clone, Debug, Serialize, Deserialize)]
pub enum Case {
    /// angle in degrees, translation as a fraction of the shape size; guess is a second small perturbation
    A2 { shape: Shape2, scale: f64, pose: Iso2D, fracs: Vec<f64>, angle: f64, t: P2, guess: Option<(f64, P2)>, honesty: bool, #[serde(default)] at_solution: bool },
    A3 { kind: MeshKind, pose: Iso3D, samples: Vec<(f64, f64, f64)>, axis: P3, angle: f64, t: P3, guess: Option<(P3, f64, P3)>, to_plane: bool, honesty: bool, #[serde(default)] at_solution: bool },
}

fn shape2() -> BoxedStrategy<Shape2> {
    prop_oneof![
        3 => prop::collection::vec(unif(0.5, 1.0), 5..12).prop_map(|radii| Shape2::Star { radii }),
        2 => (unif(1.0, 3.0), unif(1.0, 3.0), unif(0.25, 0.7), unif(0.25, 0.7)).prop_map(|(w, h, a, b)| Shape2::LShape { w, h, a, b }),
        2 => (unif(1.5, 4.0), unif(0.8, 2.0), unif(0.15, 0.6), unif(0.08, 0.25), unif(0.15, 0.5)).prop_map(|(w, h, nx, nw, nd)| Shape2::Notch { w, h, nx, nw, nd }),
    ]
    .boxed()
}

fn solid_kind() -> BoxedStrategy<MeshKind> {
    prop_oneof![
        3 => (unif(0.6, 3.0), unif(0.6, 3.0), unif(0.6, 3.0)).prop_map(|(w, h, d)| MeshKind::Box { w, h, d }),
        2 => (3usize..7, unif(0.8, 2.0), unif(0.6, 2.0), unif(0.1, 0.8)).prop_map(|(n, r, h, skew)| MeshKind::Prism { n, r, h, skew }),
        1 => unif(0.8, 2.0).prop_map(|r| MeshKind::Octa { r }),
    ]
    .boxed()
}

impl Property for C07 {
    type Case = Case;
    const ID: &'static str = "C07";
    fn rule() -> &'static str {
        "2D: closed reference curves with enough features to fix 3 degrees of freedom (star polygons, L-shapes, rectangles with a notch; size 1e-1..1e2, a quarter of them 1e-7..1e-1 with the pose scaled alike; any pose) with 12-200 sample points exactly on the curve; 3D: boxes, skewed prisms and octahedra in any pose with 200-800 points from the harness's own area-weighted sampler. Recovery family: displacement about the shape centroid of up to 3 deg / 2 % of the size (2D, at least 40 points, a sample set at least half of whose points are distinct and whose normal matrix is well conditioned, at most a tenth of the samples matched to a wrong edge or to a corner at the start), 5 deg / 3 % (3D), starting from the identity or a second small perturbation, both distance modes: the returned transform composed with the displacement must be the identity to 1e-4 (angle in radians, shift relative to the size). Honesty family: displacements up to 40 deg / 30 %: whenever the solver reports success the i-th residual must equal the mode-specific distance recomputed by exhaustive scan from the returned transform alone, the average must match, and the sum of squares must not exceed its value at the start. Already-aligned family (4 %): the samples are the reference's own vertices, zero displacement, identity start - every residual is exactly zero at the start and the identity must come back. Non-trivial: rotation > 1 deg and translation > 1 % (recovery); success with a final sum of squares > 1e-6 size^2 (honesty). Distinct = distinct canonical JSON."
    }
    fn cases(t: Tier) -> u32 {
        t.pick(80_000, 1_000_000)
    }
    fn expected_labels() -> Vec<&'static str> {
        vec!["recover2", "recover3", "honest2", "honest3", "to_plane", "to_point", "with_guess", "nonzero_residual", "at_solution", "size_below_0.1"]
    }
    fn strategy(_t: Tier) -> BoxedStrategy<Case> {
        let a2 = (shape2(), prop_oneof![3 => logu(-1.0, 2.0), 1 => logu(-7.0, -1.0)], iso2(100.0), prop::collection::vec(unif(0.0, 1.0), 40..200), any::<bool>(), unif(-1.0, 1.0), (unif(-1.0, 1.0), unif(-1.0, 1.0)), prop::option::of((unif(-1.0, 1.0), (unif(-1.0, 1.0), unif(-1.0, 1.0)))), prop::bool::weighted(0.04))
            .prop_map(|(shape, scale, pose, fracs, honesty, a, t, guess, at_solution)| {
                if at_solution {
                    return Case::A2 { shape, scale, pose, fracs, angle: 0.0, t: [0.0, 0.0], guess: None, honesty: false, at_solution };
                }
                let (amax, tmax) = if honesty { (40.0, 0.30) } else { (3.0, 0.02) };
                Case::A2 { shape, scale, pose, fracs, angle: a * amax, t: [t.0 * tmax, t.1 * tmax], guess: guess.map(|(ga, gt)| (ga * 2.0, [gt.0 * 0.01, gt.1 * 0.01])), honesty, at_solution }
            });
        let a3 = (solid_kind(), iso3(50.0), prop::collection::vec((unif(0.0, 1.0), unif(0.0, 1.0), unif(0.0, 1.0)), 200..800), unit3(), any::<bool>(), unif(-1.0, 1.0), (unif(-1.0, 1.0), unif(-1.0, 1.0), unif(-1.0, 1.0)), prop::option::of((unit3(), unif(-1.0, 1.0), (unif(-1.0, 1.0), unif(-1.0, 1.0), unif(-1.0, 1.0)))), any::<bool>(), prop::bool::weighted(0.04))
            .prop_map(|(kind, pose, samples, axis, honesty, a, t, guess, to_plane, at_solution)| {
                if at_solution {
                    return Case::A3 { kind, pose, samples, axis, angle: 0.0, t: [0.0, 0.0, 0.0], guess: None, to_plane, honesty: false, at_solution };
                }
                let (amax, tmax) = if honesty { (40.0, 0.30) } else { (5.0, 0.03) };
                Case::A3 { kind, pose, samples, axis, angle: a * amax, t: [t.0 * tmax, t.1 * tmax, t.2 * tmax], guess: guess.map(|(gx, ga, gt)| (gx, ga * 1.5, [gt.0 * 0.01, gt.1 * 0.01, gt.2 * 0.01])), to_plane, honesty, at_solution }
            });
        prop_oneof![3 => a2, 2 => a3].boxed()
    }
    fn check(case: &Case) -> Verdict {
        match case {
            Case::A2 { shape, scale, pose, fracs, angle, t, guess, honesty, at_solution } => align2(shape, *scale, pose, fracs, *angle, t, guess, *honesty, *at_solution),
            Case::A3 { kind, pose, samples, axis, angle, t, guess, to_plane, honesty, at_solution } => align3(kind, pose, samples, axis, *angle, t, guess, *to_plane, *honesty, *at_solution),
        }
    }
}

fn polygon(shape: &Shape2) -> Vec<Point2> {
    match shape {
        Shape2::Star { radii } => {
            let n = radii.len();
            (0..n).map(|i| { let a = i as f64 / n as f64 * std::f64::consts::TAU; Point2::new(radii[i] * a.cos(), radii[i] * a.sin()) }).collect()
        }
        Shape2::LShape { w, h, a, b } => vec![Point2::new(0.0, 0.0), Point2::new(*w, 0.0), Point2::new(*w, h * b), Point2::new(w * a, h * b), Point2::new(w * a, *h), Point2::new(0.0, *h)],
        Shape2::Notch { w, h, nx, nw, nd } => {
            let (x0, x1) = (w * nx, w * nx + w * nw);
            vec![Point2::new(0.0, 0.0), Point2::new(*w, 0.0), Point2::new(*w, *h), Point2::new(x1.min(w * 0.95), *h), Point2::new(x1.min(w * 0.95), h * (1.0 - nd)), Point2::new(x0, h * (1.0 - nd)), Point2::new(x0, *h), Point2::new(0.0, *h)]
        }
    }
}

#[allow(clippy::too_many_arguments)]
fn align2(shape: &Shape2, scale: f64, pose: &Iso2D, fracs: &[f64], angle_deg: f64, t: &P2, guess: &Option<(f64, P2)>, honesty: bool, at_solution: bool) -> Verdict {
    let mut cx = Ctx::new();
    cx.label(if honesty { "honest2" } else { "recover2" });
    let mut place = pose.to_iso();
    if scale < 0.1 {
        place.translation.vector *= scale;
        cx.label("size_below_0.1");
    }
    let mut pts: Vec<Point2> = polygon(shape).iter().map(|p| place * Point2::from(p.coords * scale)).collect();
    pts.push(pts[0]);
    let curve = match Curve2::from_points(&pts, 1e-9 * scale, false) {
        Ok(c) => c,
        Err(e) => return Verdict::fail("C07/align2/reference_rejected", format!("{e}")),
    };
    if curve.count() != pts.len() {
        return Verdict::Discard("reference vertices merged");
    }
    let model = Poly::new(pts.clone());
    let size = { let c = pts.iter().fold(Vector2::zeros(), |s, p| s + p.coords) / pts.len() as f64; pts.iter().map(|p| (p.coords - c).norm()).fold(0.0, f64::max) * 2.0 };
    let centroid = Point2::from(pts[..pts.len() - 1].iter().fold(Vector2::zeros(), |s, p| s + p.coords) / (pts.len() - 1) as f64);
    // "already aligned": the samples are the reference's own vertices, so every residual is exactly zero at the start
    let samples: Vec<Point2> = if at_solution { cx.label("at_solution"); pts[..pts.len() - 1].to_vec() } else { fracs.iter().map(|f| model.point_at(f * model.len())).collect() };
    let mut conditioning = f64::INFINITY;
    if !honesty && !at_solution {
        // "all sample sets" means sets that fix all three degrees of freedom: the normal matrix of the point-to-line
        // problem at the true pose (rows [n, (p - centroid) x n / size]) must be well conditioned.  Uniformly drawn
        // fractions always are; shrinking and byte-level mutation can produce forty copies of one point.
        let mut ata = parry2d_f64::na::Matrix3::<f64>::zeros();
        for p in &samples {
            // a sample sitting on a corner has a residual that is not differentiable in the pose (its nearest edge flips
            // with the sign of the rotation): it does not count towards fixing the degrees of freedom
            if pts.iter().any(|v| (v - p).norm() <= 1e-6 * size) {
                continue;
            }
            let (_, _, ei, _) = model.closest(p);
            let e = (model.v[ei + 1] - model.v[ei]).normalize();
            let n = Vector2::new(e.y, -e.x);
            let r = p - centroid;
            let row = parry2d_f64::na::Vector3::new(n.x, n.y, (r.x * n.y - r.y * n.x) / size);
            ata += row * row.transpose();
        }
        let ev = ata.symmetric_eigenvalues();
        if std::env::var("VERIF_DEBUG").is_ok() {
            eprintln!("C07 align2: normal-matrix eigenvalues / n = {:?}", ev / samples.len() as f64);
        }
        // uniformly drawn fractions give 0.008 at the very least (1 % quantile 0.013, median 0.036); sets that byte-level mutation collapses
        // to a handful of distinct positions sit below that and do stall in local minima
        // ... as do sets that are mostly copies of a few positions (a weighted handful of points, whatever their number):
        // at least half of the samples must be distinct positions
        let mut fr: Vec<f64> = fracs.iter().map(|f| f * model.len()).collect();
        fr.sort_by(|a, b| a.partial_cmp(b).unwrap());
        let distinct = 1 + fr.windows(2).filter(|w| w[1] - w[0] > 1e-6 * model.len()).count();
        if 2 * distinct < samples.len() {
            return Verdict::Discard("fewer than half of the samples are distinct positions");
        }
        if ev.min() < 1e-2 * samples.len() as f64 {
            return Verdict::Discard("sample set does not fix all degrees of freedom");
        }
        conditioning = ev.min() / samples.len() as f64;
    }
    // displacement about the centroid
    let about = |a_deg: f64, tv: &P2| -> Iso2 { Iso2::new(Vector2::new(tv[0] * size, tv[1] * size), 0.0) * Iso2::new(centroid.coords, 0.0) * Iso2::new(Vector2::zeros(), a_deg.to_radians()) * Iso2::new(-centroid.coords, 0.0) };
    let disp = about(angle_deg, t);
    let displaced: Vec<Point2> = samples.iter().map(|p| disp * p).collect();
    let initial = match guess {
        Some((ga, gt)) => {
            cx.label("with_guess");
            about(*ga, gt)
        }
        None => Iso2::identity(),
    };
    // how many samples start on the wrong edge: the fraction whose closest reference edge at the starting pose is not the
    // edge they were taken from (nor one that contains the same closest point)
    let misassigned = samples
        .iter()
        .zip(displaced.iter())
        .filter(|(s0, p)| {
            let m = initial * *p;
            let (_, _, e_true, _) = model.closest(s0);
            let (d_now, _, e_now, t_now) = model.closest(&m);
            // ... or whose closest point is a corner of the reference: there the residual (the projection on the normal
            // of one of the two edges) is ambiguous and flips with the pose, just like a wrong edge
            let at_corner = t_now <= 1e-9 || t_now >= 1.0 - 1e-9;
            at_corner || (e_now != e_true && (crate::oracle::closest_on_segment(&model.v[e_true], &model.v[e_true + 1], &m).0 - m).norm() > d_now + 1e-9 * size)
        })
        .count();
    if std::env::var("VERIF_DEBUG").is_ok() {
        eprintln!("C07 align2: {misassigned} of {} samples start on the wrong edge", samples.len());
    }
    // The basin of the recovery clause is stated in terms of what makes point-to-curve alignment locally convex: at the
    // start at most one sample in ten is matched to a wrong edge.  (Local minima with a fifth of the samples on wrong
    // edges are genuine properties of the objective, not defects of the solver.)
    // the two measures of how far inside the basin a case lies may not both be marginal: with a conditioning below 0.02
    // (uniform sets: below the 8 % quantile) at most a twentieth of the samples may start on a wrong edge or a corner
    if !honesty && !at_solution && conditioning < 0.02 && 20 * misassigned > samples.len() {
        return Verdict::Discard("marginal conditioning together with more than a twentieth of the samples on a wrong edge");
    }
    if !honesty && !at_solution && 10 * misassigned > samples.len() {
        return Verdict::Discard("more than a tenth of the samples start on a wrong edge");
    }
    cx.label_if(!honesty && misassigned > 0, "recover2_some_wrong_edges");
    let res = match guarded(|| points_to_curve(&displaced, &curve, &initial).map_err(|e| e.to_string())) {
        Ok(r) => r,
        Err(m) => return Verdict::fail("C07/align2/panic", m),
    };
    // residual definition: scalar projection on the normal of an edge attaining the closest distance
    let residual_candidates = |m: &Point2| -> Vec<f64> {
        let (dstar, _, _, _) = model.closest(m);
        let mut out = vec![];
        for i in 0..model.n() - 1 {
            let (c, _) = crate::oracle::closest_on_segment(&model.v[i], &model.v[i + 1], m);
            if (c - m).norm() <= dstar + 1e-9 * size {
                let e = (model.v[i + 1] - model.v[i]).normalize();
                let n = Vector2::new(e.y, -e.x);
                out.push(n.dot(&(m - c)));
            }
        }
        out
    };
    // under ties between edges the library may use either normal: the largest candidate bounds its starting cost from above
    let ssq_at = |tr: &Iso2| -> f64 { displaced.iter().map(|p| { let m = tr * p; residual_candidates(&m).iter().map(|r| r * r).fold(0.0, f64::max) }).sum() };
    match res {
        Err(e) => {
            cx.label("solver_err");
            ensure!(honesty, "C07/align2/recovery_failed", "alignment inside the stated basin ({angle_deg:.2} deg, {:.3} of the size) failed: {e}", (t[0] * t[0] + t[1] * t[1]).sqrt());
        }
        Ok(al) => {
            let tr = *al.transform();
            let r = al.residuals();
            ensure!(r.len() == displaced.len(), "C07/align2/residual_count", "{} residuals for {} points", r.len(), displaced.len());
            let mut ssq = 0.0;
            for (i, p) in displaced.iter().enumerate() {
                let m = tr * p;
                let cands = residual_candidates(&m);
                ensure!(cands.iter().any(|c| (c - r[i]).abs() <= 1e-9 * (size + m.coords.norm())), "C07/align2/residual_not_of_returned_transform", "residual {i} is {:e}, but the point moved by the returned transform is at signed normal distance {:?} from the reference", r[i], cands);
                ssq += r[i] * r[i];
            }
            let mean = r.iter().sum::<f64>() / r.len() as f64;
            ensure!((al.avg_residual() - mean).abs() <= 1e-12 * (1.0 + mean.abs()), "C07/align2/avg_residual", "avg_residual {:e} vs mean {mean:e}", al.avg_residual());
            let ssq0 = ssq_at(&initial);
            ensure!(ssq <= ssq0 * (1.0 + 1e-9) + 1e-18 * size * size, "C07/align2/residuals_increased", "sum of squared residuals {ssq:e} exceeds its value at the starting guess {ssq0:e}");
            if honesty {
                cx.label_if(ssq > 1e-6 * size * size, "nonzero_residual");
                if ssq > 1e-6 * size * size {
                    cx.nontrivial();
                }
            } else {
                let e = tr * disp;
                let shift = (e * centroid - centroid).norm();
                ensure!(e.rotation.angle().abs() <= 1e-4 && shift <= 1e-4 * size, "C07/align2/not_recovered", "returned transform composed with the displacement ({angle_deg:.3} deg, {:?} of the size) is off the identity by {:e} rad and {:e} (size {size:e}); {} points, final sum of squares {ssq:e}", t, e.rotation.angle(), shift, displaced.len());
                if angle_deg.abs() > 1.0 && (t[0].abs() + t[1].abs()) > 0.01 {
                    cx.nontrivial();
                }
            }
        }
    }
    cx.pass()
}

#[allow(clippy::too_many_arguments)]
fn align3(kind: &MeshKind, pose: &Iso3D, samples: &[(f64, f64, f64)], axis: &P3, angle_deg: f64, t: &P3, guess: &Option<(P3, f64, P3)>, to_plane: bool, honesty: bool, at_solution: bool) -> Verdict {
    let mut cx = Ctx::new();
    cx.label(if honesty { "honest3" } else { "recover3" });
    cx.label(if to_plane { "to_plane" } else { "to_point" });
    let mut spec = MeshSpec::simple(kind.clone());
    spec.pose = *pose;
    let Some(bm) = spec.build() else { return Verdict::Discard("empty mesh") };
    let soup: Soup = bm.soup();
    let mesh = bm.mesh(false);
    let size = soup.size();
    let centroid = Point3::from(soup.v.iter().fold(Vector3::zeros(), |s, p| s + p.coords) / soup.v.len() as f64);
    // area-weighted sampling with the case's own numbers
    let areas: Vec<f64> = (0..soup.f.len()).map(|i| { let (a, b, c) = soup.tri(i); crate::oracle::tri_area(&a, &b, &c) }).collect();
    let total: f64 = areas.iter().sum();
    let pts: Vec<Point3> = samples
        .iter()
        .map(|(u, r1, r2)| {
            let mut acc = 0.0;
            let mut fi = soup.f.len() - 1;
            for (i, a) in areas.iter().enumerate() {
                acc += a;
                if u * total <= acc {
                    fi = i;
                    break;
                }
            }
            let (a, b, c) = soup.tri(fi);
            let s = r1.sqrt();
            Point3::from(a.coords * (1.0 - s) + b.coords * (s * (1.0 - r2)) + c.coords * (s * r2))
        })
        .collect();
    // "already aligned": the samples are the mesh's own vertices, so every residual is exactly zero at the start
    let pts: Vec<Point3> = if at_solution { cx.label("at_solution"); mesh.vertices().to_vec() } else { pts };
    if !honesty && !at_solution {
        // as in 2D: the 6x6 normal matrix of the point-to-plane problem at the true pose must be well conditioned
        let mut ata = parry3d_f64::na::Matrix6::<f64>::zeros();
        for (p, (_, r1, r2)) in pts.iter().zip(samples.iter()) {
            // as in 2D, samples on an edge or a vertex of their face (a barycentric weight below 1e-6) do not count
            let s = r1.sqrt();
            if (1.0 - s) < 1e-6 || s * (1.0 - r2) < 1e-6 || s * r2 < 1e-6 {
                continue;
            }
            let (_, _, fi) = soup.closest(p);
            let (a, b, c) = soup.tri(fi);
            let Some(n) = tri_normal(&a, &b, &c) else { continue };
            let r = (p - centroid) / size;
            let m = r.cross(&n);
            let row = parry3d_f64::na::Vector6::new(n.x, n.y, n.z, m.x, m.y, m.z);
            ata += row * row.transpose();
        }
        let ev = ata.symmetric_eigenvalues();
        if std::env::var("VERIF_DEBUG").is_ok() {
            eprintln!("C07 align3: normal-matrix min eigenvalue / n = {:e}", ev.min() / pts.len() as f64);
        }
        if ev.min() < 2e-3 * pts.len() as f64 {
            return Verdict::Discard("sample set does not fix all degrees of freedom");
        }
    }
    let about = |ax: &P3, a_deg: f64, tv: &P3| -> Iso3 {
        let axis = v3(ax).normalize() * a_deg.to_radians();
        Iso3::new(Vector3::new(tv[0], tv[1], tv[2]) * size, Vector3::zeros()) * Iso3::new(centroid.coords, Vector3::zeros()) * Iso3::new(Vector3::zeros(), axis) * Iso3::new(-centroid.coords, Vector3::zeros())
    };
    let disp = about(axis, angle_deg, t);
    let displaced: Vec<Point3> = pts.iter().map(|p| disp * p).collect();
    let initial = match guess {
        Some((gx, ga, gt)) => {
            cx.label("with_guess");
            about(gx, *ga, gt)
        }
        None => Iso3::identity(),
    };
    let mode = || if to_plane { DistMode::ToPlane } else { DistMode::ToPoint };
    let res = match guarded(|| points_to_mesh(&displaced, &mesh, &initial, mode()).map_err(|e| e.to_string())) {
        Ok(r) => r,
        Err(m) => return Verdict::fail("C07/align3/panic", m),
    };
    let normals: Vec<Vector3> = (0..soup.f.len()).map(|i| { let (a, b, c) = soup.tri(i); tri_normal(&a, &b, &c).unwrap() }).collect();
    let residual_candidates = |m: &Point3| -> Vec<f64> {
        let (dstar, _, _) = soup.closest(m);
        if !to_plane {
            return vec![dstar];
        }
        let mut out = vec![];
        for i in 0..soup.f.len() {
            let (a, b, c) = soup.tri(i);
            let q = crate::oracle::closest_on_triangle(m, &a, &b, &c);
            if (q - m).norm() <= dstar + 1e-9 * size {
                out.push(normals[i].dot(&(m - q)).abs());
            }
        }
        out
    };
    let ssq_at = |tr: &Iso3| -> f64 { displaced.iter().map(|p| { let m = tr * p; residual_candidates(&m).iter().map(|r| r * r).fold(0.0, f64::max) }).sum() };
    match res {
        Err(e) => {
            cx.label("solver_err");
            ensure!(honesty, "C07/align3/recovery_failed", "alignment inside the stated basin ({angle_deg:.2} deg) failed: {e}");
        }
        Ok(al) => {
            let tr = *al.transform();
            let r = al.residuals();
            ensure!(r.len() == displaced.len(), "C07/align3/residual_count", "{} residuals for {} points", r.len(), displaced.len());
            let mut ssq = 0.0;
            for (i, p) in displaced.iter().enumerate() {
                let m = tr * p;
                let cands = residual_candidates(&m);
                ensure!(cands.iter().any(|c| (c - r[i]).abs() <= 1e-9 * (size + m.coords.norm())), "C07/align3/residual_not_of_returned_transform", "residual {i} is {:e}, but the point moved by the returned transform is at {} distance {:?} from the reference", r[i], if to_plane { "plane" } else { "point" }, cands);
                ssq += r[i] * r[i];
            }
            let mean = r.iter().sum::<f64>() / r.len() as f64;
            ensure!((al.avg_residual() - mean).abs() <= 1e-12 * (1.0 + mean.abs()), "C07/align3/avg_residual", "avg_residual {:e} vs mean {mean:e}", al.avg_residual());
            let ssq0 = ssq_at(&initial);
            ensure!(ssq <= ssq0 * (1.0 + 1e-9) + 1e-18 * size * size, "C07/align3/residuals_increased", "sum of squared residuals {ssq:e} exceeds its value at the starting guess {ssq0:e}");
            if honesty {
                cx.label_if(ssq > 1e-6 * size * size, "nonzero_residual");
                if ssq > 1e-6 * size * size {
                    cx.nontrivial();
                }
            } else {
                let e = tr * disp;
                let shift = (e * centroid - centroid).norm();
                ensure!(e.rotation.angle().abs() <= 1e-4 && shift <= 1e-4 * size, "C07/align3/not_recovered", "returned transform composed with the displacement ({angle_deg:.3} deg about {:?}, {:?} of the size) is off the identity by {:e} rad and {:e} (size {size:e}); mode {}, final sum of squares {ssq:e}", axis, t, e.rotation.angle(), shift, if to_plane { "ToPlane" } else { "ToPoint" });
                if angle_deg.abs() > 1.0 && (t[0].abs() + t[1].abs() + t[2].abs()) > 0.01 {
                    cx.nontrivial();
                }
            }
        }
    }
    cx.pass()
}
