//! C20 — Conformal flattening is an isometry on planar disks and never folds them

use crate::ensure;
use crate::fw::*;
use crate::gen::*;
use crate::gen_mesh::*;
use crate::oracle::tri_normal;
use engeom::geom3::UvMapping;
use engeom::{Mesh, Point2, Point3};
use proptest::prelude::*;
use serde::{Deserialize, Serialize};
use std::time::Duration;

pub struct C20;

#[derive(Clone, Debug, Serialize, Deserialize)]
pub enum NonDisk {
    Closed,
    TwoLoops,
    TwoComponents,
    NonManifoldFin,
    Bowtie,
    GridWithHole,
}

#[derive(Clone, Debug, Serialize, Deserialize)]
pub enum Case {
    /// orphans: vertices appended to the vertex list that no face references
    Planar { spec: MeshSpec, t: Iso3D, #[serde(default = "one")] unit: f64, #[serde(default)] orphans: Vec<P3> },
    Curved { spec: MeshSpec, t: Iso3D, #[serde(default = "one")] unit: f64 },
    /// a polygonal outline (n even, radii r*rad[k]) fanned to two interior vertices delta_rel*r apart, joined by an interior
    /// edge: the two faces on that edge are needles with an apex angle of about delta_rel radians
    Needle { n: usize, r: f64, rad: Vec<f64>, delta_rel: f64, pose: Iso3D },
    Reject { kind: NonDisk, spec: MeshSpec },
    Uv { spec: MeshSpec, affine: [f64; 6], samples: Vec<(u16, f64, f64, f64)> },
}

fn one() -> f64 {
    1.0
}

/// length unit of the whole mesh: half the cases as generated, half anywhere from 1e-7 to 1e4
fn unit() -> BoxedStrategy<f64> {
    prop_oneof![1 => Just(1.0), 1 => logu(-7.0, 4.0)].boxed()
}

fn planar_kind(nmax: usize) -> BoxedStrategy<MeshKind> {
    prop_oneof![
        5 => (3usize..=nmax, 3usize..=nmax, unif(0.5, 4.0), unif(0.5, 4.0), unif(0.0, 0.6), any::<u64>()).prop_map(|(nx, ny, sx, sy, jitter, diag)| MeshKind::Grid { nx, ny, sx, sy, jitter, diag, height: Height::Flat }),
        1 => (2usize..4, 10usize..=nmax.max(11), unif(0.5, 1.0), unif(10.0, 30.0), unif(0.0, 0.5), any::<u64>()).prop_map(|(nx, ny, sx, sy, jitter, diag)| MeshKind::Grid { nx, ny, sx, sy, jitter, diag, height: Height::Flat }),
        2 => (4usize..=nmax, unif(1.0, 4.0), unif(0.0, 0.5), any::<u64>()).prop_map(|(n, s, jitter, diag)| MeshKind::LGrid { n, s, jitter, diag, height: Height::Flat }),
        1 => (3usize..12, unif(0.5, 2.0)).prop_map(|(n, r)| MeshKind::Fan { n, r, z: 0.0 }),
    ]
    .boxed()
}

fn curved_kind(nmax: usize) -> BoxedStrategy<MeshKind> {
    let h = prop_oneof![(unif(0.05, 0.4), unif(0.5, 2.0), unif(0.5, 2.0)).prop_map(|(amp, fx, fy)| Height::Waves { amp, fx, fy }), unif(0.1, 0.8).prop_map(|amp| Height::Dome { amp }), unif(0.2, 1.0).prop_map(|amp| Height::Crease { amp })];
    prop_oneof![
        3 => (3usize..=nmax, 3usize..=nmax, unif(0.5, 4.0), unif(0.5, 4.0), unif(0.0, 0.5), any::<u64>(), h).prop_map(|(nx, ny, sx, sy, jitter, diag, height)| MeshKind::Grid { nx, ny, sx, sy, jitter, diag, height }),
        1 => (4usize..12, unif(0.5, 2.0), unif(0.2, 1.0)).prop_map(|(n, r, z)| MeshKind::Fan { n, r, z }),
    ]
    .boxed()
}

fn disk_spec(kind: BoxedStrategy<MeshKind>) -> BoxedStrategy<MeshSpec> {
    (kind, prop_oneof![1 => Just(0u64), 3 => any::<u64>()], iso3(10.0), any::<bool>()).prop_map(|(kind, shuffle, pose, flip_all)| MeshSpec { kind, shuffle, flips: vec![], flip_all, holes: vec![], pose, extra: None }).boxed()
}

impl Property for C20 {
    type Case = Case;
    const ID: &'static str = "C20";
    fn rule() -> &'static str {
        "families: planar triangulated disks built in 2D by the harness (jittered grids 3x3..16x16 quick / 40x40 thorough with random diagonals, strips of aspect up to 1:30, L-shaped non-convex outlines, fans) with shuffled vertex numbering and face order, all-CCW or all-CW winding, lifted by an arbitrary isometry, a fifth of them with 1-3 unreferenced vertices appended to the vertex list, in the generated length unit (cells 0.5..4) or scaled as a whole by 1e-7..1e4; polygonal disks with two needle faces (apex angle 1e-6..1e-3 rad) on a short interior edge; curved disks (height fields, domes, creases, cones) for the invariance clause; non-disks (closed solids, tubes with two boundary loops, two components, a fin making an edge shared by three faces, bow-tie of two disks, grid with an interior hole) for the rejection clause; meshes carrying a UV map that is an affine image of their planar layout with random (face, barycentric, height) samples, a third of the on-surface ones exactly on an edge of their face. Oracle: edge lengths and triangle areas preserved, one orientation sign, result finite; flatten(T mesh) equals flatten(mesh) up to a planar rigid motion; Err for non-disks; UV round trip. Non-trivial: at least one interior vertex, shuffled numbering and a pose that is not axis-aligned. Distinct = distinct canonical JSON."
    }
    fn cases(t: Tier) -> u32 {
        t.pick(50_000, 200_000)
    }
    fn isolated() -> Option<Duration> {
        Some(Duration::from_secs(30))
    }
    fn expected_labels() -> Vec<&'static str> {
        vec!["planar", "planar_cw", "planar_ccw", "curved", "reject_closed", "reject_two_loops", "reject_two_components", "reject_nonmanifold", "reject_bowtie", "reject_hole", "uv", "nonconvex", "unit_below_1e-4", "unreferenced_vertices", "planar_needle_faces", "uv_sample_on_edge"]
    }
    fn strategy(t: Tier) -> BoxedStrategy<Case> {
        let nmax = t.pick(16, 40);
        let reject = prop_oneof![
            clean_mesh(closed_kind(1), 5.0).prop_map(|spec| Case::Reject { kind: NonDisk::Closed, spec }),
            clean_mesh((unif(0.3, 2.0), unif(0.5, 3.0), 3usize..10, 2usize..6).prop_map(|(r, h, nu, nv)| MeshKind::Tube { r, h, nu, nv }).boxed(), 5.0).prop_map(|spec| Case::Reject { kind: NonDisk::TwoLoops, spec }),
            (disk_spec(planar_kind(6)), planar_kind(5), p3(1.0)).prop_map(|(mut spec, k2, off)| { spec.extra = Some(Box::new((k2, off, false))); Case::Reject { kind: NonDisk::TwoComponents, spec } }),
            disk_spec(planar_kind(6)).prop_map(|spec| Case::Reject { kind: NonDisk::NonManifoldFin, spec }),
            (disk_spec(planar_kind(6)), planar_kind(5), p3(1.0)).prop_map(|(mut spec, k2, off)| { spec.extra = Some(Box::new((k2, off, true))); Case::Reject { kind: NonDisk::Bowtie, spec } }),
            disk_spec((5usize..9, 5usize..9, unif(1.0, 3.0), unif(1.0, 3.0), any::<u64>()).prop_map(|(nx, ny, sx, sy, diag)| MeshKind::Grid { nx, ny, sx, sy, jitter: 0.2, diag, height: Height::Flat }).boxed()).prop_map(|spec| Case::Reject { kind: NonDisk::GridWithHole, spec }),
        ];
        prop_oneof![
            5 => (disk_spec(planar_kind(nmax)), iso3(100.0), unit(), prop_oneof![4 => Just(vec![]), 1 => prop::collection::vec(p3(5.0), 1..4)]).prop_map(|(spec, t, unit, orphans)| Case::Planar { spec, t, unit, orphans }),
            2 => (disk_spec(curved_kind(nmax.min(20))), iso3(100.0), unit()).prop_map(|(spec, t, unit)| Case::Curved { spec, t, unit }),
            2 => reject,
            1 => (3usize..7, logu(-1.0, 1.5), prop::collection::vec(unif(0.7, 1.0), 12), logu(-6.0, -3.0), iso3(20.0)).prop_map(|(h, r, rad, delta_rel, pose)| Case::Needle { n: 2 * h, r, rad, delta_rel, pose }),
            2 => (disk_spec(planar_kind(8)), [unif(0.5, 2.0), unif(-0.5, 0.5), unif(-0.5, 0.5), unif(0.5, 2.0), unif(-5.0, 5.0), unif(-5.0, 5.0)], prop::collection::vec((any::<u16>(), unif(0.05, 0.9), unif(0.05, 0.9), prop_oneof![Just(0.0), unif(-0.05, 0.05)]), 1..12)).prop_map(|(spec, affine, samples)| Case::Uv { spec, affine, samples }),
        ]
        .boxed()
    }
    fn check(case: &Case) -> Verdict {
        match case {
            Case::Planar { spec, t, unit, orphans } => planar(spec, t, *unit, orphans),
            Case::Curved { spec, t, unit } => curved(spec, t, *unit),
            Case::Needle { n, r, rad, delta_rel, pose } => needle(*n, *r, rad, *delta_rel, pose),
            Case::Reject { kind, spec } => reject(kind, spec),
            Case::Uv { spec, affine, samples } => uv(spec, affine, samples),
        }
    }
}

fn flatten(v: &[Point3], f: &[[u32; 3]]) -> Result<Result<Vec<Point2>, String>, String> {
    let mesh = Mesh::new(v.to_vec(), f.to_vec(), false);
    guarded(|| match mesh.calc_edges() {
        Ok(e) => e.boundary_first_flatten().map_err(|e| format!("boundary_first_flatten: {e}")),
        Err(e) => Err(format!("calc_edges: {e}")),
    })
}

fn area2(a: &Point2, b: &Point2, c: &Point2) -> f64 {
    0.5 * ((b.x - a.x) * (c.y - a.y) - (b.y - a.y) * (c.x - a.x))
}

/// best planar rigid fit (rotation + translation, no reflection) of b onto a; returns the max residual
fn rigid_residual(a: &[Point2], b: &[Point2]) -> f64 {
    let n = a.len() as f64;
    let ca = a.iter().fold(engeom::Vector2::zeros(), |s, p| s + p.coords) / n;
    let cb = b.iter().fold(engeom::Vector2::zeros(), |s, p| s + p.coords) / n;
    let (mut sxx, mut sxy) = (0.0, 0.0);
    for (p, q) in a.iter().zip(b.iter()) {
        let (u, w) = (p.coords - ca, q.coords - cb);
        sxx += w.x * u.x + w.y * u.y;
        sxy += w.x * u.y - w.y * u.x;
    }
    let th = sxy.atan2(sxx);
    let (s, c) = th.sin_cos();
    a.iter().zip(b.iter()).map(|(p, q)| { let w = q.coords - cb; let r = engeom::Vector2::new(c * w.x - s * w.y, s * w.x + c * w.y) + ca; (p.coords - r).norm() }).fold(0.0, f64::max)
}

/// relative accuracy allowed for a flattening: grows with the largest cotangent and the number of vertices
fn rel_tolerance(soup: &crate::oracle::Soup) -> f64 {
    let mut m = 1.0f64;
    for i in 0..soup.f.len() {
        let (a, b, c) = soup.tri(i);
        for (p, q, r) in [(a, b, c), (b, c, a), (c, a, b)] {
            let (u, v) = (q - p, r - p);
            m = m.max((u.dot(&v) / u.cross(&v).norm()).abs());
        }
    }
    (1e-6 * m * (soup.v.len() as f64 / 100.0).max(1.0)).clamp(1e-5, 1e-3)
}

fn planar(spec: &MeshSpec, t: &Iso3D, unit: f64, orphans: &[P3]) -> Verdict {
    let mut cx = Ctx::new();
    cx.label("planar");
    let Some(mut bm) = spec.build() else { return Verdict::Discard("empty mesh") };
    let unscaled = bm.v.clone();
    for p in bm.v.iter_mut() {
        *p = Point3::from(p.coords * unit);
    }
    cx.label_if(unit < 1e-4, "unit_below_1e-4");
    if !(bm.topo.manifold && bm.topo.consistent && bm.topo.boundary_loops == 1 && bm.topo.components == 1 && !bm.topo.vertex_only_contact) {
        return Verdict::Discard("generator did not produce a disk");
    }
    let soup = bm.soup();
    for i in 0..soup.f.len() {
        let (a, b, c) = soup.tri(i);
        let lmax = (b - a).norm().max((c - b).norm()).max((a - c).norm());
        if crate::oracle::tri_area(&a, &b, &c) < 1e-3 * lmax * lmax {
            return Verdict::Discard("sliver face");
        }
    }
    // the planar input itself must be an embedded (unfolded) triangulation
    {
        let inv = spec.pose.to_iso().inverse();
        let flat: Vec<Point2> = unscaled.iter().map(|p| { let q = inv * p; Point2::new(q.x, q.y) }).collect();
        let signs: Vec<bool> = bm.f.iter().map(|t| area2(&flat[t[0] as usize], &flat[t[1] as usize], &flat[t[2] as usize]) > 0.0).collect();
        if signs.iter().any(|s| *s != signs[0]) {
            return Verdict::Discard("generated planar input is folded");
        }
    }
    let size = soup.size();
    // accuracy is that of a direct sparse solve of the cotangent system, whose conditioning grows with the largest
    // cotangent (thin triangles) and with the number of vertices; the property states no figure, the harness allows
    // 1e-5 relative for well-shaped small meshes and up to 1e-3 for thin-celled meshes with thousands of vertices
    let rel = rel_tolerance(&soup);
    // the vertex list handed to the library may carry vertices that no face references (appended, so indices stay valid):
    // "one finite position per vertex" covers them, the shape clauses are about the referenced ones
    let n0 = bm.v.len();
    let mut vin = bm.v.clone();
    vin.extend(orphans.iter().map(|p| Point3::from(pt3(p).coords * unit)));
    cx.label_if(!orphans.is_empty(), "unreferenced_vertices");
    let mut uv = match flatten(&vin, &bm.f) {
        Ok(Ok(uv)) => uv,
        Ok(Err(e)) => return Verdict::fail("C20/flatten/planar_disk_rejected", format!("planar disk with {} vertices, {} faces rejected: {e}", vin.len(), bm.f.len())),
        Err(m) => return Verdict::fail("C20/flatten/panic", m),
    };
    ensure!(uv.len() == vin.len(), "C20/flatten/count", "{} uv points for {} vertices", uv.len(), vin.len());
    ensure!(uv.iter().all(|p| p.x.is_finite() && p.y.is_finite()), "C20/flatten/non_finite", "non-finite uv coordinate");
    uv.truncate(n0);
    // edges keep their length
    for e in bm.topo.edge_faces.keys() {
        let l3 = (bm.v[e.0 as usize] - bm.v[e.1 as usize]).norm();
        let l2 = (uv[e.0 as usize] - uv[e.1 as usize]).norm();
        ensure!((l2 - l3).abs() <= rel * l3 + 1e-2 * rel * size, "C20/flatten/edge_length", "edge ({},{}) has length {l3:e} in 3D and {l2:e} in the flattening ({} vertices)", e.0, e.1, bm.v.len());
    }
    // triangles keep their area and all have one orientation
    let mut pos = 0;
    let mut neg = 0;
    for (i, t3) in bm.f.iter().enumerate() {
        let a2 = area2(&uv[t3[0] as usize], &uv[t3[1] as usize], &uv[t3[2] as usize]);
        let (a, b, c) = soup.tri(i);
        let a3 = crate::oracle::tri_area(&a, &b, &c);
        ensure!((a2.abs() - a3).abs() <= 2.0 * rel * a3 + 1e-4 * rel * size * size, "C20/flatten/triangle_area", "face {i} has area {a3:e} in 3D and {:e} in the flattening", a2.abs());
        if a2 > 0.0 {
            pos += 1
        } else {
            neg += 1
        }
    }
    ensure!(pos == 0 || neg == 0, "C20/flatten/folded", "{pos} triangles have positive and {neg} negative orientation in the flattening: the layout is folded");
    // "keeps positive orientation": with the vertices of each face taken in face order the flattened triangle is
    // counter-clockwise, i.e. the layout is the disk seen from the side its normals point to, not its mirror image
    ensure!(neg == 0, "C20/flatten/mirrored", "all {neg} triangles have negative orientation in the flattening: the layout is the mirror image of the disk");
    cx.label(if spec.flip_all { "planar_cw" } else { "planar_ccw" });
    cx.label_if(matches!(spec.kind, MeshKind::LGrid { .. }), "nonconvex");
    // hence the shape is the original up to a rigid motion: compare with the planar coordinates of the lifted mesh
    let inv = spec.pose.to_iso().inverse();
    let flat: Vec<Point2> = unscaled.iter().map(|p| { let q = inv * p; Point2::new(q.x * unit, q.y * unit) }).collect();
    let flat_m: Vec<Point2> = flat.iter().map(|p| Point2::new(-p.x, p.y)).collect();
    // seen from the side of the normals: the local x-y layout for counter-clockwise faces, its mirror image for clockwise
    let r = if spec.flip_all { rigid_residual(&flat_m, &uv) } else { rigid_residual(&flat, &uv) };
    ensure!(r <= rel * size, "C20/flatten/not_congruent", "after the best planar rigid fit the flattening is {r:e} away from the original planar shape (size {size:e})");
    // invariance under a rigid motion of the input, and across repeated runs
    let mut iso = t.to_iso();
    iso.translation.vector *= unit;
    let moved: Vec<Point3> = vin.iter().map(|p| iso * p).collect();
    match flatten(&moved, &bm.f) {
        Ok(Ok(mut uv2)) => {
            uv2.truncate(n0);
            let r = rigid_residual(&uv, &uv2);
            ensure!(r <= 0.1 * rel * size * (1.0 + iso.translation.vector.norm() / size * 1e-3), "C20/flatten/not_invariant_under_rigid_motion", "flattening of the moved mesh differs from the original flattening by {r:e} after the best planar rigid fit");
        }
        Ok(Err(e)) => return Verdict::fail("C20/flatten/moved_disk_rejected", e),
        Err(m) => return Verdict::fail("C20/flatten/panic", m),
    }
    if let Ok(Ok(mut uv3)) = flatten(&vin, &bm.f) {
        uv3.truncate(n0);
        ensure!(rigid_residual(&uv, &uv3) <= 0.1 * rel * size, "C20/flatten/not_repeatable", "two runs on the same mesh differ");
    }
    let interior = bm.v.len() as i64 - bm.topo.boundary_edges as i64;
    if interior >= 1 && spec.shuffle != 0 && spec.pose.is_generic() {
        cx.nontrivial();
    }
    cx.pass()
}

/// A planar disk with two needle-shaped (but non-degenerate) faces: every edge, the short interior one included, keeps
/// its length and every face its orientation.
fn needle(n: usize, r: f64, rad: &[f64], delta_rel: f64, pose: &Iso3D) -> Verdict {
    let mut cx = Ctx::new();
    cx.label("planar_needle_faces");
    let n = n.clamp(6, 12) & !1;
    let delta = delta_rel * r;
    let mut flat: Vec<Point2> = (0..n)
        .map(|k| {
            let th = -std::f64::consts::FRAC_PI_2 + k as f64 * std::f64::consts::TAU / n as f64;
            let rr = if k == 0 || k == n / 2 { r } else { r * rad[k % rad.len()] };
            Point2::new(rr * th.cos(), rr * th.sin())
        })
        .collect();
    // exact top and bottom vertices on the axis through the short edge's midpoint
    flat[0] = Point2::new(0.0, -r);
    flat[n / 2] = Point2::new(0.0, r);
    let (ip, iq) = (n as u32, n as u32 + 1);
    flat.push(Point2::new(-0.5 * delta, 0.0));
    flat.push(Point2::new(0.5 * delta, 0.0));
    let mut f: Vec<[u32; 3]> = vec![];
    for k in 0..n {
        let (a, b) = (k as u32, ((k + 1) % n) as u32);
        f.push([a, b, if k < n / 2 { iq } else { ip }]);
    }
    f.push([(n / 2) as u32, ip, iq]);
    f.push([0, iq, ip]);
    let iso = pose.to_iso();
    let v: Vec<Point3> = flat.iter().map(|p| iso * Point3::new(p.x, p.y, 0.0)).collect();
    for t in &f {
        if area2(&flat[t[0] as usize], &flat[t[1] as usize], &flat[t[2] as usize]) <= 0.0 {
            return Verdict::Discard("generated outline is not star-shaped about the short edge");
        }
    }
    let uv = match flatten(&v, &f) {
        Ok(Ok(uv)) => uv,
        Ok(Err(e)) => return Verdict::fail("C20/flatten/planar_disk_rejected", format!("planar disk with two needle faces rejected: {e}")),
        Err(m) => return Verdict::fail("C20/flatten/panic", m),
    };
    ensure!(uv.len() == v.len() && uv.iter().all(|p| p.x.is_finite() && p.y.is_finite()), "C20/flatten/non_finite", "count or finiteness");
    let tol = 1e-7 * r;
    let mut edges: std::collections::BTreeSet<(u32, u32)> = std::collections::BTreeSet::new();
    for t in &f {
        for k in 0..3 {
            let (a, b) = (t[k], t[(k + 1) % 3]);
            edges.insert((a.min(b), a.max(b)));
        }
    }
    for (a, b) in &edges {
        let l3 = (v[*a as usize] - v[*b as usize]).norm();
        let l2 = (uv[*a as usize] - uv[*b as usize]).norm();
        ensure!((l2 - l3).abs() <= tol, "C20/flatten/edge_length/needle", "edge ({a},{b}) has length {l3:e} in 3D and {l2:e} in the flattening (short edge {delta:e}, size {r:e})");
    }
    for (i, t) in f.iter().enumerate() {
        let a2 = area2(&uv[t[0] as usize], &uv[t[1] as usize], &uv[t[2] as usize]);
        ensure!(a2 > 0.0, "C20/flatten/folded/needle", "face {i} has area {a2:e} in the flattening");
    }
    cx.nontrivial();
    cx.pass()
}

fn curved(spec: &MeshSpec, t: &Iso3D, unit: f64) -> Verdict {
    let mut cx = Ctx::new();
    cx.label("curved");
    let Some(mut bm) = spec.build() else { return Verdict::Discard("empty mesh") };
    for p in bm.v.iter_mut() {
        *p = Point3::from(p.coords * unit);
    }
    cx.label_if(unit < 1e-4, "unit_below_1e-4");
    if !(bm.topo.manifold && bm.topo.consistent && bm.topo.boundary_loops == 1 && bm.topo.components == 1 && !bm.topo.vertex_only_contact) {
        return Verdict::Discard("generator did not produce a disk");
    }
    let soup = bm.soup();
    for i in 0..soup.f.len() {
        let (a, b, c) = soup.tri(i);
        let lmax = (b - a).norm().max((c - b).norm()).max((a - c).norm());
        if crate::oracle::tri_area(&a, &b, &c) < 1e-3 * lmax * lmax {
            return Verdict::Discard("sliver face");
        }
    }
    let size = soup.size();
    let uv = match flatten(&bm.v, &bm.f) {
        Ok(Ok(uv)) => uv,
        Ok(Err(e)) => return Verdict::fail("C20/flatten/curved_disk_rejected", format!("disk rejected: {e}")),
        Err(m) => return Verdict::fail("C20/flatten/panic", m),
    };
    ensure!(uv.len() == bm.v.len() && uv.iter().all(|p| p.x.is_finite() && p.y.is_finite()), "C20/flatten/non_finite", "count or finiteness");
    let mut iso = t.to_iso();
    iso.translation.vector *= unit;
    let moved: Vec<Point3> = bm.v.iter().map(|p| iso * p).collect();
    match flatten(&moved, &bm.f) {
        Ok(Ok(uv2)) => {
            let r = rigid_residual(&uv, &uv2);
            ensure!(r <= 0.1 * rel_tolerance(&soup) * size * (1.0 + iso.translation.vector.norm() / size * 1e-3), "C20/flatten/not_invariant_under_rigid_motion", "flattening of the moved curved disk differs by {r:e} after the best planar rigid fit (size {size:e})");
        }
        Ok(Err(e)) => return Verdict::fail("C20/flatten/moved_disk_rejected", e),
        Err(m) => return Verdict::fail("C20/flatten/panic", m),
    }
    if spec.shuffle != 0 {
        cx.nontrivial();
    }
    cx.pass()
}

fn reject(kind: &NonDisk, spec: &MeshSpec) -> Verdict {
    let mut cx = Ctx::new();
    let mut spec = spec.clone();
    if matches!(kind, NonDisk::GridWithHole) {
        // remove the two faces of an interior cell: computed after building, below
        spec.holes = vec![];
    }
    let Some(bm) = spec.build() else { return Verdict::Discard("empty mesh") };
    let (mut v, mut f) = (bm.v.clone(), bm.f.clone());
    match kind {
        NonDisk::NonManifoldFin => {
            // a third face on an interior edge
            let Some((e, _)) = bm.topo.edge_faces.iter().find(|(_, l)| l.len() == 2) else { return Verdict::Discard("no interior edge") };
            let (a, b) = (v[e.0 as usize], v[e.1 as usize]);
            let n = tri_normal(&bm.v[bm.f[0][0] as usize], &bm.v[bm.f[0][1] as usize], &bm.v[bm.f[0][2] as usize]).unwrap();
            v.push(Point3::from((a.coords + b.coords) * 0.5) + n * (a - b).norm());
            f.push([e.0, e.1, v.len() as u32 - 1]);
        }
        NonDisk::GridWithHole => {
            // drop every face touching one interior vertex
            let boundary: std::collections::BTreeSet<u32> = bm.topo.edge_faces.iter().filter(|(_, l)| l.len() == 1).flat_map(|(e, _)| [e.0, e.1]).collect();
            let Some(iv) = (0..v.len() as u32).find(|i| !boundary.contains(i)) else { return Verdict::Discard("no interior vertex") };
            f.retain(|t| !t.contains(&iv));
        }
        _ => {}
    }
    let topo = Topo::of(v.len(), &f);
    let is_disk = topo.manifold && topo.boundary_loops == 1 && topo.components == 1 && !topo.vertex_only_contact && topo.boundary_edges > 0;
    if is_disk {
        return Verdict::Discard("generator produced a disk");
    }
    let (label, class) = match kind {
        NonDisk::Closed => ("reject_closed", "closed"),
        NonDisk::TwoLoops => ("reject_two_loops", "two_boundary_loops"),
        NonDisk::TwoComponents => ("reject_two_components", "two_components"),
        NonDisk::NonManifoldFin => ("reject_nonmanifold", "nonmanifold_edge"),
        NonDisk::Bowtie => ("reject_bowtie", "bowtie_vertex"),
        NonDisk::GridWithHole => ("reject_hole", "interior_hole"),
    };
    cx.label(label);
    match flatten(&v, &f) {
        Ok(Err(_)) => {}
        Ok(Ok(uv)) => {
            return Verdict::fail(format!("C20/flatten/non_disk_accepted/{class}"), format!("a mesh that is not a single-boundary disk ({class}: {} vertices, {} faces, {} boundary loops, {} components) was flattened to {} points instead of being rejected", v.len(), f.len(), topo.boundary_loops, topo.components, uv.len()));
        }
        Err(m) => return Verdict::fail(format!("C20/flatten/non_disk_panic/{class}"), format!("panic instead of an error on a non-disk ({class}): {m}")),
    }
    cx.nontrivial();
    cx.pass()
}

fn uv(spec: &MeshSpec, affine: &[f64; 6], samples: &[(u16, f64, f64, f64)]) -> Verdict {
    let mut cx = Ctx::new();
    cx.label("uv");
    let Some(bm) = spec.build() else { return Verdict::Discard("empty mesh") };
    let soup = bm.soup();
    for i in 0..soup.f.len() {
        let (a, b, c) = soup.tri(i);
        let lmax = (b - a).norm().max((c - b).norm()).max((a - c).norm());
        if crate::oracle::tri_area(&a, &b, &c) < 1e-3 * lmax * lmax {
            return Verdict::Discard("sliver face");
        }
    }
    let det = affine[0] * affine[3] - affine[1] * affine[2];
    if det.abs() < 0.1 {
        return Verdict::Discard("affine map nearly singular");
    }
    // UV = affine image of the planar layout (injective)
    let inv = spec.pose.to_iso().inverse();
    let uvs: Vec<Point2> = bm.v.iter().map(|p| { let q = inv * p; Point2::new(affine[0] * q.x + affine[1] * q.y + affine[4], affine[2] * q.x + affine[3] * q.y + affine[5]) }).collect();
    let map = match UvMapping::new(uvs.clone(), bm.f.clone()) {
        Ok(m) => m,
        Err(e) => return Verdict::fail("C20/uv/mapping_rejected", format!("{e}")),
    };
    ensure!(map.faces() == &bm.f[..], "C20/uv/faces", "UV faces differ from the mesh faces");
    let mesh = Mesh::new_with_uv(bm.v.clone(), bm.f.clone(), false, Some(map));
    ensure!(mesh.uv().is_some(), "C20/uv/missing", "uv() is None");
    let size = soup.size();
    let tol = 1e-9 * (size + soup.max_abs());
    let uvscale = uvs.iter().fold(1.0f64, |m, p| m.max(p.coords.amax()));
    for (fi, b0, b1, h) in samples {
        let i = idx(*fi, bm.f.len());
        let (mut u, mut w) = (*b0, *b1);
        if u + w > 0.95 {
            u *= 0.5;
            w *= 0.5;
        }
        let mut bc = [1.0 - u - w, u, w];
        // a third of the surface samples lie exactly on an edge of their face (one barycentric weight zero), on each of
        // the three edges in turn
        if *h == 0.0 && *b0 < 0.35 {
            let e = (*fi as usize / 7) % 3;
            bc = [0.0; 3];
            bc[e] = 1.0 - *b1;
            bc[(e + 1) % 3] = *b1;
            cx.label("uv_sample_on_edge");
        }
        let (a, b, c) = soup.tri(i);
        let n = tri_normal(&a, &b, &c).unwrap();
        let on = Point3::from(a.coords * bc[0] + b.coords * bc[1] + c.coords * bc[2]);
        let p = on + n * (*h * size);
        let t = bm.f[i];
        let expect_uv = Point2::from(uvs[t[0] as usize].coords * bc[0] + uvs[t[1] as usize].coords * bc[1] + uvs[t[2] as usize].coords * bc[2]);
        let got = match guarded(|| mesh.uv_with_tol(&p, 0.2 * size, 0.3, None)) {
            Ok(g) => g,
            Err(m) => return Verdict::fail("C20/uv/uv_with_tol_panic", m),
        };
        let Some((guv, depth)) = got else {
            return Verdict::fail("C20/uv/uv_with_tol_none", format!("point {:e} above the interior of face {i} is not mapped", h * size));
        };
        ensure!((guv - expect_uv).norm() <= 1e-9 * uvscale * 10.0, "C20/uv/uv_value", "uv {:?}, expected the barycentric image {:?}", guv, expect_uv);
        ensure!((depth - h * size).abs() <= tol, "C20/uv/depth", "depth {depth:e}, the point was lifted by {:e}", h * size);
        // the same physical point given in another frame together with the motion that brings it into the mesh's frame:
        // the same UV and the same depth, so that UV + depth still rebuild the point
        {
            let k = (*fi as f64) * 0.37 + 0.2;
            let frame = engeom::Iso3::new(engeom::Vector3::new(0.3 * size, -0.7 * size, 0.45 * size), engeom::Vector3::new(0.4 + k.sin(), -0.9 * k.cos(), 0.6));
            let pre = frame.inverse() * p;
            let via = match guarded(|| mesh.uv_with_tol(&pre, 0.2 * size, 0.3, Some(&frame))) {
                Ok(g) => g,
                Err(m) => return Verdict::fail("C20/uv/uv_with_tol_transform_panic", m),
            };
            let moved = frame * pre;
            // the re-composed point differs from p by rounding only; near the cap or the angle limit that could flip
            // acceptance, so only accepted answers are compared and a refusal is checked against the direct query of `moved`
            match via {
                Some((vuv, vdepth)) => {
                    ensure!((vuv - expect_uv).norm() <= 1e-9 * uvscale * 10.0 + 1e-7 * uvscale, "C20/uv/transform_uv", "uv {:?} with the transform argument, expected {:?}", vuv, expect_uv);
                    ensure!((vdepth - h * size).abs() <= tol * 10.0 + 1e-9 * frame.translation.vector.norm(), "C20/uv/transform_depth", "depth {vdepth:e} with the transform argument; the point was lifted by {:e} and the direct query gives {depth:e}", h * size);
                }
                None => {
                    let direct = mesh.uv_with_tol(&moved, 0.2 * size, 0.3, None);
                    ensure!(direct.is_none(), "C20/uv/transform_none", "uv_with_tol with a transform argument maps nothing, the transformed point itself is mapped");
                }
            }
            cx.label("uv_transform_argument");
        }
        let back = match guarded(|| mesh.uv_to_3d(&guv)) {
            Ok(b) => b,
            Err(m) => return Verdict::fail("C20/uv/uv_to_3d_panic", m),
        };
        let Some(sp) = back else { return Verdict::fail("C20/uv/uv_to_3d_none", "uv_to_3d returned None".to_string()) };
        ensure!((sp.point - on).norm() <= 1e-8 * (size + soup.max_abs()), "C20/uv/round_trip_point", "uv_to_3d(uv) is {:e} from the surface point", (sp.point - on).norm());
        ensure!((sp.normal.into_inner() - n).norm() <= 1e-9, "C20/uv/round_trip_normal", "uv_to_3d(uv) normal is not the face normal");
    }
    cx.nontrivial();
    cx.pass()
}
