//! C17 — Series and discrete domains stay sorted, finite and function-preserving

use crate::ensure;
use crate::fw::*;
use crate::gen::*;
use engeom::common::{linear_space, DiscreteDomain, Interval};
use engeom::func1::Func1;
use engeom::Series1;
use proptest::prelude::*;
use serde::{Deserialize, Serialize};

pub struct C17;

#[derive(Clone, Debug, Serialize, Deserialize)]
pub struct Cut {
    pub i: u16,
    pub f: f64,
    pub on_knot: bool,
}

#[derive(Clone, Debug, Serialize, Deserialize)]
pub enum Op {
    ScaledBy { sx: f64, sy: f64 },
    ShiftBy { dx: f64, dy: f64 },
    Between { a: Cut, b: Cut },
    InInterval { a: Cut, b: Cut },
    SplitAt { c: Cut, keep_left: bool },
    ResampledN { n: usize },
    ResampledX { frac: f64 },
    Abs,
}

#[derive(Clone, Debug, Serialize, Deserialize)]
pub enum Case {
    /// series history: base abscissae are start + cumulative increments (0 = repeated value)
    Series { start: f64, incs: Vec<f64>, ys: Vec<f64>, nan_mask: Vec<bool>, ops: Vec<Op>, levels: Vec<f64> },
    /// domain constructors
    TryFrom { values: Vec<F> },
    Linear { a: f64, b: f64, n: usize, free_fn: bool },
    Push { base: Vec<f64>, pushes: Vec<F> },
    IndexOf { start: f64, incs: Vec<f64>, queries: Vec<Cut> },
    TryNew { xs: Vec<f64>, ny: usize },
}

fn cut() -> BoxedStrategy<Cut> {
    (any::<u16>(), unif(0.0, 1.0), prop::bool::weighted(0.35)).prop_map(|(i, f, on_knot)| Cut { i, f, on_knot }).boxed()
}

fn op() -> BoxedStrategy<Op> {
    let scale = || prop_oneof![3 => unif(0.1, 4.0), 3 => unif(-4.0, -0.1), 1 => prop::sample::select(vec![1.0, -1.0, 2.0, -0.5])];
    prop_oneof![
        2 => (scale(), scale()).prop_map(|(sx, sy)| Op::ScaledBy { sx, sy }),
        1 => (coord(10.0), coord(10.0)).prop_map(|(dx, dy)| Op::ShiftBy { dx, dy }),
        3 => (cut(), cut()).prop_map(|(a, b)| Op::Between { a, b }),
        1 => (cut(), cut()).prop_map(|(a, b)| Op::InInterval { a, b }),
        3 => (cut(), any::<bool>()).prop_map(|(c, keep_left)| Op::SplitAt { c, keep_left }),
        2 => (2usize..40).prop_map(|n| Op::ResampledN { n }),
        1 => unif(0.01, 1.5).prop_map(|frac| Op::ResampledX { frac }),
        1 => Just(Op::Abs),
    ]
    .boxed()
}

fn incs(nmax: usize) -> BoxedStrategy<Vec<f64>> {
    prop::collection::vec(prop_oneof![2 => Just(0.0), 1 => unif(1e-6, 1e-5), 8 => unif(0.01, 1.0), 2 => prop::sample::select(vec![0.125, 0.25, 0.5, 1.0])], 0..nmax).boxed()
}

impl Property for C17 {
    type Case = Case;
    const ID: &'static str = "C17";
    fn rule() -> &'static str {
        "histories: a base series (1-60 abscissae built from increments incl. exact repeats and 1e-6 gaps; lattice/real ordinates; optional NaN ordinates) followed by 0-5 derived operations (scale incl. negative, shift, between/in_interval/split with cut points on knots or strictly inside segments, resample by n / by spacing, abs); after every step the sorted/finite/length invariant and the function identities against the harness's own piecewise-linear evaluator are checked; plus domain constructor cases (try_from, linear with bounds in either order, linear_space, push, index_of, Series1::try_new). Non-trivial: >=2 ops with at least one cut strictly inside a segment and (a repeated abscissa or a negative x scale); for constructor cases: reversed bounds, rejected pushes, unsorted/non-finite inputs. Distinct = distinct canonical JSON."
    }
    fn cases(t: Tier) -> u32 {
        t.pick(1_800_000, 30_000_000)
    }
    fn expected_labels() -> Vec<&'static str> {
        vec!["series", "fs_over_wider_domain", "repeated_abscissa", "negative_scale", "cut_inside", "cut_on_knot", "split", "resample", "crossings", "linear_reversed", "push_rejected", "try_from_err", "had_nan", "single_point"]
    }
    fn strategy(_t: Tier) -> BoxedStrategy<Case> {
        let series = (coord(10.0), incs(59), prop::collection::vec(prop_oneof![2 => coord(5.0), 1 => (-3i32..=3).prop_map(|k| k as f64)], 60), prop::collection::vec(prop::bool::weighted(0.08), 60), prop::bool::weighted(0.15), prop::collection::vec(op(), 0..6), prop::collection::vec(prop_oneof![1 => (-3i32..=3).prop_map(|k| k as f64), 2 => unif(-5.0, 5.0)], 1..4))
            .prop_map(|(start, incs, ys, mask, use_nan, ops, levels)| {
                let n = incs.len() + 1;
                Case::Series { start, incs, ys: ys[..n].to_vec(), nan_mask: if use_nan { mask[..n].to_vec() } else { vec![false; n] }, ops, levels }
            });
        let special = prop::sample::select(vec![F(f64::NAN), F(f64::INFINITY), F(f64::NEG_INFINITY)]);
        let tryfrom = prop::collection::vec(prop_oneof![8 => coord(10.0).prop_map(F), 1 => special.clone()], 0..8).prop_map(|mut values| {
            // half the time sort the finite ones so Ok cases are common
            if values.len() % 2 == 0 {
                values.sort_by(|a, b| a.0.partial_cmp(&b.0).unwrap_or(std::cmp::Ordering::Equal));
            }
            Case::TryFrom { values }
        });
        let linear = (coord(10.0), coord(10.0), 2usize..40, any::<bool>()).prop_map(|(a, b, n, free_fn)| Case::Linear { a, b, n, free_fn });
        let push = (incs(6), prop::collection::vec(prop_oneof![6 => coord(6.0).prop_map(F), 1 => special], 1..8)).prop_map(|(incs, pushes)| {
            let mut base = vec![];
            let mut x = -1.0;
            for i in incs {
                x += i;
                base.push(x);
            }
            Case::Push { base, pushes }
        });
        let index_of = (coord(10.0), incs(20), prop::collection::vec(cut(), 1..8)).prop_map(|(start, incs, queries)| Case::IndexOf { start, incs, queries });
        let trynew = (prop::collection::vec(coord(4.0), 0..6), 0usize..7).prop_map(|(xs, ny)| Case::TryNew { xs, ny });
        prop_oneof![12 => series, 1 => tryfrom, 2 => linear, 1 => push, 1 => index_of, 1 => trynew].boxed()
    }
    fn check(case: &Case) -> Verdict {
        match case {
            Case::Series { start, incs, ys, nan_mask, ops, levels } => check_series(*start, incs, ys, nan_mask, ops, levels),
            Case::TryFrom { values } => check_try_from(values),
            Case::Linear { a, b, n, free_fn } => check_linear(*a, *b, *n, *free_fn),
            Case::Push { base, pushes } => check_push(base, pushes),
            Case::IndexOf { start, incs, queries } => check_index_of(*start, incs, queries),
            Case::TryNew { xs, ny } => check_try_new(xs, *ny),
        }
    }
}

// ---------------------------------------------------------------------------------------------
// harness model: piecewise linear function on sorted knots

#[derive(Clone, Debug)]
pub struct Model {
    pub xs: Vec<f64>,
    pub ys: Vec<f64>,
}

pub enum Eval {
    Outside,
    Ambiguous,
    Val(f64),
}

impl Model {
    pub fn eval(&self, x: f64) -> Eval {
        let n = self.xs.len();
        if x < self.xs[0] || x > self.xs[n - 1] {
            return Eval::Outside;
        }
        // exact knot hits
        let hits: Vec<usize> = (0..n).filter(|&i| self.xs[i] == x).collect();
        if !hits.is_empty() {
            let y0 = self.ys[hits[0]];
            if hits.iter().all(|&i| self.ys[i] == y0) {
                return Eval::Val(y0);
            }
            return Eval::Ambiguous;
        }
        for i in 0..n - 1 {
            if self.xs[i] < x && x < self.xs[i + 1] {
                let (x0, x1, y0, y1) = (self.xs[i], self.xs[i + 1], self.ys[i], self.ys[i + 1]);
                let t = (x - x0) / (x1 - x0);
                return Eval::Val(y0 + t * (y1 - y0));
            }
        }
        Eval::Ambiguous
    }
    pub fn max_slope(&self) -> f64 {
        let mut m: f64 = 0.0;
        for i in 0..self.xs.len().saturating_sub(1) {
            let dx = self.xs[i + 1] - self.xs[i];
            if dx > 0.0 {
                m = m.max(((self.ys[i + 1] - self.ys[i]) / dx).abs());
            }
        }
        m
    }
    pub fn ymax(&self) -> f64 {
        self.ys.iter().fold(0.0f64, |a, b| a.max(b.abs()))
    }
    pub fn xabs(&self) -> f64 {
        self.xs.iter().fold(0.0f64, |a, b| a.max(b.abs()))
    }
    pub fn tol(&self) -> f64 {
        1e-9 * (1.0 + self.ymax()) + self.max_slope() * 16.0 * ulp(self.xabs().max(1e-300))
    }
    pub fn area(&self) -> (f64, f64) {
        let mut a = 0.0;
        let mut abs = 0.0;
        for i in 0..self.xs.len().saturating_sub(1) {
            let t = (self.xs[i + 1] - self.xs[i]) * (self.ys[i] + self.ys[i + 1]) * 0.5;
            a += t;
            abs += t.abs();
        }
        (a, abs)
    }
    pub fn has_repeat(&self) -> bool {
        self.xs.windows(2).any(|w| w[0] == w[1])
    }
    fn cut(&self, c: &Cut) -> (f64, bool) {
        let n = self.xs.len();
        if n == 1 {
            return (self.xs[0], true);
        }
        if c.on_knot {
            (self.xs[idx(c.i, n)], true)
        } else {
            let i = idx(c.i, n - 1);
            let (x0, x1) = (self.xs[i], self.xs[i + 1]);
            let x = x0 + c.f * (x1 - x0);
            let x = x.max(x0).min(x1);
            (x, x == x0 || x == x1)
        }
    }
}

fn invariant(s: &Series1, site: &str) -> Result<Model, Failure> {
    let xs = s.x.values().to_vec();
    if xs.len() != s.y.len() {
        return Err(failure(format!("C17/{site}/length_mismatch"), format!("{site}: {} abscissae but {} ordinates", xs.len(), s.y.len())));
    }
    if xs.is_empty() {
        return Err(failure(format!("C17/{site}/empty"), format!("{site}: produced an empty series")));
    }
    if xs.iter().any(|x| !x.is_finite()) {
        return Err(failure(format!("C17/{site}/non_finite_abscissa"), format!("{site}: abscissae {:?}", xs)));
    }
    if xs.windows(2).any(|w| w[0] > w[1]) {
        return Err(failure(format!("C17/{site}/not_ascending"), format!("{site}: abscissae not ascending {:?}", xs)));
    }
    Ok(Model { xs, ys: s.y.clone() })
}

/// compare the library's interpolation of `child` against a reference function at probe xs
fn compare_fn(site: &str, child: &Series1, cm: &Model, reference: &dyn Fn(f64) -> Option<f64>, tol: f64, knots_only: bool) -> Result<usize, Failure> {
    let mut probes: Vec<f64> = cm.xs.clone();
    for w in cm.xs.windows(2) {
        if w[1] > w[0] && !knots_only {
            probes.push(0.5 * (w[0] + w[1]));
            probes.push(w[0] + 0.25 * (w[1] - w[0]));
        }
    }
    let mut compared = 0;
    for x in probes {
        let Some(r) = reference(x) else { continue };
        // child evaluation through the library, skipping ambiguous child knots
        if let Eval::Ambiguous = cm.eval(x) {
            continue;
        }
        let got = child.interpolate(x);
        if !(got - r).abs().le(&tol) {
            return Err(failure(format!("C17/{site}/function_changed"), format!("{site}: result evaluates to {got:e} at x={x:e}, expected {r:e} (tol {tol:e}); result knots x={:?} y={:?}", cm.xs, cm.ys)));
        }
        compared += 1;
    }
    Ok(compared)
}

fn check_series(start: f64, incs: &[f64], ys: &[f64], nan_mask: &[bool], ops: &[Op], levels: &[f64]) -> Verdict {
    let mut cx = Ctx::new();
    cx.label("series");
    let mut xs = vec![start];
    for i in incs {
        let l = *xs.last().unwrap();
        xs.push(l + i);
    }
    let mut ys: Vec<f64> = ys.to_vec();
    let had_nan = nan_mask.iter().any(|b| *b);
    for (y, m) in ys.iter_mut().zip(nan_mask) {
        if *m {
            *y = f64::NAN;
        }
    }
    let base = match Series1::try_new(xs.clone(), ys.clone()) {
        Ok(s) => s,
        Err(e) => return Verdict::fail("C17/try_new/rejected_valid", format!("Series1::try_new rejected sorted finite abscissae: {e}")),
    };
    let mut cur = base;
    if had_nan {
        cx.label("had_nan");
        if ys.iter().all(|y| y.is_nan()) {
            return Verdict::Discard("all ordinates NaN");
        }
        let r = match guarded(|| cur.remove_nan()) {
            Ok(r) => r,
            Err(m) => return Verdict::fail("C17/remove_nan/panic", m),
        };
        let exp: Vec<(f64, f64)> = xs.iter().zip(ys.iter()).filter(|(_, y)| !y.is_nan()).map(|(x, y)| (*x, *y)).collect();
        let got: Vec<(f64, f64)> = r.x.values().iter().cloned().zip(r.y.iter().cloned()).collect();
        ensure!(got == exp, "C17/remove_nan/pairs", "remove_nan kept {:?}, expected {:?}", got, exp);
        cur = r;
    }
    let mut m = match invariant(&cur, "base") {
        Ok(m) => m,
        Err(f) => return Verdict::Fail(f),
    };
    cx.label_if(m.xs.len() == 1, "single_point");
    let mut any_repeat = m.has_repeat();
    let mut neg_scale = false;
    let mut cut_inside = false;
    let mut applied = 0;

    for (k, op) in ops.iter().enumerate() {
        let n = m.xs.len();
        let range = m.xs[n - 1] - m.xs[0];
        let site: String;
        let parent = m.clone();
        let ptol = parent.tol();
        let result: Result<Series1, String>;
        // reference function for the result, in terms of the parent model
        let reference: Box<dyn Fn(f64) -> Option<f64>>;
        let mut exact_ends: Option<(f64, f64)> = None;
        match op {
            Op::ScaledBy { sx, sy } => {
                site = "scaled_by".into();
                let (sx, sy) = (*sx, *sy);
                result = guarded(|| cur.scaled_by(sx, sy));
                let p = parent.clone();
                reference = Box::new(move |x| match p.eval(x / sx) {
                    Eval::Val(v) => Some(v * sy),
                    _ => None,
                });
                if sx < 0.0 {
                    neg_scale = true;
                    cx.label("negative_scale");
                }
            }
            Op::ShiftBy { dx, dy } => {
                site = "shift_by".into();
                let (dx, dy) = (*dx, *dy);
                result = guarded(|| cur.shift_by(dx, dy));
                let p = parent.clone();
                reference = Box::new(move |x| match p.eval(x - dx) {
                    Eval::Val(v) => Some(v + dy),
                    _ => None,
                });
            }
            Op::Between { a, b } | Op::InInterval { a, b } => {
                let (xa, ka) = parent.cut(a);
                let (xb, kb) = parent.cut(b);
                let (x0, x1) = if xa <= xb { (xa, xb) } else { (xb, xa) };
                if !(x0 < x1) {
                    continue;
                }
                if !ka || !kb {
                    cut_inside = true;
                    cx.label("cut_inside");
                }
                if ka || kb {
                    cx.label("cut_on_knot");
                }
                if matches!(op, Op::Between { .. }) {
                    site = "between".into();
                    result = guarded(|| cur.between(x0, x1));
                } else {
                    site = "in_interval".into();
                    result = guarded(|| cur.in_interval(Interval::new(x0, x1)));
                }
                exact_ends = Some((x0, x1));
                let p = parent.clone();
                reference = Box::new(move |x| match p.eval(x) {
                    Eval::Val(v) => Some(v),
                    _ => None,
                });
            }
            Op::SplitAt { c, keep_left } => {
                site = "split_at_x".into();
                cx.label("split");
                let (x, on_knot) = parent.cut(c);
                if !on_knot {
                    cut_inside = true;
                    cx.label("cut_inside");
                } else {
                    cx.label("cut_on_knot");
                }
                let r = guarded(|| cur.split_at_x(x));
                let (l, r) = match r {
                    Ok(v) => v,
                    Err(msg) => return Verdict::fail("C17/split_at_x/panic", format!("split_at_x({x:e}) panicked: {msg}; knots {:?}", parent.xs)),
                };
                let (Some(l), Some(r)) = (l, r) else {
                    return Verdict::fail("C17/split_at_x/missing_piece", format!("split_at_x({x:e}) inside [{:e},{:e}] did not return two pieces", parent.xs[0], parent.xs[n - 1]));
                };
                let lm = match invariant(&l, "split_at_x(left)") {
                    Ok(m) => m,
                    Err(f) => return Verdict::Fail(f),
                };
                let rm = match invariant(&r, "split_at_x(right)") {
                    Ok(m) => m,
                    Err(f) => return Verdict::Fail(f),
                };
                ensure!(lm.xs[0] == parent.xs[0] && *lm.xs.last().unwrap() == x, "C17/split_at_x/left_ends", "left piece spans [{:e},{:e}], expected [{:e},{x:e}]", lm.xs[0], lm.xs.last().unwrap(), parent.xs[0]);
                ensure!(rm.xs[0] == x && *rm.xs.last().unwrap() == parent.xs[n - 1], "C17/split_at_x/right_ends", "right piece spans [{:e},{:e}], expected [{x:e},{:e}]", rm.xs[0], rm.xs.last().unwrap(), parent.xs[n - 1]);
                let (pa, pabs) = parent.area();
                let (la, _) = (l.area_under(), 0);
                let ra = r.area_under();
                let atol = 1e-9 * (pabs + 1e-300) + ptol * range.max(1e-300) * 4.0;
                ensure!(((la + ra) - pa).abs() <= atol, "C17/split_at_x/areas_add", "areas of pieces {la:e} + {ra:e} != whole {pa:e} (tol {atol:e}) splitting at {x:e}; knots x={:?} y={:?}", parent.xs, parent.ys);
                let p = parent.clone();
                let rf = move |x: f64| match p.eval(x) {
                    Eval::Val(v) => Some(v),
                    _ => None,
                };
                if let Err(f) = compare_fn("split_at_x(left)", &l, &lm, &rf, ptol, false) {
                    return Verdict::Fail(f);
                }
                if let Err(f) = compare_fn("split_at_x(right)", &r, &rm, &rf, ptol, false) {
                    return Verdict::Fail(f);
                }
                if *keep_left {
                    cur = l;
                    m = lm;
                } else {
                    cur = r;
                    m = rm;
                }
                any_repeat |= m.has_repeat();
                applied += 1;
                let _ = k;
                continue;
            }
            Op::ResampledN { n: rn } => {
                site = "resampled_n".into();
                cx.label("resample");
                let rn = *rn;
                result = guarded(|| cur.resampled_n(rn));
                let p = parent.clone();
                reference = Box::new(move |x| match p.eval(x) {
                    Eval::Val(v) => Some(v),
                    _ => None,
                });
            }
            Op::ResampledX { frac } => {
                site = "resampled_x".into();
                cx.label("resample");
                if range <= 0.0 {
                    continue;
                }
                let dx = frac * range;
                result = guarded(|| cur.resampled_x(dx));
                let p = parent.clone();
                reference = Box::new(move |x| match p.eval(x) {
                    Eval::Val(v) => Some(v),
                    _ => None,
                });
            }
            Op::Abs => {
                site = "abs".into();
                result = guarded(|| cur.abs());
                // only knot values are defined by abs()
                reference = Box::new(|_| None);
            }
        }
        let child = match result {
            Ok(c) => c,
            Err(msg) => return Verdict::fail(format!("C17/{site}/panic"), format!("{site} panicked: {msg}; op {:?}; knots x={:?} y={:?}", op, parent.xs, parent.ys)),
        };
        let cm = match invariant(&child, &site) {
            Ok(m) => m,
            Err(f) => return Verdict::Fail(f),
        };
        // not collapsed
        // (a span of a few ulps can legitimately vanish when the abscissae are moved to a larger magnitude)
        if range > 16.0 * ulp(cm.xabs().max(parent.xabs()).max(1e-300)) {
            let crange = cm.xs[cm.xs.len() - 1] - cm.xs[0];
            ensure!(crange > 0.0, format!("C17/{site}/collapsed"), "{site}: parent spans {range:e} but the result collapsed to a single abscissa {:?}", cm.xs);
        }
        if let Some((x0, x1)) = exact_ends {
            ensure!(cm.xs[0] == x0 && *cm.xs.last().unwrap() == x1, format!("C17/{site}/ends"), "{site}({x0:e},{x1:e}) spans [{:e},{:e}]", cm.xs[0], cm.xs.last().unwrap());
            // all parent knots strictly inside are present, in order
            let inside: Vec<f64> = parent.xs.iter().cloned().filter(|x| *x > x0 && *x < x1).collect();
            let got: Vec<f64> = cm.xs.iter().cloned().filter(|x| *x > x0 && *x < x1).collect();
            ensure!(inside == got, format!("C17/{site}/knots_kept"), "{site}({x0:e},{x1:e}) interior knots {:?}, parent has {:?}", got, inside);
        }
        match op {
            Op::ResampledN { n: rn } => {
                ensure!(cm.xs.len() == *rn, "C17/resampled_n/count", "resampled_n({rn}) returned {} points", cm.xs.len());
                ensure!(cm.xs[0] == parent.xs[0], "C17/resampled_n/first", "first abscissa {:e} != {:e}", cm.xs[0], parent.xs[0]);
                let last = *cm.xs.last().unwrap();
                ensure!((last - parent.xs[n - 1]).abs() <= 4.0 * ulp(parent.xabs().max(1e-300)), "C17/resampled_n/last", "last abscissa {last:e} != {:e}", parent.xs[n - 1]);
                // evenly spaced
                let step = range / (*rn as f64 - 1.0);
                for (i, x) in cm.xs.iter().enumerate() {
                    let e = parent.xs[0] + i as f64 * step;
                    ensure!((x - e).abs() <= 8.0 * ulp(parent.xabs().max(1e-300)) + 1e-12 * range, "C17/resampled_n/spacing", "abscissa {i} is {x:e}, expected {e:e}");
                }
            }
            Op::ResampledX { frac } => {
                let dx = frac * range;
                for w in cm.xs.windows(2) {
                    ensure!(w[1] - w[0] <= dx * (1.0 + 1e-9) + 4.0 * ulp(cm.xabs().max(1e-300)), "C17/resampled_x/spacing", "spacing {:e} exceeds requested {dx:e}", w[1] - w[0]);
                }
                ensure!(cm.xs[0] == parent.xs[0] && (*cm.xs.last().unwrap() - parent.xs[n - 1]).abs() <= 4.0 * ulp(parent.xabs().max(1e-300)), "C17/resampled_x/ends", "resampled_x does not span the parent: [{:e},{:e}] vs [{:e},{:e}]", cm.xs[0], cm.xs.last().unwrap(), parent.xs[0], parent.xs[n - 1]);
            }
            Op::Abs => {
                ensure!(cm.xs == parent.xs, "C17/abs/abscissae", "abs changed abscissae");
                for (a, b) in cm.ys.iter().zip(parent.ys.iter()) {
                    ensure!(*a == b.abs(), "C17/abs/values", "abs value {a:e} vs {b:e}");
                }
            }
            Op::ScaledBy { sx, sy } => {
                ensure!(cm.xs.len() == parent.xs.len(), "C17/scaled_by/count", "scaled_by changed the number of points");
                // knot pairs map one to one
                let mut exp: Vec<(f64, f64)> = parent.xs.iter().zip(parent.ys.iter()).map(|(x, y)| (x * sx, y * sy)).collect();
                if *sx < 0.0 {
                    exp.reverse();
                }
                let got: Vec<(f64, f64)> = cm.xs.iter().cloned().zip(cm.ys.iter().cloned()).collect();
                ensure!(got == exp, "C17/scaled_by/pairs", "scaled_by({sx:e},{sy:e}) pairs {:?}, expected {:?}", got, exp);
            }
            _ => {}
        }
        // tolerance of the comparison: parent's, scaled for scale ops
        let ctol = match op {
            Op::ScaledBy { sy, .. } => ptol * sy.abs().max(1.0) + cm.tol(),
            _ => ptol + cm.tol(),
        };
        if let Err(f) = compare_fn(&site, &child, &cm, &*reference, ctol, matches!(op, Op::ResampledN { .. } | Op::ResampledX { .. })) {
            return Verdict::Fail(f);
        }
        cur = child;
        m = cm;
        any_repeat |= m.has_repeat();
        applied += 1;
    }

    // final series: interpolation semantics
    let n = m.xs.len();
    let tol = m.tol();
    let mut probes = m.xs.clone();
    for w in m.xs.windows(2) {
        if w[1] > w[0] {
            probes.push(w[0] + 0.5 * (w[1] - w[0]));
            probes.push(w[0] + 0.9 * (w[1] - w[0]));
        }
    }
    for x in &probes {
        match m.eval(*x) {
            Eval::Val(v) => {
                let got = cur.interpolate(*x);
                ensure!((got - v).abs() <= tol, "C17/interpolate/value", "interpolate({x:e}) = {got:e}, expected {v:e}; knots x={:?} y={:?}", m.xs, m.ys);
                if m.xs.contains(x) {
                    ensure!(got == v, "C17/interpolate/knot_value", "interpolate at knot {x:e} = {got:e}, stored {v:e}");
                }
                let gf = cur.f(*x);
                ensure!(gf == got || (gf.is_nan() && got.is_nan()), "C17/interpolate/func1", "Func1::f disagrees with interpolate at {x:e}");
            }
            Eval::Ambiguous => {
                // repeated abscissa with different ordinates: any of the stored values is acceptable
                let got = cur.interpolate(*x);
                let ok = (0..n).any(|i| m.xs[i] == *x && m.ys[i] == got);
                ensure!(ok, "C17/interpolate/repeated_knot", "interpolate at repeated knot {x:e} = {got:e} is none of the stored values");
            }
            Eval::Outside => {}
        }
    }
    for x in [next_down(m.xs[0]), next_up(m.xs[n - 1]), m.xs[0] - 1.0, m.xs[n - 1] + 1.0] {
        let got = cur.interpolate(x);
        ensure!(got.is_nan(), "C17/interpolate/outside_not_nan", "interpolate({x:e}) outside [{:e},{:e}] returned {got:e}", m.xs[0], m.xs[n - 1]);
    }
    // the vectorised evaluation over a domain reaching beyond both ends: one value per abscissa, each equal to f there
    // (NaN outside), and a series sampled over it has as many ordinates as abscissae
    {
        use engeom::func1::Func1;
        let span = (m.xs[n - 1] - m.xs[0]).abs().max(1.0);
        let mut dx: Vec<f64> = vec![m.xs[0] - 0.5 * span, m.xs[0] - 0.25 * span];
        dx.extend(probes.iter().cloned());
        dx.push(m.xs[n - 1] + 0.25 * span);
        dx.push(m.xs[n - 1] + 0.5 * span);
        dx.sort_by(|a, b| a.partial_cmp(b).unwrap());
        if let Ok(dom) = DiscreteDomain::try_from(dx.clone()) {
            let ys = match guarded(|| cur.fs(&dom)) {
                Ok(y) => y,
                Err(msg) => return Verdict::fail("C17/fs/panic", msg),
            };
            ensure!(ys.len() == dx.len(), "C17/fs/length", "fs over a domain of {} abscissae (reaching beyond both ends of the series) returned {} values", dx.len(), ys.len());
            for (x, y) in dx.iter().zip(ys.iter()) {
                let w = cur.f(*x);
                let ambiguous = matches!(m.eval(*x), Eval::Ambiguous);
                ensure!(ambiguous || *y == w || (y.is_nan() && w.is_nan()), "C17/fs/value", "fs gives {y:e} at {x:e}, f gives {w:e}");
            }
            if let Ok(sampled) = guarded(|| Series1::from_sampled(&cur, dom.clone())) {
                ensure!(sampled.y.len() == sampled.x.len(), "C17/from_sampled/lengths", "from_sampled over a wider domain has {} abscissae and {} ordinates", sampled.x.len(), sampled.y.len());
            }
            cx.label("fs_over_wider_domain");
        }
    }
    // area = trapezoid sum
    if n >= 2 {
        let (a, abs) = m.area();
        let got = cur.area_under();
        ensure!((got - a).abs() <= 1e-9 * (abs + 1e-300), "C17/area_under/trapezoid", "area_under = {got:e}, trapezoid sum {a:e}");
    }
    // derivations that keep the abscissae and replace the ordinates (smoothing, derivative, pointwise scaling, adding or
    // subtracting a function): same abscissae, one ordinate per abscissa, values by their definitions
    if m.ys.iter().all(|y| y.is_finite()) {
        cx.label("y_only_derivations");
        let same_x = |site: &str, d: &Series1| -> Result<(), Failure> {
            let dx: Vec<f64> = d.x.values().to_vec();
            crate::ensure_r!(d.y.len() == dx.len(), format!("C17/{site}/length_mismatch"), "{site}: {} abscissae but {} ordinates (parent has {} knots)", dx.len(), d.y.len(), n);
            crate::ensure_r!(dx == m.xs, format!("C17/{site}/abscissae"), "{site} changed the abscissae: {:?} -> {:?}", m.xs, dx);
            Ok(())
        };
        let sg = match guarded(|| cur.savitzky_golay()) {
            Ok(d) => d,
            Err(msg) => return Verdict::fail("C17/savitzky_golay/panic", format!("{msg}; {n} knots")),
        };
        if let Err(f) = same_x("savitzky_golay", &sg) {
            return Verdict::Fail(f);
        }
        let w = [-3.0, 12.0, 17.0, 12.0, -3.0];
        for j in 0..n {
            let (mut sum, mut tot) = (0.0, 0.0);
            for (k, wk) in w.iter().enumerate() {
                let i = j as i64 + k as i64 - 2;
                if i >= 0 && (i as usize) < n {
                    sum += wk * m.ys[i as usize];
                    tot += wk;
                }
            }
            let e = sum / tot;
            ensure!((sg.y[j] - e).abs() <= 1e-9 * (1.0 + m.ymax()), "C17/savitzky_golay/value", "smoothed ordinate {j} of {n} is {:e}, the 5-point kernel truncated to the series gives {e:e}; y={:?}", sg.y[j], m.ys);
        }
        cx.label_if(n <= 3, "smoothing_short_series");
        // the series itself as the function: y*y, y+y, y-y at the knots (a repeated abscissa makes f(x) one of two values)
        if !m.has_repeat() {
            let f: &dyn Func1 = &cur;
            for (site, d, exp) in [
                ("scaled_y", guarded(|| cur.scaled_y(f)), Box::new(|y: f64| y * y) as Box<dyn Fn(f64) -> f64>),
                ("add", guarded(|| &cur + f), Box::new(|y: f64| y + y)),
                ("sub", guarded(|| &cur - f), Box::new(|y: f64| y - y)),
            ] {
                let d = match d {
                    Ok(d) => d,
                    Err(msg) => return Verdict::fail(format!("C17/{site}/panic"), msg),
                };
                if let Err(f) = same_x(site, &d) {
                    return Verdict::Fail(f);
                }
                for j in 0..n {
                    let e = exp(m.ys[j]);
                    ensure!((d.y[j] - e).abs() <= 1e-9 * (1.0 + e.abs()), format!("C17/{site}/value"), "{site} with the series itself as the function: ordinate {j} is {:e}, expected {e:e}", d.y[j]);
                }
            }
            if n >= 2 {
                let dd = match guarded(|| cur.dydx()) {
                    Ok(d) => d,
                    Err(msg) => return Verdict::fail("C17/dydx/panic", msg),
                };
                if let Err(f) = same_x("dydx", &dd) {
                    return Verdict::Fail(f);
                }
                for j in 0..n {
                    let (a, b) = (if j == 0 { 0 } else { j - 1 }, if j == n - 1 { n - 1 } else { j + 1 });
                    let e = (m.ys[b] - m.ys[a]) / (m.xs[b] - m.xs[a]);
                    ensure!((dd.y[j] - e).abs() <= 1e-9 * (1.0 + e.abs()), "C17/dydx/value", "derivative at knot {j} is {:e}, the difference quotient over its neighbours is {e:e}", dd.y[j]);
                }
            }
        }
    }
    // the remaining read-only queries of the public API, against a scan of the stored knots
    if n >= 2 && !m.has_repeat() && m.ys.iter().all(|y| y.is_finite()) {
        cx.label("scan_queries");
        // index_of_x_after: first knot at or after x (n beyond the end)
        let mut qs = m.xs.clone();
        for w in m.xs.windows(2) {
            qs.push(w[0] + 0.5 * (w[1] - w[0]));
        }
        qs.push(m.xs[0] - 1.0 - m.xs[0].abs());
        qs.push(m.xs[n - 1] + 1.0 + m.xs[n - 1].abs());
        for q in &qs {
            let exp = m.xs.iter().filter(|x| **x < *q).count();
            let got = match guarded(|| cur.index_of_x_after(*q)) {
                Ok(g) => g,
                Err(msg) => return Verdict::fail("C17/index_of_x_after/panic", msg),
            };
            ensure!(got == exp, "C17/index_of_x_after/wrong", "index_of_x_after({q:e}) = {got}, the first knot at or after it is {exp}; knots {:?}", m.xs);
        }
        // per-interval areas: one (midpoint, trapezoid) per interval, summing to area_under
        let parts = cur.middle_reiemann_areas();
        ensure!(parts.len() == n - 1, "C17/middle_reiemann_areas/count", "{} areas for {} intervals", parts.len(), n - 1);
        let (_, abs_area) = m.area();
        for (i, (mx, a)) in parts.iter().enumerate() {
            let (x0, x1, y0, y1) = (m.xs[i], m.xs[i + 1], m.ys[i], m.ys[i + 1]);
            let ea = (x1 - x0) * (y0 + y1) * 0.5;
            ensure!(*mx >= x0 && *mx <= x1 && (*mx - 0.5 * (x0 + x1)).abs() <= 4.0 * ulp(m.xabs().max(1e-300)), "C17/middle_reiemann_areas/midpoint", "interval {i} [{x0:e},{x1:e}] reports abscissa {mx:e}");
            ensure!((a - ea).abs() <= 1e-12 * (ea.abs() + abs_area) + 1e-300, "C17/middle_reiemann_areas/area", "interval {i}: area {a:e}, trapezoid {ea:e}");
        }
        // extremes
        let (mut imax, mut imin) = (0usize, 0usize);
        for i in 1..n {
            if m.ys[i] > m.ys[imax] {
                imax = i;
            }
            if m.ys[i] < m.ys[imin] {
                imin = i;
            }
        }
        ensure!(cur.y_max() == m.ys[imax] && cur.y_min() == m.ys[imin], "C17/y_min_max/value", "y_min/y_max = {:e}/{:e}, stored extremes {:e}/{:e}", cur.y_min(), cur.y_max(), m.ys[imin], m.ys[imax]);
        let (gx, gy) = cur.global_maxima_xy();
        ensure!(gy == m.ys[imax] && gx == m.xs[imax], "C17/global_maxima_xy/value", "global_maxima_xy = ({gx:e},{gy:e}), first greatest knot is ({:e},{:e}); y={:?}", m.xs[imax], m.ys[imax], m.ys);
        for (name, (lx, ly)) in [("global_minima_xy", cur.global_minima_xy()), ("global_minima_x", cur.global_minima_x())] {
            ensure!(ly == m.ys[imin] && lx == m.xs[imin], format!("C17/{name}/value"), "{name} = ({lx:e},{ly:e}), first least knot is ({:e},{:e}); y={:?}", m.xs[imin], m.ys[imin], m.ys);
        }
        ensure!(cur.is_ordered(), "C17/is_ordered/false", "is_ordered() is false for strictly ascending knots {:?}", m.xs);
        let pts = cur.as_points();
        let pairs: Vec<(f64, f64)> = cur.xys().map(|(x, y)| (*x, *y)).collect();
        ensure!(pts.len() == n && pairs.len() == n && (0..n).all(|i| pts[i].x == m.xs[i] && pts[i].y == m.ys[i] && pairs[i] == (m.xs[i], m.ys[i])), "C17/as_points/pairs", "as_points / xys do not list the stored knots in order");
        // local maxima: every knot strictly above both neighbours (one neighbour at the ends) is listed, nothing else
        let strict_max = |i: usize| (i == 0 || m.ys[i] > m.ys[i - 1]) && (i == n - 1 || m.ys[i] > m.ys[i + 1]);
        let lm = cur.local_maxima_xs();
        let exp_lm: Vec<f64> = (0..n).filter(|&i| strict_max(i)).map(|i| m.xs[i]).collect();
        ensure!(lm == exp_lm, "C17/local_maxima_xs/set", "local_maxima_xs = {:?}, knots above both neighbours are {:?}; y={:?}", lm, exp_lm, m.ys);
        // plateau around a maximum: the component of { f >= f(x) - t } containing x, cut at the level crossings either
        // side (an end of the domain where the series is still above the level counts as a crossing)
        let yr = (m.ys[imax] - m.ys[imin]).abs();
        let mut asks: Vec<(f64, f64, f64)> = vec![]; // (x, f(x), t)
        for i in (0..n).filter(|&i| strict_max(i)) {
            for t in [0.25 * yr, 1e-3 * yr, 2.0 * yr + 1.0] {
                asks.push((m.xs[i], m.ys[i], t));
            }
            for l in levels {
                if *l < m.ys[i] {
                    asks.push((m.xs[i], m.ys[i], m.ys[i] - *l));
                }
            }
        }
        let ytol = 1e-9 * (1.0 + m.ymax());
        for (x, fx, t) in asks.into_iter().filter(|a| a.2 > 4.0 * ytol).take(24) {
            let level = fx - t;
            // exact contact of the level with a knot or a flat segment makes the set of crossings itself a matter of
            // convention; those levels are decided by the y_crossings block below, not here
            if m.ys.iter().any(|y| (*y - level).abs() <= 4.0 * ytol) {
                cx.label("plateau_level_on_knot_excluded");
                continue;
            }
            let got = match guarded(|| cur.plateau_at_maxima(x, t)) {
                Ok(g) => g,
                Err(msg) => return Verdict::fail("C17/plateau_at_maxima/panic", format!("plateau_at_maxima({x:e},{t:e}) panicked: {msg}; knots x={:?} y={:?}", m.xs, m.ys)),
            };
            // reference: walk outwards from x over knots above the level
            let k = m.xs.iter().position(|v| *v == x).unwrap();
            let mut lo = m.xs[0];
            for i in (0..k).rev() {
                if m.ys[i] < level {
                    lo = m.xs[i] + (level - m.ys[i]) * (m.xs[i + 1] - m.xs[i]) / (m.ys[i + 1] - m.ys[i]);
                    break;
                }
            }
            let mut hi = m.xs[n - 1];
            for i in k + 1..n {
                if m.ys[i] < level {
                    hi = m.xs[i - 1] + (level - m.ys[i - 1]) * (m.xs[i] - m.xs[i - 1]) / (m.ys[i] - m.ys[i - 1]);
                    break;
                }
            }
            let xt = |v: f64| 2e-10 + 64.0 * ulp(v.abs().max(m.xabs()));
            match got {
                None => return Verdict::fail("C17/plateau_at_maxima/none", format!("plateau_at_maxima({x:e},{t:e}) = None, but the series stays above {level:e} on [{lo:e},{hi:e}] around x; knots x={:?} y={:?}", m.xs, m.ys)),
                Some(iv) => {
                    ensure!((iv.min - lo).abs() <= xt(lo) && (iv.max - hi).abs() <= xt(hi), "C17/plateau_at_maxima/bounds", "plateau_at_maxima({x:e},{t:e}) = [{:e},{:e}], the series is above {level:e} exactly on [{lo:e},{hi:e}] around x; knots x={:?} y={:?}", iv.min, iv.max, m.xs, m.ys);
                }
            }
            cx.label("plateau");
            cx.label_if(k == n - 1, "plateau_at_last_knot");
            cx.label_if(k == 0, "plateau_at_first_knot");
        }
    }
    // level crossings
    if n >= 2 {
        for level in levels {
            let level = *level;
            // flat-at-level segments: the solution set contains whole intervals, so no finite list can be
            // "exactly" it; what is decided there is no panic, soundness of every reported value, every isolated
            // solution reported, and at least one representative per flat interval
            let flats: Vec<(f64, f64)> = (0..n - 1).filter(|&i| m.ys[i] == level && m.ys[i + 1] == level && m.xs[i + 1] > m.xs[i]).map(|i| (m.xs[i], m.xs[i + 1])).collect();
            let vertical_any = (0..n - 1).any(|i| m.xs[i + 1] == m.xs[i] && ((m.ys[i] - level) * (m.ys[i + 1] - level) <= 0.0));
            if !flats.is_empty() && !vertical_any {
                cx.label("level_flat");
                let got = match guarded(|| cur.y_crossings(level)) {
                    Ok(g) => g,
                    Err(msg) => return Verdict::fail("C17/y_crossings/panic_flat", format!("y_crossings({level:e}) panicked on a segment flat at the level: {msg}; knots x={:?} y={:?}", m.xs, m.ys)),
                };
                let xtol = |x: f64| 2e-10 + 64.0 * ulp(x.abs().max(m.xabs()));
                let mut isolated: Vec<f64> = vec![];
                for i in 0..n - 1 {
                    let (x0, x1, y0, y1) = (m.xs[i], m.xs[i + 1], m.ys[i], m.ys[i + 1]);
                    if (y0 - level) * (y1 - level) <= 0.0 && y0 != y1 {
                        isolated.push(x0 + (level - y0) * (x1 - x0) / (y1 - y0));
                    }
                }
                for g in &got {
                    let in_flat = flats.iter().any(|(a, b)| *g >= a - xtol(*a) && *g <= b + xtol(*b));
                    let is_iso = isolated.iter().any(|t| (g - t).abs() <= xtol(*t));
                    ensure!(g.is_finite() && (in_flat || is_iso), "C17/y_crossings/spurious_flat", "reported crossing {g:e} of level {level:e} is not a solution; flats {:?} isolated {:?}; knots x={:?} y={:?}", flats, isolated, m.xs, m.ys);
                }
                for t in &isolated {
                    ensure!(got.iter().any(|g| (g - t).abs() <= xtol(*t)), "C17/y_crossings/missed_flat", "crossing of level {level:e} at x={t:e} not reported; got {:?}; knots x={:?} y={:?}", got, m.xs, m.ys);
                }
                for (a, b) in &flats {
                    ensure!(got.iter().any(|g| *g >= a - xtol(*a) && *g <= b + xtol(*b)), "C17/y_crossings/flat_unreported", "segment [{a:e},{b:e}] lies on level {level:e} but no abscissa of it is reported; got {:?}", got);
                }
                ensure!(got.windows(2).all(|w| w[0] < w[1]), "C17/y_crossings/order", "crossings not strictly ascending: {:?}", got);
                continue;
            }
            if !flats.is_empty() {
                cx.label("level_flat_vertical_excluded");
                continue;
            }
            // vertical jump across the level at a repeated abscissa: the interpolant is not a function there; excluded
            let vertical = (0..n - 1).any(|i| m.xs[i + 1] == m.xs[i] && ((m.ys[i] - level) * (m.ys[i + 1] - level) <= 0.0));
            if vertical {
                cx.label("level_vertical_excluded");
                continue;
            }
            let got = match guarded(|| cur.y_crossings(level)) {
                Ok(g) => g,
                Err(msg) => return Verdict::fail("C17/y_crossings/panic", format!("y_crossings({level:e}) panicked: {msg}; knots x={:?} y={:?}", m.xs, m.ys)),
            };
            let mut truth: Vec<f64> = vec![];
            for i in 0..n - 1 {
                let (x0, x1, y0, y1) = (m.xs[i], m.xs[i + 1], m.ys[i], m.ys[i + 1]);
                if (y0 - level) * (y1 - level) <= 0.0 {
                    // y0 != y1 here (flat excluded; if both equal level -> flat with x1==x0 is vertical-excluded)
                    if y0 == y1 {
                        continue;
                    }
                    truth.push(x0 + (level - y0) * (x1 - x0) / (y1 - y0));
                }
            }
            let xtol = |x: f64| 2e-10 + 64.0 * ulp(x.abs().max(m.xabs()));
            for t in &truth {
                ensure!(got.iter().any(|g| (g - t).abs() <= xtol(*t)), "C17/y_crossings/missed", "crossing of level {level:e} at x={t:e} not reported; got {:?}; knots x={:?} y={:?}", got, m.xs, m.ys);
            }
            for g in &got {
                ensure!(g.is_finite() && truth.iter().any(|t| (g - t).abs() <= xtol(*t)), "C17/y_crossings/spurious", "reported crossing {g:e} of level {level:e} is not a crossing; truth {:?}; knots x={:?} y={:?}", truth, m.xs, m.ys);
            }
            ensure!(got.windows(2).all(|w| w[0] < w[1]), "C17/y_crossings/order", "crossings not strictly ascending: {:?}", got);
            cx.label_if(!truth.is_empty(), "crossings");
            if level == 0.0 {
                // bounds_at_y0 tiles [x_min, x_max] with constant sign inside each interval
                let b = match guarded(|| cur.bounds_at_y0()) {
                    Ok(b) => b,
                    Err(msg) => return Verdict::fail("C17/bounds_at_y0/panic", msg),
                };
                if m.xs[n - 1] - m.xs[0] > 1e-9 {
                    ensure!(!b.is_empty(), "C17/bounds_at_y0/empty", "no intervals for a series spanning {:e}", m.xs[n - 1] - m.xs[0]);
                    ensure!((b[0].min - m.xs[0]).abs() <= 2e-10 && (b[b.len() - 1].max - m.xs[n - 1]).abs() <= 2e-10, "C17/bounds_at_y0/cover", "intervals span [{:e},{:e}] not [{:e},{:e}]", b[0].min, b[b.len() - 1].max, m.xs[0], m.xs[n - 1]);
                    for w in b.windows(2) {
                        ensure!(w[0].max == w[1].min, "C17/bounds_at_y0/tiling", "intervals do not tile: {:?}", b);
                    }
                    for iv in &b {
                        let mut pos = false;
                        let mut neg = false;
                        for f in [0.25, 0.5, 0.75] {
                            let x = iv.min + f * (iv.max - iv.min);
                            if let Eval::Val(v) = m.eval(x) {
                                if v > tol {
                                    pos = true
                                }
                                if v < -tol {
                                    neg = true
                                }
                            }
                        }
                        ensure!(!(pos && neg), "C17/bounds_at_y0/sign", "interval [{:e},{:e}] contains both signs; knots x={:?} y={:?}", iv.min, iv.max, m.xs, m.ys);
                    }
                }
            }
        }
    }
    // history on the final series as an object: it has been interpolated, integrated and searched above; it is now extended
    // through its public abscissa domain and ordinates and must answer like a series freshly built from what it holds
    {
        let n = m.xs.len();
        if n >= 2 && m.ys.iter().all(|y| y.is_finite()) {
            let span = (m.xs[n - 1] - m.xs[0]).abs().max(1e-3 * (1.0 + m.xabs()));
            let mut ext = cur.clone();
            let (xa, xb) = (m.xs[n - 1] + 0.25 * span, m.xs[n - 1] + 0.75 * span);
            let (ya, yb) = (m.ys[n - 1] + 1.0, m.ys[0] - 2.0);
            if ext.x.push(xa).is_ok() && ext.x.push(xb).is_ok() {
                ext.y.push(ya);
                ext.y.push(yb);
                let mut xs2 = m.xs.clone();
                xs2.extend([xa, xb]);
                let mut ys2 = m.ys.clone();
                ys2.extend([ya, yb]);
                if let Ok(fresh) = Series1::try_new(xs2.clone(), ys2.clone()) {
                    for who in [&ext, &ext.clone()] {
                        for q in [xa, 0.5 * (xa + xb), xb, 0.5 * (m.xs[n - 1] + xa), m.xs[0]] {
                            let (g, w) = (who.interpolate(q), fresh.interpolate(q));
                            ensure!(g == w || (g.is_nan() && w.is_nan()), "C17/history/interpolate_after_extension", "after extending the series, interpolate({q:e}) = {g:e}; a series built from the same data gives {w:e}");
                        }
                        let (ga, wa) = (who.area_under(), fresh.area_under());
                        ensure!(ga == wa || (ga - wa).abs() <= 1e-12 * wa.abs(), "C17/history/area_after_extension", "after extending the series, area_under = {ga:e}; fresh series {wa:e}");
                        let (gl, wl) = (who.best_fit_line(), fresh.best_fit_line());
                        ensure!((gl.m() == wl.m() && gl.b() == wl.b()) || (gl.m().is_nan() && wl.m().is_nan()), "C17/history/fit_after_extension", "after extending the series its best-fit line differs from a fresh series's");
                        ensure!(who.x_max() == xb && who.x.bounds().map(|b| b.max) == Some(xb), "C17/history/bounds_after_extension", "after extending the series x_max / bounds do not include the new knots");
                    }
                    cx.label("series_extended");
                }
            }
        }
    }
    cx.label_if(any_repeat, "repeated_abscissa");
    if applied >= 2 && cut_inside && (any_repeat || neg_scale) {
        cx.nontrivial();
    }
    cx.pass()
}

fn check_try_from(values: &[F]) -> Verdict {
    let mut cx = Ctx::new();
    let v: Vec<f64> = values.iter().map(|x| x.0).collect();
    let valid = v.iter().all(|x| x.is_finite()) && v.windows(2).all(|w| w[0] <= w[1]);
    match DiscreteDomain::try_from(v.clone()) {
        Ok(d) => {
            ensure!(valid, "C17/try_from/accepted_invalid", "DiscreteDomain::try_from accepted {:?}", v);
            ensure!(d.values() == &v[..], "C17/try_from/values_changed", "values changed");
            cx.label("try_from_ok");
        }
        Err(_) => {
            ensure!(!valid, "C17/try_from/rejected_valid", "DiscreteDomain::try_from rejected {:?}", v);
            cx.label("try_from_err");
            cx.nontrivial();
        }
    }
    cx.pass()
}

fn check_linear(a: f64, b: f64, n: usize, free_fn: bool) -> Verdict {
    let mut cx = Ctx::new();
    if free_fn {
        // linear_space is documented first = start, last = end; only start <= end is asserted as a domain
        let (a, b) = if a <= b { (a, b) } else { (b, a) };
        let d = linear_space(a, b, n);
        let v = d.values();
        ensure!(v.len() == n, "C17/linear_space/count", "linear_space({a:e},{b:e},{n}) has {} values", v.len());
        ensure!(v.iter().all(|x| x.is_finite()) && v.windows(2).all(|w| w[0] <= w[1]), "C17/linear_space/not_ascending", "linear_space({a:e},{b:e},{n}) = {:?}", v);
        ensure!(v[0] == a && (v[n - 1] - b).abs() <= 4.0 * ulp(a.abs().max(b.abs())), "C17/linear_space/ends", "linear_space({a:e},{b:e},{n}) spans [{:e},{:e}]", v[0], v[n - 1]);
        cx.label("linear_space");
        return cx.pass();
    }
    let d = match guarded(|| DiscreteDomain::linear(a, b, n)) {
        Ok(d) => d,
        Err(m) => return Verdict::fail("C17/linear/panic", m),
    };
    let v = d.values();
    let (lo, hi) = (a.min(b), a.max(b));
    ensure!(v.len() == n, "C17/linear/count", "DiscreteDomain::linear({a:e},{b:e},{n}) has {} values", v.len());
    ensure!(v.iter().all(|x| x.is_finite()) && v.windows(2).all(|w| w[0] <= w[1]), "C17/linear/not_ascending", "DiscreteDomain::linear({a:e},{b:e},{n}) = {:?}", v);
    let t = 4.0 * ulp(hi.abs().max(lo.abs()).max(1e-300));
    ensure!((v[0] - lo).abs() <= t && (v[n - 1] - hi).abs() <= t, if a > b { "C17/linear/ends/reversed_bounds" } else { "C17/linear/ends" }, "DiscreteDomain::linear({a:e},{b:e},{n}) spans [{:e},{:e}], expected [{lo:e},{hi:e}]", v[0], v[n - 1]);
    if a > b {
        cx.label("linear_reversed");
        cx.nontrivial();
    }
    cx.label_if(a == b, "linear_equal_bounds");
    cx.pass()
}

fn check_push(base: &[f64], pushes: &[F]) -> Verdict {
    let mut cx = Ctx::new();
    let mut d = match DiscreteDomain::try_from(base.to_vec()) {
        Ok(d) => d,
        Err(e) => return Verdict::fail("C17/try_from/rejected_valid", format!("{e}")),
    };
    let mut model = base.to_vec();
    let mut rejected = 0;
    let mut accepted = 0;
    // every observer is consulted before the first push and after every push, on the object itself and on a clone: the
    // domain must answer for its current contents whatever was asked of it earlier
    fn observe(d: &DiscreteDomain, model: &[f64], when: &str) -> Result<(), Failure> {
        let copy = d.clone();
        for dom in [d, &copy] {
            match dom.bounds() {
                None => crate::ensure_r!(model.is_empty(), "C17/push/bounds_none", "{when}: bounds() is None for {:?}", model),
                Some(b) => {
                    crate::ensure_r!(!model.is_empty() && b.min == model[0] && b.max == model[model.len() - 1], "C17/push/bounds_stale", "{when}: bounds() = [{:e},{:e}] but the domain holds {:?}", b.min, b.max, model);
                }
            }
            if model.len() >= 2 {
                let n = model.len();
                for (lo, hi) in [(model[n - 2], model[n - 1]), (model[0], model[1])] {
                    if hi > lo {
                        let q = lo + 0.5 * (hi - lo);
                        if q > lo && q < hi {
                            let got = dom.index_of(q);
                            crate::ensure_r!(got.map(|i| model[i] <= q && (i + 1 >= n || model[i + 1] >= q)).unwrap_or(false), "C17/push/index_of_stale", "{when}: index_of({q:e}) = {:?} in {:?}", got, model);
                        }
                    }
                }
            }
        }
        Ok(())
    }
    if let Err(f) = observe(&d, &model, "before any push") {
        return Verdict::Fail(f);
    }
    for p in pushes {
        let x = p.0;
        let ok = x.is_finite() && model.last().map(|l| x >= *l).unwrap_or(true);
        let r = d.push(x);
        ensure!(r.is_ok() == ok, if ok { "C17/push/rejected_valid" } else { "C17/push/accepted_invalid" }, "push({x:e}) onto {:?} returned ok={}", model, r.is_ok());
        if ok {
            model.push(x);
            accepted += 1;
        } else {
            rejected += 1;
        }
        ensure!(d.values() == &model[..], "C17/push/contents", "after push({x:e}) domain is {:?}, model {:?}", d.values(), model);
        ensure!(d.len() == model.len(), "C17/push/len", "len mismatch");
        if let Err(f) = observe(&d, &model, &format!("after push({x:e})")) {
            return Verdict::Fail(f);
        }
    }
    cx.label_if(rejected > 0, "push_rejected");
    if rejected > 0 && accepted > 0 {
        cx.nontrivial();
    }
    cx.pass()
}

fn check_index_of(start: f64, incs: &[f64], queries: &[Cut]) -> Verdict {
    let mut cx = Ctx::new();
    let mut xs = vec![start];
    for i in incs {
        let l = *xs.last().unwrap();
        xs.push(l + i);
    }
    let d = DiscreteDomain::try_from(xs.clone()).unwrap();
    let m = Model { xs: xs.clone(), ys: xs.clone() };
    let n = xs.len();
    let mut qs: Vec<f64> = queries.iter().map(|c| m.cut(c).0).collect();
    qs.extend([next_down(xs[0]), next_up(xs[n - 1]), xs[0], xs[n - 1]]);
    for q in qs {
        let got = d.index_of(q);
        if q < xs[0] || q > xs[n - 1] {
            ensure!(got.is_none(), "C17/index_of/outside", "index_of({q:e}) outside [{:e},{:e}] = {:?}", xs[0], xs[n - 1], got);
        } else {
            let Some(i) = got else {
                return Verdict::fail("C17/index_of/none_inside", format!("index_of({q:e}) = None inside the domain {:?}", xs));
            };
            // index of a knot <= q such that the next distinct knot is > q (any index among equal knots)
            ensure!(i < n && xs[i] <= q && (i + 1 >= n || xs[i + 1] >= q), "C17/index_of/wrong", "index_of({q:e}) = {i} in {:?}", xs);
            if xs[i] < q {
                ensure!(i + 1 < n && xs[i + 1] > q, "C17/index_of/wrong", "index_of({q:e}) = {i} in {:?}", xs);
            }
        }
    }
    cx.label("index_of");
    cx.label_if(xs.windows(2).any(|w| w[0] == w[1]), "repeated_abscissa");
    cx.pass()
}

fn check_try_new(xs: &[f64], ny: usize) -> Verdict {
    let mut cx = Ctx::new();
    let ys = vec![1.0; ny];
    let sorted = xs.windows(2).all(|w| w[0] <= w[1]);
    let valid = sorted && xs.len() == ny;
    let r = Series1::try_new(xs.to_vec(), ys);
    ensure!(r.is_ok() == valid, if valid { "C17/try_new/rejected_valid" } else { "C17/try_new/accepted_invalid" }, "Series1::try_new(x={:?}, {ny} ordinates) ok={}", xs, r.is_ok());
    cx.label("try_new");
    if !valid {
        cx.nontrivial();
    }
    cx.pass()
}
