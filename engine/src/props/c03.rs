//! C03 — Measurements do not depend on the coordinate frame

use crate::ensure;
use crate::fw::*;
use crate::gen::*;
use crate::gen_mesh::*;
use engeom::common::points::transform_points;
use engeom::common::DistMode;
use engeom::geom2::{Line2, Segment2};
use engeom::metrology::{Distance2, Distance3, Measurement};
use engeom::{Iso2, Iso3, Plane3, Point2, Point3, PointCloud, PointCloudFeatures, SurfacePoint2, SurfacePoint3, To2D, To3D, TransformBy, UnitVec3, Vector2, Vector3};
use proptest::prelude::*;
use serde::{Deserialize, Serialize};

pub struct C03;

#[derive(Clone, Debug, Serialize, Deserialize)]
pub enum Case {
    Sp2 { p: P2, n: f64, t: Iso2D, t2: Iso2D, q: P2 },
    Sp3 { p: P3, n: P3, t: Iso3D, t2: Iso3D, q: P3 },
    Seg2 { a: P2, b: P2, t: Iso2D, q: P2 },
    Plane { n: P3, d: f64, t: Iso3D, t2: Iso3D, q: P3 },
    Curve2 { spec: Curve2Spec, t: Iso2D, t2: Iso2D, qs: Vec<P2>, ls: Vec<f64> },
    /// close: an extra vertex inserted after vertex i at k tolerances (1.05..1.7) from it in the given direction - an edge
    /// just longer than the curve's own de-duplication tolerance
    Curve3 { spec: Curve3Spec, t: Iso3D, t2: Iso3D, qs: Vec<P3>, ls: Vec<f64>, #[serde(default)] close: Option<(u16, P3, f64)> },
    Mesh { spec: MeshSpec, t: Iso3D, qs: Vec<Query> },
    Cloud { pts: Vec<P3>, normals: Option<Vec<P3>>, colors: Option<Vec<[u8; 3]>>, t: Iso3D, t2: Iso3D },
    Dist { a: P2, b: P2, dir: Option<f64>, t: Iso3D },
    Lift { p: P2, v: P2, n: f64 },
}

impl Property for C03 {
    type Case = Case;
    const ID: &'static str = "C03";
    fn rule() -> &'static str {
        "cases: an entity (2D/3D surface point, segment, plane, 2D/3D curve, mesh, point cloud with/without normals and colours, directed distance, 2D<->3D lifts) with one or two isometries (rotation uniform in +-pi plus 0, +-pi/2, pi, +-1e-9; any axis; translations up to 1e3) and query points / arc lengths. Oracle: metamorphic - scalars equal, geometric results moved by T (normals only rotated), T then T^-1 restores, T2*T1 equals sequential application. Non-trivial: rotation angle not a multiple of pi/2 and non-zero translation (curves: >=3 vertices). Distinct = distinct canonical JSON."
    }
    fn cases(t: Tier) -> u32 {
        t.pick(1_600_000, 10_000_000)
    }
    fn expected_labels() -> Vec<&'static str> {
        vec!["sp2", "sp3", "seg2", "plane", "curve2", "curve3", "mesh", "cloud", "cloud_normals", "cloud_colors", "dist", "lift", "closest_tie", "curve3_edge_just_above_tolerance", "uv_with_transform_argument"]
    }
    fn strategy(t: Tier) -> BoxedStrategy<Case> {
        let tm = 1e3;
        let gmax = t.pick(8, 14);
        prop_oneof![
            2 => (p2(10.0), unif(-4.0, 4.0), iso2(tm), iso2(tm), p2(10.0)).prop_map(|(p, n, t, t2, q)| Case::Sp2 { p, n, t, t2, q }),
            2 => (p3(10.0), unit3(), iso3(tm), iso3(tm), p3(10.0)).prop_map(|(p, n, t, t2, q)| Case::Sp3 { p, n, t, t2, q }),
            1 => (p2(10.0), p2(10.0), iso2(tm), p2(10.0)).prop_map(|(a, b, t, q)| Case::Seg2 { a, b, t, q }),
            2 => (unit3(), coord(10.0), iso3(tm), iso3(tm), p3(10.0)).prop_map(|(n, d, t, t2, q)| Case::Plane { n, d, t, t2, q }),
            3 => (curve2_spec(2, 40, -2.0, 2.0, false), iso2(tm), iso2(tm), prop::collection::vec(p2(1.5), 1..6), prop::collection::vec(unif(0.0, 1.0), 1..6)).prop_map(|(spec, t, t2, qs, ls)| Case::Curve2 { spec, t, t2, qs, ls }),
            2 => (curve3_spec(2, 40, -2.0, 2.0, false), iso3(tm), iso3(tm), prop::collection::vec(p3(1.5), 1..6), prop::collection::vec(unif(0.0, 1.0), 1..6), prop::option::weighted(0.3, (any::<u16>(), unit3(), unif(1.05, 1.7)))).prop_map(|(spec, t, t2, qs, ls, close)| Case::Curve3 { spec, t, t2, qs, ls, close }),
            2 => (clean_mesh(any_kind(gmax), 10.0), iso3(tm), prop::collection::vec(query(), 2..10)).prop_map(|(spec, t, qs)| Case::Mesh { spec, t, qs }),
            2 => (prop::collection::vec(p3(10.0), 0..20), any::<bool>(), any::<bool>(), prop::collection::vec(unit3(), 20), prop::collection::vec(any::<[u8; 3]>(), 20), iso3(tm), iso3(tm)).prop_map(|(pts, hn, hc, ns, cs, t, t2)| {
                let n = pts.len();
                Case::Cloud { pts, normals: if hn { Some(ns[..n].to_vec()) } else { None }, colors: if hc { Some(cs[..n].to_vec()) } else { None }, t, t2 }
            }),
            1 => (p2(10.0), p2(10.0), prop::option::of(unif(-4.0, 4.0)), iso3(tm)).prop_map(|(a, b, dir, t)| Case::Dist { a, b, dir, t }),
            1 => (p2(10.0), p2(10.0), unif(-4.0, 4.0)).prop_map(|(p, v, n)| Case::Lift { p, v, n }),
        ]
        .boxed()
    }
    fn check(case: &Case) -> Verdict {
        match case {
            Case::Sp2 { p, n, t, t2, q } => sp2(p, *n, t, t2, q),
            Case::Sp3 { p, n, t, t2, q } => sp3(p, n, t, t2, q),
            Case::Seg2 { a, b, t, q } => seg2(a, b, t, q),
            Case::Plane { n, d, t, t2, q } => plane(n, *d, t, t2, q),
            Case::Curve2 { spec, t, t2, qs, ls } => curve2(spec, t, t2, qs, ls),
            Case::Curve3 { spec, t, t2, qs, ls, close } => curve3(spec, t, t2, qs, ls, close),
            Case::Mesh { spec, t, qs } => mesh(spec, t, qs),
            Case::Cloud { pts, normals, colors, t, t2 } => cloud(pts, normals, colors, t, t2),
            Case::Dist { a, b, dir, t } => dist(a, b, dir, t),
            Case::Lift { p, v, n } => lift(p, v, *n),
        }
    }
}

fn tol2(t: &Iso2D, s: f64) -> f64 {
    1e-9 * (s + t.t[0].abs() + t.t[1].abs() + 1.0)
}
fn tol3(t: &Iso3D, s: f64) -> f64 {
    1e-9 * (s + t.t[0].abs() + t.t[1].abs() + t.t[2].abs() + 1.0)
}

fn sp2(p: &P2, n: f64, t: &Iso2D, t2: &Iso2D, q: &P2) -> Verdict {
    let mut cx = Ctx::new();
    cx.label("sp2");
    let iso = t.to_iso();
    let sp = SurfacePoint2::new_normalize(pt2(p), Vector2::new(n.cos(), n.sin()));
    let q = pt2(q);
    let tol = tol2(t, 40.0) + tol2(t2, 0.0);
    let a = &iso * sp;
    let b = &iso * &sp;
    let c = sp.transformed(&iso);
    ensure!(a.point == c.point && b.point == c.point && a.normal == c.normal && b.normal == c.normal, "C03/sp2/operator_forms", "&Iso * sp, &Iso * &sp and transformed() disagree");
    ensure!((c.point - iso * sp.point).norm() <= tol, "C03/sp2/point", "point not moved by T");
    ensure!((c.normal.into_inner() - iso.rotation * sp.normal.into_inner()).norm() <= 1e-12, "C03/sp2/normal_rotated_only", "normal {:?} is not the rotated normal {:?}", c.normal, iso.rotation * sp.normal.into_inner());
    ensure!((c.normal.norm() - 1.0).abs() <= 1e-12, "C03/sp2/normal_unit", "normal not unit");
    let tq = iso * q;
    ensure!((c.scalar_projection(&tq) - sp.scalar_projection(&q)).abs() <= tol, "C03/sp2/scalar_projection", "scalar projection changed: {:e} vs {:e}", c.scalar_projection(&tq), sp.scalar_projection(&q));
    ensure!((c.planar_distance(&tq) - sp.planar_distance(&q)).abs() <= tol, "C03/sp2/planar_distance", "planar distance changed");
    ensure!((c.projection(&tq) - iso * sp.projection(&q)).norm() <= tol, "C03/sp2/projection", "projection does not commute");
    ensure!((c.at_distance(2.5) - iso * sp.at_distance(2.5)).norm() <= tol, "C03/sp2/at_distance", "at_distance does not commute");
    // inverse and composition
    let back = c.transformed(&iso.inverse());
    ensure!((back.point - sp.point).norm() <= tol && (back.normal.into_inner() - sp.normal.into_inner()).norm() <= 1e-9, "C03/sp2/inverse", "T^-1 T does not restore");
    let i2 = t2.to_iso();
    let seq = c.transformed(&i2);
    let comp = sp.transformed(&(i2 * iso));
    ensure!((seq.point - comp.point).norm() <= tol && (seq.normal.into_inner() - comp.normal.into_inner()).norm() <= 1e-9, "C03/sp2/composition", "T2*T1 differs from sequential application");
    if t.is_generic() {
        cx.nontrivial();
    }
    cx.pass()
}

fn sp3(p: &P3, n: &P3, t: &Iso3D, t2: &Iso3D, q: &P3) -> Verdict {
    let mut cx = Ctx::new();
    cx.label("sp3");
    let iso = t.to_iso();
    let sp = SurfacePoint3::new_normalize(pt3(p), v3(n));
    let q = pt3(q);
    let tol = tol3(t, 40.0) + tol3(t2, 0.0);
    let a = &iso * sp;
    let b = &iso * &sp;
    let c = sp.transformed(&iso);
    ensure!(a.point == c.point && b.point == c.point && a.normal == c.normal && b.normal == c.normal, "C03/sp3/operator_forms", "&Iso * sp, &Iso * &sp and transformed() disagree");
    ensure!((c.point - iso * sp.point).norm() <= tol, "C03/sp3/point", "point not moved by T");
    ensure!((c.normal.into_inner() - iso.rotation * sp.normal.into_inner()).norm() <= 1e-12, "C03/sp3/normal_rotated_only", "normal {:?} is not the rotated normal", c.normal);
    let tq = iso * q;
    ensure!((c.scalar_projection(&tq) - sp.scalar_projection(&q)).abs() <= tol, "C03/sp3/scalar_projection", "scalar projection changed");
    ensure!((c.planar_distance(&tq) - sp.planar_distance(&q)).abs() <= tol, "C03/sp3/planar_distance", "planar distance changed");
    ensure!((c.projection(&tq) - iso * sp.projection(&q)).norm() <= tol, "C03/sp3/projection", "projection does not commute");
    let back = c.transformed(&iso.inverse());
    ensure!((back.point - sp.point).norm() <= tol && (back.normal.into_inner() - sp.normal.into_inner()).norm() <= 1e-9, "C03/sp3/inverse", "T^-1 T does not restore");
    let i2 = t2.to_iso();
    let seq = c.transformed(&i2);
    let comp = sp.transformed(&(i2 * iso));
    ensure!((seq.point - comp.point).norm() <= tol && (seq.normal.into_inner() - comp.normal.into_inner()).norm() <= 1e-9, "C03/sp3/composition", "T2*T1 differs from sequential application");
    if t.is_generic() {
        cx.nontrivial();
    }
    cx.pass()
}

fn seg2(a: &P2, b: &P2, t: &Iso2D, q: &P2) -> Verdict {
    let mut cx = Ctx::new();
    cx.label("seg2");
    let (a, b, q) = (pt2(a), pt2(b), pt2(q));
    if (a - b).norm() < 1e-6 {
        return Verdict::Discard("degenerate segment");
    }
    let iso = t.to_iso();
    let tol = tol2(t, 40.0);
    let s = match Segment2::try_new(a, b) {
        Ok(s) => s,
        Err(e) => return Verdict::fail("C03/seg2/try_new", format!("{e}")),
    };
    let ts = s.transform_by(&iso);
    ensure!((ts.a - iso * a).norm() <= tol && (ts.b - iso * b).norm() <= tol, "C03/seg2/ends", "segment ends not moved by T");
    let tq = iso * q;
    // conditioning: a coordinate error eps in the moved end points turns the direction by eps / L and the parameter of
    // a point at distance D by (D / L) * (eps / L)
    let len = (a - b).norm();
    let ptol = 1e-9 * (1.0 + s.projected_parameter(&q).abs()) + 8.0 * tol * ((q - a).norm() + len) / (len * len);
    ensure!((ts.projected_parameter(&tq) - s.projected_parameter(&q)).abs() <= ptol, "C03/seg2/projected_parameter", "projected parameter changed: {:e} vs {:e}", ts.projected_parameter(&tq), s.projected_parameter(&q));
    ensure!((ts.projected_point(&tq) - iso * s.projected_point(&q)).norm() <= tol * (1.0 + (q - a).norm() / (a - b).norm()), "C03/seg2/projected_point", "projected point does not commute");
    ensure!(((ts.a - ts.b).norm() - (a - b).norm()).abs() <= tol, "C03/seg2/length", "length changed");
    if t.is_generic() {
        cx.nontrivial();
    }
    cx.pass()
}

fn plane(n: &P3, d: f64, t: &Iso3D, t2: &Iso3D, q: &P3) -> Verdict {
    let mut cx = Ctx::new();
    cx.label("plane");
    let iso = t.to_iso();
    let nn = UnitVec3::new_normalize(v3(n));
    let pl = Plane3::new(nn, d);
    let q = pt3(q);
    let tol = tol3(t, 40.0) + tol3(t2, 0.0);
    let tp = pl.transform_by(&iso);
    ensure!((tp.normal.into_inner() - iso.rotation * nn.into_inner()).norm() <= 1e-9, "C03/plane/normal_rotated", "normal {:?} is not the rotated normal", tp.normal);
    // three points of the old plane map onto the new plane
    let o = Point3::from(nn.into_inner() * d);
    let u = if nn.x.abs() < 0.9 { nn.cross(&Vector3::x()) } else { nn.cross(&Vector3::y()) }.normalize();
    let w = nn.cross(&u);
    for p in [o, o + u * 3.0, o + w * 2.0 - u] {
        ensure!(pl.signed_distance_to_point(&p).abs() <= tol, "C03/plane/construction", "harness point not on the plane");
        let sd = tp.signed_distance_to_point(&(iso * p));
        ensure!(sd.abs() <= tol, "C03/plane/points_on_transformed_plane", "T p is {sd:e} from the transformed plane");
    }
    let tq = iso * q;
    ensure!((tp.signed_distance_to_point(&tq) - pl.signed_distance_to_point(&q)).abs() <= tol, "C03/plane/signed_distance", "signed distance changed: {:e} vs {:e}", tp.signed_distance_to_point(&tq), pl.signed_distance_to_point(&q));
    ensure!((tp.distance_to_point(&tq) - pl.distance_to_point(&q)).abs() <= tol, "C03/plane/distance", "distance changed");
    ensure!((tp.project_point(&tq) - iso * pl.project_point(&q)).norm() <= tol, "C03/plane/project_point", "projection does not commute");
    let back = tp.transform_by(&iso.inverse());
    ensure!((back.normal.into_inner() - nn.into_inner()).norm() <= 1e-9 && (back.d - d).abs() <= tol, "C03/plane/inverse", "T^-1 T does not restore the plane: d {:e} vs {d:e}", back.d);
    let i2 = t2.to_iso();
    let seq = tp.transform_by(&i2);
    let comp = pl.transform_by(&(i2 * iso));
    ensure!((seq.normal.into_inner() - comp.normal.into_inner()).norm() <= 1e-9 && (seq.d - comp.d).abs() <= tol, "C03/plane/composition", "T2*T1 differs from sequential application");
    if t.is_generic() {
        cx.nontrivial();
    }
    cx.pass()
}

fn curve2(spec: &Curve2Spec, t: &Iso2D, t2: &Iso2D, qs: &[P2], ls: &[f64]) -> Verdict {
    let mut cx = Ctx::new();
    cx.label("curve2");
    let b = match spec.build() {
        Ok(Some(b)) => b,
        Ok(None) => return Verdict::Discard("degenerate polyline"),
        Err(e) => return Verdict::fail("C03/curve2/from_points", e),
    };
    let iso = t.to_iso();
    let scale = b.model.scale();
    let tol = tol2(t, scale) + tol2(t2, 0.0);
    let c = &b.curve;
    let tc = c.transformed_by(&iso);
    if let Err(f) = derived_curve2_consistent("C03/curve2", &tc) {
        return Verdict::Fail(f);
    }
    ensure!(tc.count() == c.count(), "C03/curve2/count", "vertex count changed {} -> {}", c.count(), tc.count());
    ensure!(tc.is_closed() == c.is_closed(), "C03/curve2/closedness", "closedness changed");
    ensure!(tc.tol() == c.tol(), "C03/curve2/tol", "tolerance changed");
    ensure!((tc.length() - c.length()).abs() <= tol * c.count() as f64, "C03/curve2/length", "length changed {:e} -> {:e}", c.length(), tc.length());
    for (p, q) in c.points().iter().zip(tc.points().iter()) {
        ensure!((iso * p - q).norm() <= tol, "C03/curve2/vertices", "vertex not moved by T");
    }
    let total = c.length();
    for qf in qs {
        let q = Point2::new(b.model.v[0].x + qf[0] * scale, b.model.v[0].y + qf[1] * scale);
        let tq = iso * q;
        let d0 = c.dist_to_point(&q);
        let d1 = tc.dist_to_point(&tq);
        ensure!((d0 - d1).abs() <= tol, "C03/curve2/dist_to_point", "distance changed {d0:e} -> {d1:e}");
        let s0 = c.at_closest_to_point(&q);
        let s1 = tc.at_closest_to_point(&tq);
        if (iso * s0.point() - s1.point()).norm() > tol {
            // a tie: both must attain the same distance
            ensure!(((s1.point() - tq).norm() - d0).abs() <= tol, "C03/curve2/closest_commutes", "closest point does not commute with T and is not a tie");
            cx.label("closest_tie");
        }
    }
    for f in ls {
        let l = f * total;
        let (Some(s0), Some(s1)) = (c.at_length(l), tc.at_length((f * tc.length()).min(tc.length()))) else {
            return Verdict::fail("C03/curve2/at_length_none", format!("at_length({l:e}) returned None"));
        };
        ensure!((iso * s0.point() - s1.point()).norm() <= tol * 4.0, "C03/curve2/station_point", "station point does not commute with T");
        // at a vertex where the curve doubles back on itself the averaged direction is 0/0: NaN or rounding noise
        let cusp = {
            let v = c.points();
            let n = v.len();
            let k = if s0.fraction() == 0.0 { Some(s0.index()) } else if s0.fraction() == 1.0 { Some(s0.index() + 1) } else { None };
            match k {
                Some(k) => {
                    let prev = if k > 0 { Some(v[k] - v[k - 1]) } else if c.is_closed() && n >= 3 { Some(v[n - 1] - v[n - 2]) } else { None };
                    let next = if k + 1 < n { Some(v[k + 1] - v[k]) } else if c.is_closed() && n >= 3 { Some(v[1] - v[0]) } else { None };
                    match (prev, next) {
                        (Some(a), Some(b)) => (a.normalize() + b.normalize()).norm() < 1e-4,
                        _ => false,
                    }
                }
                None => false,
            }
        };
        cx.label_if(cusp, "station_at_cusp");
        // the direction is discontinuous at a vertex and the two curves' total lengths differ by rounding, so the same
        // fraction may fall on either side of (or exactly on) a vertex in the two frames: compared only clear of vertices
        let near_vertex = {
            let v = c.points();
            let mut acc = 0.0;
            let mut near = l <= 1e-9 * total || (total - l) <= 1e-9 * total;
            for w in v.windows(2) {
                acc += (w[1] - w[0]).norm();
                near |= (acc - l).abs() <= 1e-9 * total;
            }
            near && !(s0.fraction() == 0.0 || s0.fraction() == 1.0) || (near && s1.fraction() != s0.fraction())
        };
        cx.label_if(near_vertex, "station_beside_vertex");
        // the interpolated surface / direction points of a station strictly inside an edge blend the two neighbouring
        // vertex stations: the point moves with T, the blended normal only rotates (an exactly opposed pair makes the
        // blend undefined and the dependency panics: excluded)
        if !near_vertex && !cusp && s0.fraction() > 0.0 && s0.fraction() < 1.0 && s1.fraction() > 0.0 && s1.fraction() < 1.0 && s0.index() == s1.index() {
            if let (Ok(a0), Ok(a1), Ok(d0), Ok(d1)) = (guarded(|| s0.interpolated_surface_point()), guarded(|| s1.interpolated_surface_point()), guarded(|| s0.interpolated_direction_point()), guarded(|| s1.interpolated_direction_point())) {
                let finite = |p: &engeom::SurfacePoint2| p.normal.x.is_finite() && p.normal.y.is_finite();
                if finite(&a0) && finite(&a1) && finite(&d0) && finite(&d1) {
                    // neighbours that nearly oppose each other make the blend ill-conditioned
                    let well = |s: &engeom::CurveStation2| match (s.previous(), s.next()) {
                        (Some(p), Some(n)) => p.normal().dot(&n.normal()) > -0.99 && p.direction().dot(&n.direction()) > -0.99 && !p.normal().x.is_nan() && !n.normal().x.is_nan(),
                        _ => true,
                    };
                    // a neighbouring vertex at which the curve doubles back has a direction that is rounding noise
                    let sharp = |k: usize| -> bool {
                        let v = c.points();
                        let n = v.len();
                        let prev = if k > 0 { Some(v[k] - v[k - 1]) } else if c.is_closed() && n >= 3 { Some(v[n - 1] - v[n - 2]) } else { None };
                        let next = if k + 1 < n { Some(v[k + 1] - v[k]) } else if c.is_closed() && n >= 3 { Some(v[1] - v[0]) } else { None };
                        match (prev, next) {
                            (Some(a), Some(b)) => (a.normalize() + b.normalize()).norm() < 1e-2,
                            _ => false,
                        }
                    };
                    if well(&s0) && well(&s1) && !sharp(s0.index()) && !sharp(s0.index() + 1) {
                        ensure!((iso * a0.point - a1.point).norm() <= tol * 4.0, "C03/curve2/interpolated_surface_point/point", "interpolated surface point does not move with T");
                        ensure!((iso.rotation * a0.normal.into_inner() - a1.normal.into_inner()).norm() <= 1e-6, "C03/curve2/interpolated_surface_point/normal", "interpolated normal {:?} -> {:?} is not rotated only (rotation {:e})", a0.normal.into_inner(), a1.normal.into_inner(), t.angle);
                        ensure!((iso.rotation * d0.normal.into_inner() - d1.normal.into_inner()).norm() <= 1e-6, "C03/curve2/interpolated_direction_point/direction", "interpolated direction {:?} -> {:?} is not rotated only (rotation {:e})", d0.normal.into_inner(), d1.normal.into_inner(), t.angle);
                        cx.label("interpolated_points");
                    }
                }
            }
        }
        if !s0.direction().x.is_nan() && !cusp && !near_vertex {
            // an edge only a few tolerances long has a direction that is itself uncertain by (coordinate rounding) / (edge length)
            let v = c.points();
            let w = tc.points();
            let mag = v.iter().chain(w.iter()).fold(0.0f64, |m, p| m.max(p.x.abs()).max(p.y.abs()));
            let i0 = s0.index().min(v.len() - 2);
            let mut elen = (v[i0 + 1] - v[i0]).norm();
            if s0.fraction() == 0.0 && i0 > 0 {
                elen = elen.min((v[i0] - v[i0 - 1]).norm());
            }
            if s0.fraction() == 1.0 && i0 + 2 < v.len() {
                elen = elen.min((v[i0 + 2] - v[i0 + 1]).norm());
            }
            let dtol = 1e-7 + 64.0 * f64::EPSILON * mag / elen.max(1e-300);
            ensure!((iso.rotation * s0.direction().into_inner() - s1.direction().into_inner()).norm() <= dtol, "C03/curve2/station_direction", "station direction is not rotated only");
        }
    }
    // stations AT the stored vertices (where the direction is the normalised sum of the two adjacent edge directions and
    // so depends on how the two edges are combined, not on one edge alone): taken by iteration in both frames
    {
        let v = c.points();
        let n = v.len();
        let s0s: Vec<_> = c.iter().collect();
        let s1s: Vec<_> = tc.iter().collect();
        ensure!(s0s.len() == s1s.len(), "C03/curve2/iter_count", "iteration yields {} stations before and {} after the motion", s0s.len(), s1s.len());
        let mut turning = 0;
        for (k, (s0, s1)) in s0s.iter().zip(s1s.iter()).enumerate() {
            ensure!((iso * s0.point() - s1.point()).norm() <= tol * 4.0, "C03/curve2/vertex_station_point", "station of vertex {k} does not commute with T");
            ensure!((s0.length_along() - s1.length_along()).abs() <= tol * (n as f64) + 1e-12 * total, "C03/curve2/vertex_station_length", "length along at vertex {k} changed {:e} -> {:e}", s0.length_along(), s1.length_along());
            let prev = if k > 0 { Some(v[k] - v[k - 1]) } else if c.is_closed() && n >= 3 { Some(v[n - 1] - v[n - 2]) } else { None };
            let next = if k + 1 < n { Some(v[k + 1] - v[k]) } else if c.is_closed() && n >= 3 { Some(v[1] - v[0]) } else { None };
            let cusp = match (prev, next) {
                (Some(a), Some(b)) => (a.normalize() + b.normalize()).norm() < 1e-4,
                _ => false,
            };
            if cusp || s0.direction().x.is_nan() || s1.direction().x.is_nan() {
                cx.label("vertex_station_at_cusp");
                continue;
            }
            if let (Some(a), Some(b)) = (prev, next) {
                if a.normalize().perp(&b.normalize()).abs() > 1e-3 {
                    turning += 1;
                }
            }
            let mag = v.iter().chain(tc.points().iter()).fold(0.0f64, |m, p| m.max(p.x.abs()).max(p.y.abs()));
            let (minedge, sumnorm) = match (prev, next) {
                (Some(a), Some(b)) => (a.norm().min(b.norm()), (a.normalize() + b.normalize()).norm()),
                (Some(a), None) | (None, Some(a)) => (a.norm(), 2.0),
                _ => (1.0, 2.0),
            };
            let dtol = 1e-7 + 64.0 * f64::EPSILON * mag / (minedge * sumnorm.max(1e-4) * 0.5).max(1e-300);
            ensure!((iso.rotation * s0.direction().into_inner() - s1.direction().into_inner()).norm() <= dtol, "C03/curve2/vertex_station_direction", "direction at vertex {k} is not rotated only: {:?} -> {:?} under a rotation of {:e}", s0.direction().into_inner(), s1.direction().into_inner(), t.angle);
            ensure!((iso.rotation * s0.normal().into_inner() - s1.normal().into_inner()).norm() <= dtol, "C03/curve2/vertex_station_normal", "normal at vertex {k} is not rotated only");
        }
        cx.label_if(turning > 0, "vertex_stations_turning");
    }
    let back = tc.transformed_by(&iso.inverse());
    ensure!(back.count() == c.count() && back.is_closed() == c.is_closed() && back.tol() == c.tol(), "C03/curve2/inverse", "T^-1 T changed count/closedness/tol");
    for (p, q) in c.points().iter().zip(back.points().iter()) {
        ensure!((p - q).norm() <= tol, "C03/curve2/inverse", "T^-1 T does not restore vertices");
    }
    let i2 = t2.to_iso();
    let seq = tc.transformed_by(&i2);
    let comp = c.transformed_by(&(i2 * iso));
    ensure!(seq.count() == comp.count(), "C03/curve2/composition", "count differs");
    for (p, q) in seq.points().iter().zip(comp.points().iter()) {
        ensure!((p - q).norm() <= tol, "C03/curve2/composition", "T2*T1 differs from sequential application");
    }
    // free function and trait forms
    let tp = transform_points(c.points(), &iso);
    ensure!(tp.len() == c.count() && tp.iter().zip(c.points()).all(|(a, b)| (a - iso * b).norm() <= tol), "C03/transform_points2", "transform_points does not move points by T");
    if t.is_generic() && c.count() >= 3 {
        cx.nontrivial();
    }
    cx.pass()
}

fn curve3(spec: &Curve3Spec, t: &Iso3D, t2: &Iso3D, qs: &[P3], ls: &[f64], close: &Option<(u16, P3, f64)>) -> Verdict {
    let mut cx = Ctx::new();
    cx.label("curve3");
    let b = match spec.build() {
        Ok(Some(b)) => b,
        Ok(None) => return Verdict::Discard("degenerate polyline"),
        Err(e) => return Verdict::fail("C03/curve3/from_points", e),
    };
    let iso = t.to_iso();
    let scale = b.model.scale();
    let tol = tol3(t, scale) + tol3(t2, 0.0);
    let with_close;
    // the margin of the inserted edge over the tolerance must survive the rounding of the coordinates in both frames
    let mag = scale + b.model.v.iter().fold(0.0f64, |m, p| m.max(p.coords.amax())) + v3(&t.t).norm() + v3(&t2.t).norm();
    let close = match close {
        Some((_, _, k)) if (*k - 1.0) * spec.tol < 256.0 * f64::EPSILON * mag => &None,
        other => other,
    };
    let c = match close {
        Some((i, dir, k)) => {
            let mut pts: Vec<Point3> = b.curve.points().to_vec();
            let j = idx(*i, pts.len());
            let extra = pts[j] + v3(dir).normalize() * (*k * spec.tol);
            pts.insert(j + 1, extra);
            with_close = match engeom::Curve3::from_points(&pts, spec.tol) {
                Ok(c) => c,
                Err(e) => return Verdict::fail("C03/curve3/from_points", e.to_string()),
            };
            cx.label("curve3_edge_just_above_tolerance");
            &with_close
        }
        None => &b.curve,
    };
    let tc = c.transformed_by(&iso);
    if let Err(f) = derived_curve3_consistent("C03/curve3", &tc) {
        return Verdict::Fail(f);
    }
    ensure!(tc.count() == c.count(), "C03/curve3/count", "vertex count changed");
    ensure!(tc.tol() == c.tol(), "C03/curve3/tol", "tolerance changed");
    ensure!((tc.length() - c.length()).abs() <= tol * c.count() as f64, "C03/curve3/length", "length changed {:e} -> {:e}", c.length(), tc.length());
    for (p, q) in c.points().iter().zip(tc.points().iter()) {
        ensure!((iso * p - q).norm() <= tol, "C03/curve3/vertices", "vertex not moved by T");
    }
    for qf in qs {
        let q = Point3::new(b.model.v[0].x + qf[0] * scale, b.model.v[0].y + qf[1] * scale, b.model.v[0].z + qf[2] * scale);
        let tq = iso * q;
        let d0 = c.dist_to_point(&q);
        let d1 = tc.dist_to_point(&tq);
        ensure!((d0 - d1).abs() <= tol, "C03/curve3/dist_to_point", "distance changed {d0:e} -> {d1:e}");
        let s0 = c.at_closest_to_point(&q);
        let s1 = tc.at_closest_to_point(&tq);
        if (iso * s0.point() - s1.point()).norm() > tol {
            ensure!(((s1.point() - tq).norm() - d0).abs() <= tol, "C03/curve3/closest_commutes", "closest point does not commute with T and is not a tie");
            cx.label("closest_tie");
        }
    }
    for f in ls {
        let (Some(s0), Some(s1)) = (c.at_length(f * c.length()), tc.at_length((f * tc.length()).min(tc.length()))) else {
            return Verdict::fail("C03/curve3/at_length_none", "at_length returned None".to_string());
        };
        ensure!((iso * s0.point() - s1.point()).norm() <= tol * 4.0, "C03/curve3/station_point", "station point does not commute with T");
        let cusp = {
            let v = c.points();
            let n = v.len();
            let k = if s0.fraction() == 0.0 { Some(s0.index()) } else if s0.fraction() == 1.0 { Some(s0.index() + 1) } else { None };
            match k {
                Some(k) if k > 0 && k + 1 < n => ((v[k] - v[k - 1]).normalize() + (v[k + 1] - v[k]).normalize()).norm() < 1e-4,
                _ => false,
            }
        };
        cx.label_if(cusp, "station_at_cusp");
        let near_vertex = {
            let v = c.points();
            let total = c.length();
            let l = f * total;
            let mut acc = 0.0;
            let mut near = l <= 1e-9 * total || (total - l) <= 1e-9 * total;
            for w in v.windows(2) {
                acc += (w[1] - w[0]).norm();
                near |= (acc - l).abs() <= 1e-9 * total;
            }
            near && !(s0.fraction() == 0.0 || s0.fraction() == 1.0) || (near && s1.fraction() != s0.fraction())
        };
        cx.label_if(near_vertex, "station_beside_vertex");
        // the direction of a very short edge inherits the rounding of its end points' coordinates
        let dir_tol = {
            let v = c.points();
            let i = s0.index().min(v.len() - 2);
            1e-7 + 64.0 * f64::EPSILON * mag / (v[i + 1] - v[i]).norm().max(1e-300)
        };
        ensure!(cusp || near_vertex || s0.direction().x.is_nan() || (iso.rotation * s0.direction().into_inner() - s1.direction().into_inner()).norm() <= dir_tol, "C03/curve3/station_direction", "station direction is not rotated only");
    }
    let back = tc.transformed_by(&iso.inverse());
    ensure!(back.count() == c.count(), "C03/curve3/inverse", "T^-1 T changed the count");
    for (p, q) in c.points().iter().zip(back.points().iter()) {
        ensure!((p - q).norm() <= tol, "C03/curve3/inverse", "T^-1 T does not restore vertices");
    }
    let i2 = t2.to_iso();
    let seq = tc.transformed_by(&i2);
    let comp = c.transformed_by(&(i2 * iso));
    for (p, q) in seq.points().iter().zip(comp.points().iter()) {
        ensure!((p - q).norm() <= tol, "C03/curve3/composition", "T2*T1 differs from sequential application");
    }
    let pts: Vec<Point3> = c.points().to_vec();
    let a: Vec<Point3> = (&pts).transform_by(&iso);
    let bb: Vec<Point3> = (&pts[..]).transform_by(&iso);
    ensure!(a == bb && a.iter().zip(pts.iter()).all(|(x, y)| (x - iso * y).norm() <= tol), "C03/transform_by_points3", "TransformBy for point slices does not move points by T");
    if t.is_generic() && c.count() >= 3 {
        cx.nontrivial();
    }
    cx.pass()
}

fn mesh(spec: &MeshSpec, t: &Iso3D, qs: &[Query]) -> Verdict {
    let mut cx = Ctx::new();
    cx.label("mesh");
    let Some(bm) = spec.build() else { return Verdict::Discard("empty mesh") };
    let soup = bm.soup();
    for i in 0..soup.f.len() {
        let (a, b, c) = soup.tri(i);
        let lmax = (b - a).norm().max((c - b).norm()).max((a - c).norm());
        if crate::oracle::tri_area(&a, &b, &c) < 1e-6 * lmax * lmax {
            return Verdict::Discard("degenerate face");
        }
    }
    let iso = t.to_iso();
    let size = soup.size();
    let tol = tol3(t, size + soup.max_abs());
    let m0 = bm.mesh(false);
    let mut m1 = bm.mesh(false);
    m1.transform(&iso);
    ensure!(m1.faces() == m0.faces(), "C03/mesh/faces", "faces changed by transform");
    ensure!(m1.vertices().len() == m0.vertices().len(), "C03/mesh/vertex_count", "vertex count changed");
    for (p, q) in m0.vertices().iter().zip(m1.vertices().iter()) {
        ensure!((iso * p - q).norm() <= tol, "C03/mesh/vertices", "vertex not moved by T");
    }
    // the AABB is re-derived: contains all vertices and is tight
    let bb = m1.aabb();
    for k in 0..3 {
        let lo = m1.vertices().iter().map(|p| p[k]).fold(f64::INFINITY, f64::min);
        let hi = m1.vertices().iter().map(|p| p[k]).fold(f64::NEG_INFINITY, f64::max);
        ensure!((bb.mins[k] - lo).abs() <= tol && (bb.maxs[k] - hi).abs() <= tol, "C03/mesh/aabb_stale", "AABB axis {k} is [{:e},{:e}] but the transformed vertices span [{lo:e},{hi:e}]", bb.mins[k], bb.maxs[k]);
    }
    // assembling commutes with T: two halves of the mesh (each with its own copy of the seam vertices), built with the
    // merge-duplicates option, joined and then moved — or moved and then joined in the moved frame — are the same mesh
    if soup.f.len() >= 4 {
        let half = soup.f.len() / 2;
        let compact = |faces: &[[u32; 3]], verts: &[Point3]| -> (Vec<Point3>, Vec<[u32; 3]>) {
            let mut map: std::collections::BTreeMap<u32, u32> = std::collections::BTreeMap::new();
            let mut v2 = vec![];
            let f2 = faces.iter().map(|t| { let mut o = [0u32; 3]; for k in 0..3 { o[k] = *map.entry(t[k]).or_insert_with(|| { v2.push(verts[t[k] as usize]); (v2.len() - 1) as u32 }); } o }).collect();
            (v2, f2)
        };
        let (va, fa) = compact(&soup.f[..half], &soup.v);
        let (vb, fb) = compact(&soup.f[half..], &soup.v);
        let build = |v: Vec<Point3>, f: Vec<[u32; 3]>| engeom::Mesh::new_with_options(v, f, false, true, false, None);
        if let (Ok(mut r), Ok(rb), Ok(mut x), Ok(y)) = (build(va.clone(), fa.clone()), build(vb.clone(), fb.clone()), build(va, fa), build(vb.iter().map(|p| iso * p).collect(), fb)) {
            if r.append(&rb).is_ok() {
                r.transform(&iso);
                x.transform(&iso);
                if x.append(&y).is_ok() {
                    cx.label("assemble_commutes");
                    ensure!(x.vertices().len() == r.vertices().len() && x.faces().len() == r.faces().len(), "C03/mesh/assemble_then_move_vs_move_then_assemble", "joined-then-moved has {} vertices / {} faces, moved-then-joined has {} / {} (merge-duplicates option set on every part)", r.vertices().len(), r.faces().len(), x.vertices().len(), x.faces().len());
                    ensure!(x.get_patches().len() == r.get_patches().len(), "C03/mesh/assemble_patches", "joined-then-moved has {} patches, moved-then-joined {}", r.get_patches().len(), x.get_patches().len());
                }
            }
        }
    }
    let tsoup = crate::oracle::Soup { v: m1.vertices().to_vec(), f: soup.f.clone() };
    // a copy of the mesh carrying a UV map (any per-vertex assignment will do for the 3D -> UV direction)
    let uv_mesh = {
        let uvs: Vec<Point2> = bm.v.iter().enumerate().map(|(i, p)| Point2::new(0.7 * p.x + 0.3 * p.z + 1e-3 * i as f64, p.y - 0.2 * p.z)).collect();
        engeom::geom3::UvMapping::new(uvs, bm.f.clone()).ok().map(|map| engeom::Mesh::new_with_uv(bm.v.clone(), bm.f.clone(), false, Some(map)))
    };
    for qs in qs {
        let q = qs.resolve(&bm);
        let tq = iso * q;
        // the transform argument of uv_with_tol is applied to the point first: the same physical point given directly, or
        // as its pre-image together with the transform, has the same UV coordinates and the same signed depth
        if let Some(um) = &uv_mesh {
            let cap = 3.0 * size;
            let pre = iso.inverse() * q;
            let seen = iso * pre;
            let (direct, via) = (um.uv_with_tol(&seen, cap, std::f64::consts::PI, None), um.uv_with_tol(&pre, cap, std::f64::consts::PI, Some(&iso)));
            ensure!(direct.is_some() == via.is_some(), "C03/mesh/uv_with_tol/transform", "uv_with_tol with Some(transform) is_some = {} but {} for the transformed point itself", via.is_some(), direct.is_some());
            if let (Some((uv0, d0)), Some((uv1, d1))) = (direct, via) {
                ensure!(uv0 == uv1, "C03/mesh/uv_with_tol/transform_uv", "uv {:?} with the transform argument, {:?} for the transformed point", uv1, uv0);
                ensure!((d0 - d1).abs() <= tol, "C03/mesh/uv_with_tol/transform_depth", "depth {d1:e} with the transform argument, {d0:e} for the transformed point");
                cx.label("uv_with_transform_argument");
            }
        }
        let p0 = m0.point_closest_to(&q);
        let p1 = m1.point_closest_to(&tq);
        let d0 = (p0 - q).norm();
        let d1 = (p1 - tq).norm();
        ensure!((d0 - d1).abs() <= tol, "C03/mesh/distance", "point-to-mesh distance changed {d0:e} -> {d1:e}");
        // still exact after the transform (the acceleration structure was rebuilt)
        let (dstar, _, _) = tsoup.closest(&tq);
        ensure!((d1 - dstar).abs() <= tol, "C03/mesh/query_after_transform", "after transform the query returns {d1:e}, exhaustive scan {dstar:e}");
        if (iso * p0 - p1).norm() > tol {
            cx.label("closest_tie");
        }
        // the capped and the angle-filtered projections answer alike in both frames (caps a little above and below the
        // true distance and a generous one; decided only when the distance is clear of the cap)
        for cap in [1.5 * d0 + 1e-3 * size, 0.6 * d0, 3.0 * size] {
            if (d0 - cap).abs() > 1e-6 * size + 10.0 * tol {
                let (c0, c1) = (m0.project_with_max_dist(&q, cap).is_some(), m1.project_with_max_dist(&tq, cap).is_some());
                ensure!(c0 == c1, "C03/mesh/capped_projection_frame_dependent", "project_with_max_dist(cap {cap:e}) is_some = {c0} before and {c1} after the rigid motion (distance {d0:e})");
                ensure!(c0 == (d0 < cap), "C03/mesh/capped_projection", "project_with_max_dist(cap {cap:e}) is_some = {c0} for a point at {d0:e}");
                let (a0, a1) = (m0.project_with_tol(&q, cap, std::f64::consts::PI, None).is_some(), m1.project_with_tol(&tq, cap, std::f64::consts::PI, None).is_some());
                ensure!(a0 == a1 && a0 == c0, "C03/mesh/filtered_projection_frame_dependent", "project_with_tol(cap {cap:e}, angle pi) is_some = {a0} before and {a1} after the rigid motion; capped projection {c0}");
            }
        }
        for k in 0..2 {
            let mk = || if k == 0 { DistMode::ToPoint } else { DistMode::ToPlane };
            let v0 = m0.measure_point_deviation(&q, mk()).value();
            let v1 = m1.measure_point_deviation(&tq, mk()).value();
            // under ties between faces the plane-mode value depends on the face picked
            if (iso * p0 - p1).norm() <= tol && d0 > 1e-5 * size {
                let a = m0.surf_closest_to(&q);
                let b = m1.surf_closest_to(&tq);
                // offsets lying in the face plane (beyond an open edge) have no defined side: sign is rounding noise
                let side = a.normal.dot(&(q - a.point)) / d0;
                if (iso.rotation * a.normal.into_inner() - b.normal.into_inner()).norm() <= 1e-9 && side.abs() > 1e-6 {
                    ensure!((v0 - v1).abs() <= tol, "C03/mesh/deviation", "signed deviation changed {v0:e} -> {v1:e}");
                }
            }
        }
    }
    if t.is_generic() {
        cx.nontrivial();
    }
    cx.pass()
}

fn cloud(pts: &[P3], normals: &Option<Vec<P3>>, colors: &Option<Vec<[u8; 3]>>, t: &Iso3D, t2: &Iso3D) -> Verdict {
    let mut cx = Ctx::new();
    cx.label("cloud");
    let p: Vec<Point3> = pts.iter().map(pt3).collect();
    let n: Option<Vec<UnitVec3>> = normals.as_ref().map(|v| v.iter().map(|x| UnitVec3::new_normalize(v3(x))).collect());
    let mut pc = match PointCloud::try_new(p.clone(), n.clone(), colors.clone()) {
        Ok(c) => c,
        Err(e) => return Verdict::fail("C03/cloud/try_new", format!("{e}")),
    };
    cx.label_if(n.is_some(), "cloud_normals");
    cx.label_if(colors.is_some(), "cloud_colors");
    let iso = t.to_iso();
    let tol = tol3(t, 40.0) + tol3(t2, 0.0);
    // derived quantities are asked for before and after every move (bounding box, size): they belong to the points the
    // cloud holds now
    let box_ok = |c: &PointCloud, when: &str| -> Result<(), Failure> {
        let bb = c.aabb();
        for k in 0..3 {
            let lo = c.points().iter().map(|q| q[k]).fold(f64::INFINITY, f64::min);
            let hi = c.points().iter().map(|q| q[k]).fold(f64::NEG_INFINITY, f64::max);
            crate::ensure_r!((bb.mins[k] - lo).abs() <= 1e-9 * (1.0 + lo.abs()) && (bb.maxs[k] - hi).abs() <= 1e-9 * (1.0 + hi.abs()), "C03/cloud/aabb_not_of_current_points", "{when}: bounding box axis {k} is [{:e},{:e}] but the points span [{lo:e},{hi:e}]", bb.mins[k], bb.maxs[k]);
        }
        Ok(())
    };
    if !p.is_empty() {
        if let Err(f) = box_ok(&pc, "before the move") {
            return Verdict::Fail(f);
        }
    }
    pc.transform(&iso);
    if !p.is_empty() {
        if let Err(f) = box_ok(&pc, "after the move") {
            return Verdict::Fail(f);
        }
    }
    ensure!(pc.points().len() == p.len(), "C03/cloud/len", "point count changed");
    for (a, b) in p.iter().zip(pc.points().iter()) {
        ensure!((iso * a - b).norm() <= tol, "C03/cloud/points", "point not moved by T");
    }
    match (&n, pc.normals()) {
        (Some(n0), Some(n1)) => {
            ensure!(n0.len() == n1.len(), "C03/cloud/normals_len", "normal count changed");
            for (a, b) in n0.iter().zip(n1.iter()) {
                ensure!((iso.rotation * a.into_inner() - b.into_inner()).norm() <= 1e-9, "C03/cloud/normals_rotated_only", "normal {:?} is not the rotated normal {:?}", b, iso.rotation * a.into_inner());
            }
        }
        (None, None) => {}
        _ => return Verdict::fail("C03/cloud/normals_presence", "presence of normals changed".to_string()),
    }
    ensure!(pc.colors().map(|c| c.to_vec()) == *colors, "C03/cloud/colors", "colours changed by transform");
    // inverse, composition
    let mut back = pc.clone();
    back.transform(&iso.inverse());
    for (a, b) in p.iter().zip(back.points().iter()) {
        ensure!((a - b).norm() <= tol, "C03/cloud/inverse", "T^-1 T does not restore");
    }
    if !p.is_empty() {
        if let Err(f) = box_ok(&back, "after moving there and back") {
            return Verdict::Fail(f);
        }
    }
    let i2 = t2.to_iso();
    let mut seq = pc.clone();
    seq.transform(&i2);
    if !p.is_empty() {
        if let Err(f) = box_ok(&seq, "after two moves") {
            return Verdict::Fail(f);
        }
    }
    let mut comp = PointCloud::try_new(p.clone(), n.clone(), colors.clone()).unwrap();
    comp.transform(&(i2 * iso));
    for (a, b) in seq.points().iter().zip(comp.points().iter()) {
        ensure!((a - b).norm() <= tol, "C03/cloud/composition", "T2*T1 differs from sequential application");
    }
    if let (Some(a), Some(b)) = (seq.normals(), comp.normals()) {
        for (x, y) in a.iter().zip(b.iter()) {
            ensure!((x.into_inner() - y.into_inner()).norm() <= 1e-9, "C03/cloud/composition", "normals: T2*T1 differs from sequential application");
        }
    }
    if t.is_generic() && !p.is_empty() {
        cx.nontrivial();
    }
    cx.pass()
}

fn dist(a: &P2, b: &P2, dir: &Option<f64>, t: &Iso3D) -> Verdict {
    let mut cx = Ctx::new();
    cx.label("dist");
    let (a, b) = (pt2(a), pt2(b));
    if (a - b).norm() < 1e-6 {
        return Verdict::Discard("coincident points");
    }
    let d2 = Distance2::new(a, b, dir.map(|x| engeom::UnitVec2::new_normalize(Vector2::new(x.cos(), x.sin()))));
    let iso = t.to_iso();
    let tol = tol3(t, 40.0);
    let d3: Distance3 = d2.to_3d(&iso);
    ensure!((d3.value() - d2.value()).abs() <= tol, "C03/dist/value", "value changed by to_3d: {:e} -> {:e}", d2.value(), d3.value());
    ensure!((d3.a - iso * a.to_3d()).norm() <= tol && (d3.b - iso * b.to_3d()).norm() <= tol, "C03/dist/ends", "a/b are not mapped through iso . lift (a -> {:?}, expected {:?})", d3.a, iso * a.to_3d());
    ensure!((d3.direction.into_inner() - iso.rotation * d2.direction.to_3d().into_inner()).norm() <= 1e-9, "C03/dist/direction", "direction not rotated");
    let r = d3.to_2d(&iso.inverse());
    ensure!((r.a - a).norm() <= tol && (r.b - b).norm() <= tol && (r.direction.into_inner() - d2.direction.into_inner()).norm() <= 1e-7 && (r.value() - d2.value()).abs() <= tol, "C03/dist/round_trip", "to_3d then to_2d(inverse) is not the identity");
    if t.is_generic() {
        cx.nontrivial();
    }
    cx.pass()
}

fn lift(p: &P2, v: &P2, n: f64) -> Verdict {
    let mut cx = Ctx::new();
    cx.label("lift");
    let p = pt2(p);
    let v = crate::gen::v2(v);
    ensure!(p.to_3d().to_2d() == p && p.to_3d().z == 0.0, "C03/lift/point", "point round trip");
    ensure!(v.to_3d().to_2d() == v && v.to_3d().z == 0.0, "C03/lift/vector", "vector round trip");
    let sp = SurfacePoint2::new_normalize(p, Vector2::new(n.cos(), n.sin()));
    let r = sp.to_3d().to_2d();
    ensure!(r.point == sp.point && (r.normal.into_inner() - sp.normal.into_inner()).norm() <= 1e-12, "C03/lift/surface_point", "surface point round trip");
    ensure!(sp.to_3d().normal.z == 0.0 && (sp.to_3d().normal.norm() - 1.0).abs() <= 1e-12, "C03/lift/surface_point_normal", "lifted normal not in plane / unit");
    let pts = vec![p, p + v];
    let l: Vec<Point3> = (&pts[..]).to_3d();
    let back: Vec<Point2> = l.to_2d();
    ensure!(back == pts, "C03/lift/slices", "slice round trip");
    cx.nontrivial();
    cx.pass()
}

#[allow(dead_code)]
fn unused(_: Iso2, _: Iso3) {}
