//! C09 — Least-squares fits are optimal

use crate::ensure;
use crate::fw::*;
use crate::gen::*;
use engeom::common::BestFit;
use engeom::func1::{Func1, Line1, Polynomial};
use engeom::{Circle2, Point2, Series1};
use parry2d_f64::na::{DMatrix, DVector};
use proptest::prelude::*;
use serde::{Deserialize, Serialize};
use std::f64::consts::PI;

pub struct C09;

#[derive(Clone, Debug, Serialize, Deserialize)]
pub enum Case {
    /// abscissae = centre + half_width * u_i, u_i in [-1,1] (possibly repeated)
    Poly { k: usize, coeffs: Vec<f64>, centre: f64, half_width: f64, us: Vec<f64>, weights: Option<Vec<f64>>, noise: Option<Vec<f64>> },
    Line2Pts { x0: f64, y0: f64, x1: f64, y1: f64 },
    Circle { c: P2, r: f64, a0: f64, extent: f64, n: usize, jitter: Vec<f64>, guess: (f64, f64, f64), gaussian: Option<f64>, noise: Option<Vec<f64>> },
    /// samples with integer offsets of exactly equal length (Pythagorean triples, times 2^exp2) from an integer centre:
    /// bit-identical distances from the centre; the guess may be concentric (guess offsets are multiples of 1/8 of R)
    CircleLattice { cx: i32, cy: i32, which: u8, exp2: i32, drop: Vec<u16>, guess: (i8, i8, f64), gaussian: Option<f64> },
    /// kind 0: general position; 1: exactly collinear lattice triple; 2..4: a bit-identical repeated point (p0=p1, p1=p2,
    /// p0=p2); 5: all three identical
    ThreePoints { p0: P2, p1: P2, p2: P2, kind: u8 },
    /// generating circle with exact samples at free angles plus samples displaced outward by dev*tol (dev < 1) near its
    /// four axis extremes, and a distant second circle carrying more points than the exact samples but fewer than all inliers
    RansacExtremes { c: P2, r: f64, exact: Vec<f64>, noisy: Vec<(f64, f64)>, rho: f64, out_frac: f64, out_angles: Vec<f64> },
    Ransac { c: P2, r: f64, n_in: usize, in_angles: Vec<f64>, outliers: Vec<P2>, limits: u8 },
    Stats { values: Vec<f64> },
}

impl Property for C09 {
    type Case = Case;
    const ID: &'static str = "C09";
    fn rule() -> &'static str {
        "families: polynomial least squares with K=2..6 coefficients on 1.5K..200 abscissae centred at c in [-1.5,1.5] with half-width 0.2..2 (asymmetric, clustered, repeated values), coefficients +-10, optional positive weights 0.05..20, exact samples or +-1 noise (cases with normal-matrix condition > 1e10 discarded and counted); two-point lines; circle fits on arcs of 60..360 degrees, 5..200 points, guess within 0.5R / 0.5-2x radius, All and Gaussian(sigma>=2) modes, exact or noisy; lattice circles (Pythagorean offsets from an integer centre, bit-identical distances) with concentric or offset guesses, and with the generating circle itself as the guess; three-point circles (general position, exactly collinear, a repeated point); seeded RANSAC with >=50% exact inliers, and with inliers displaced outward (within the tolerance) near the generating circle's axis extremes against a second circle of intermediate support; mean/variance/median. Oracle: recovery of the generating polynomial/circle, weighted normal equations (residual orthogonal to every monomial), QR reference solve, stationarity of the radial objective, inlier count. Non-trivial: abscissae not symmetric about 0 (|centre| > 0.1 half-width) and, when weighted, max/min weight >= 2; circles not centred at the origin. Distinct = distinct canonical JSON."
    }
    fn cases(t: Tier) -> u32 {
        t.pick(1_000_000, 6_000_000)
    }
    fn expected_labels() -> Vec<&'static str> {
        vec!["poly_exact", "poly_noisy", "weighted", "K=2", "K=3", "K=4", "K=5", "K=6", "best_fit_line", "line_2pts", "circle_exact", "circle_noisy", "circle_gaussian", "circle_lattice", "circle_concentric_guess", "three_points_general", "three_points_collinear", "three_points_repeated", "ransac_outward_inliers_at_extremes", "ransac", "stats", "asymmetric"]
    }
    fn strategy(_t: Tier) -> BoxedStrategy<Case> {
        let poly = (2usize..=6, prop::collection::vec(coord(10.0), 6), unif(-1.5, 1.5), unif(0.2, 2.0), prop::collection::vec(prop_oneof![4 => unif(-1.0, 1.0), 1 => (-4i32..=4).prop_map(|k| k as f64 / 4.0)], 9..200), prop::option::of(prop::collection::vec(logu(-1.3, 1.3), 200)), prop::option::of(prop::collection::vec(unif(-1.0, 1.0), 200)), 0usize..200)
            .prop_map(|(k, coeffs, centre, half_width, mut us, weights, noise, cut)| {
                let n = us.len().min((3 * k / 2 + 1).max(cut.max(3 * k / 2 + 1)));
                us.truncate(n.max(k + 1));
                let n = us.len();
                Case::Poly { k, coeffs: coeffs[..k].to_vec(), centre, half_width, us, weights: weights.map(|w| w[..n].to_vec()), noise: noise.map(|w| w[..n].to_vec()) }
            });
        let circle = (p2(100.0), logu(-1.0, 2.0), unif(-PI, PI), unif(PI / 3.0, 2.0 * PI), 5usize..200, prop::collection::vec(unif(0.0, 1.0), 200), (unif(-0.35, 0.35), unif(-0.35, 0.35), unif(0.5, 2.0)), prop::option::of(unif(2.0, 4.0)), prop::option::of(prop::collection::vec(unif(-1.0, 1.0), 200)))
            .prop_map(|(c, r, a0, extent, n, jitter, guess, gaussian, noise)| Case::Circle { c, r, a0, extent, n, jitter: jitter[..n].to_vec(), guess, gaussian, noise: noise.map(|v| v[..n].to_vec()) });
        let ransac = (p2(50.0), logu(-0.5, 1.5), 15usize..60, prop::collection::vec(unif(0.0, 2.0 * PI), 60), prop_oneof![
            3 => prop::collection::vec(p2(2.0), 0..60),
            // structured contamination: the other points lie on a second circle (much larger or much smaller, i.e. outside
            // the radius limits when limits are given) which may have more points on it than the generating one
            1 => (prop::sample::select(vec![0.2, 0.3, 3.0, 5.0, 8.0]), (unif(-1.0, 1.0), unif(-1.0, 1.0)), prop::collection::vec(unif(0.0, 2.0 * PI), 10..120))
                .prop_map(|(rho, o, angs)| angs.iter().map(|t| [o.0 + rho * t.cos(), o.1 + rho * t.sin()]).collect::<Vec<P2>>()),
        ], 0u8..4).prop_map(|(c, r, n_in, in_angles, outliers, limits)| Case::Ransac { c, r, n_in, in_angles, outliers, limits });
        let lattice = (-100i32..=100, -100i32..=100, 0u8..4, -10i32..=10, prop::collection::vec(any::<u16>(), 0..6), (prop_oneof![2 => Just(0i8), 1 => -2i8..=2], prop_oneof![2 => Just(0i8), 1 => -2i8..=2], unif(0.5, 2.0)), prop::option::of(unif(2.0, 4.0)))
            .prop_map(|(cx, cy, which, exp2, drop, guess, gaussian)| Case::CircleLattice { cx, cy, which, exp2, drop, guess, gaussian });
        let three = (p2(50.0), p2(50.0), p2(50.0), prop_oneof![4 => Just(0u8), 1 => Just(1u8), 1 => 2u8..6]).prop_map(|(p0, p1, p2, kind)| Case::ThreePoints { p0, p1, p2, kind });
        let extremes = (p2(50.0), logu(-0.5, 1.5), prop::collection::vec(unif(0.0, 2.0 * PI), 24..40), prop::collection::vec((unif(-0.02, 0.02), unif(0.5, 0.9)), 8..20), prop::sample::select(vec![0.3, 0.5, 2.0, 3.0]), unif(0.0, 1.0), prop::collection::vec(unif(0.0, 2.0 * PI), 64))
            .prop_map(|(c, r, exact, noisy, rho, out_frac, out_angles)| Case::RansacExtremes { c, r, exact, noisy, rho, out_frac, out_angles });
        prop_oneof![
            1 => extremes,
            1 => three,
            1 => lattice,
            8 => poly,
            1 => (coord(10.0), coord(10.0), coord(10.0), coord(10.0)).prop_map(|(x0, y0, x1, y1)| Case::Line2Pts { x0, y0, x1, y1 }),
            3 => circle,
            1 => ransac,
            1 => prop::collection::vec(coord(10.0), 0..12).prop_map(|values| Case::Stats { values }),
        ]
        .boxed()
    }
    fn check(case: &Case) -> Verdict {
        match case {
            Case::Poly { k, coeffs, centre, half_width, us, weights, noise } => match k {
                2 => poly::<2>(coeffs, *centre, *half_width, us, weights, noise),
                3 => poly::<3>(coeffs, *centre, *half_width, us, weights, noise),
                4 => poly::<4>(coeffs, *centre, *half_width, us, weights, noise),
                5 => poly::<5>(coeffs, *centre, *half_width, us, weights, noise),
                _ => poly::<6>(coeffs, *centre, *half_width, us, weights, noise),
            },
            Case::Line2Pts { x0, y0, x1, y1 } => line2pts(*x0, *y0, *x1, *y1),
            Case::Circle { c, r, a0, extent, n, jitter, guess, gaussian, noise } => circle(c, *r, *a0, *extent, *n, jitter, *guess, gaussian, noise),
            Case::ThreePoints { p0, p1, p2, kind } => three_points(p0, p1, p2, *kind),
            Case::RansacExtremes { c, r, exact, noisy, rho, out_frac, out_angles } => ransac_extremes(c, *r, exact, noisy, *rho, *out_frac, out_angles),
            Case::CircleLattice { cx, cy, which, exp2, drop, guess, gaussian } => circle_lattice(*cx, *cy, *which, *exp2, drop, *guess, gaussian),
            Case::Ransac { c, r, n_in, in_angles, outliers, limits } => ransac(c, *r, *n_in, in_angles, outliers, *limits),
            Case::Stats { values } => stats(values),
        }
    }
}

fn klabel(k: usize) -> &'static str {
    match k {
        2 => "K=2",
        3 => "K=3",
        4 => "K=4",
        5 => "K=5",
        _ => "K=6",
    }
}

fn poly<const K: usize>(coeffs: &[f64], centre: f64, hw: f64, us: &[f64], weights: &Option<Vec<f64>>, noise: &Option<Vec<f64>>) -> Verdict {
    let mut cx = Ctx::new();
    cx.label(klabel(K));
    let xs: Vec<f64> = us.iter().map(|u| centre + hw * u).collect();
    let n = xs.len();
    let mut distinct: Vec<f64> = xs.clone();
    distinct.sort_by(|a, b| a.partial_cmp(b).unwrap());
    distinct.dedup();
    if distinct.len() < K + 1 {
        return Verdict::Discard("fewer than K+1 distinct abscissae");
    }
    let mut c = [0.0; K];
    c.copy_from_slice(&coeffs[..K]);
    let truth = Polynomial::<K>::new(c);
    let ys: Vec<f64> = xs.iter().enumerate().map(|(i, x)| truth.f(*x) + noise.as_ref().map(|v| v[i]).unwrap_or(0.0)).collect();
    let w: Vec<f64> = match weights {
        Some(w) => w.clone(),
        None => vec![1.0; n],
    };
    // weighted Hankel (normal) matrix and its condition number
    let mut m = DMatrix::<f64>::zeros(K, K);
    for r in 0..K {
        for cc in 0..K {
            m[(r, cc)] = (0..n).map(|i| w[i] * xs[i].powi((r + cc) as i32)).sum();
        }
    }
    let sv = m.clone().svd(false, false).singular_values;
    let cond = sv.max() / sv.min();
    if !(cond < 1e10) {
        return Verdict::Discard("normal matrix condition above 1e10");
    }
    let fit = match guarded(|| Polynomial::<K>::least_squares(&xs, &ys, weights.as_deref())) {
        Ok(f) => f,
        Err(msg) => return Verdict::fail("C09/least_squares/panic", format!("K={K}, n={n}: {msg}")),
    };
    let eps = f64::EPSILON;
    let cmax = coeffs[..K].iter().fold(0.0f64, |a, b| a.max(b.abs())).max(1.0);
    // reference solve by SVD of the weighted design matrix
    let mut a = DMatrix::<f64>::zeros(n, K);
    let mut b = DVector::<f64>::zeros(n);
    for i in 0..n {
        let sw = w[i].sqrt();
        for k in 0..K {
            a[(i, k)] = sw * xs[i].powi(k as i32);
        }
        b[i] = sw * ys[i];
    }
    // reference solve: Householder QR of the weighted design matrix
    let qr = a.clone().qr();
    let reference = qr.r().solve_upper_triangular(&qr.q().tr_mul(&b));
    if noise.is_none() {
        cx.label("poly_exact");
        for k in 0..K {
            ensure!((fit.c[k] - c[k]).abs() <= 1e3 * eps * cond * cmax + 1e-9, format!("C09/least_squares/exact_recovery/K={K}"), "fit of exact samples of {:?} on {n} abscissae in [{:.3},{:.3}] returned {:?} (coefficient {k} off by {:e}; normal-matrix condition {cond:e}; weights {})", c, centre - hw, centre + hw, fit.c, (fit.c[k] - c[k]).abs(), weights.is_some());
        }
    } else {
        cx.label("poly_noisy");
    }
    // normal equations: weighted residual orthogonal to every monomial
    let cfm = fit.c.iter().fold(0.0f64, |a, b| a.max(b.abs())).max(1.0);
    for k in 0..K {
        let g: f64 = (0..n).map(|i| w[i] * (ys[i] - fit.f(xs[i])) * xs[i].powi(k as i32)).sum();
        let mag: f64 = (0..n).map(|i| w[i] * (ys[i].abs() + cfm * (0..K).map(|j| xs[i].abs().powi(j as i32)).sum::<f64>()) * xs[i].abs().powi(k as i32)).sum();
        ensure!(g.abs() <= 1e3 * eps * cond * mag + 1e-9, format!("C09/least_squares/normal_equations/K={K}"), "weighted residual is not orthogonal to x^{k}: sum w r x^{k} = {g:e} (scale {mag:e}, condition {cond:e}); fit {:?}, n={n}, abscissae in [{:.3},{:.3}], weights {}", fit.c, centre - hw, centre + hw, weights.is_some());
    }
    if let Some(rf) = reference {
        for k in 0..K {
            ensure!((fit.c[k] - rf[k]).abs() <= 1e3 * eps * cond * cfm.max(cmax) + 1e-8, format!("C09/least_squares/vs_qr_reference/K={K}"), "coefficient {k}: fit {:e}, QR reference {:e} (condition {cond:e})", fit.c[k], rf[k]);
        }
    }
    // series best-fit line = degree-1 unweighted fit (abscissae must ascend for a series)
    if K == 2 && weights.is_none() {
        let mut pairs: Vec<(f64, f64)> = xs.iter().cloned().zip(ys.iter().cloned()).collect();
        pairs.sort_by(|a, b| a.0.partial_cmp(&b.0).unwrap());
        let s = Series1::try_new(pairs.iter().map(|p| p.0).collect(), pairs.iter().map(|p| p.1).collect()).unwrap();
        let l = s.best_fit_line();
        ensure!((l.b() - fit.c[0]).abs() <= 1e3 * eps * cond * cfm + 1e-8 && (l.m() - fit.c[1]).abs() <= 1e3 * eps * cond * cfm + 1e-8, "C09/best_fit_line/vs_degree1_fit", "best_fit_line m={:e} b={:e}, degree-1 least squares {:?}", l.m(), l.b(), fit.c);
        cx.label("best_fit_line");
        // history on one series: fitted on its first part, extended through its public abscissa domain and ordinates,
        // fitted again — the second fit is that of the data it now holds (and of a clone of it)
        let half = (pairs.len() / 2).max(2);
        if half < pairs.len() && pairs[half - 1].0 < pairs[half].0 && pairs[0].0 < pairs[half - 1].0 {
            let mut h = Series1::try_new(pairs[..half].iter().map(|p| p.0).collect(), pairs[..half].iter().map(|p| p.1).collect()).unwrap();
            let _first = h.best_fit_line();
            let mut ok = true;
            for (x, y) in &pairs[half..] {
                if h.x.push(*x).is_err() {
                    ok = false;
                    break;
                }
                h.y.push(*y);
            }
            if ok {
                for (who, l2) in [("the extended series", h.best_fit_line()), ("a clone of the extended series", h.clone().best_fit_line())] {
                    ensure!((l2.b() - l.b()).abs() <= 1e-9 * (1.0 + l.b().abs()) + 1e3 * eps * cond * cfm && (l2.m() - l.m()).abs() <= 1e-9 * (1.0 + l.m().abs()) + 1e3 * eps * cond * cfm, "C09/best_fit_line/history/stale_after_extension", "best_fit_line of {who} is m={:e} b={:e}; a series built from the same data gives m={:e} b={:e}", l2.m(), l2.b(), l.m(), l.b());
                }
                cx.label("best_fit_line_history");
            }
        }
    }
    let asym = centre.abs() > 0.1 * hw;
    cx.label_if(asym, "asymmetric");
    let wr = weights.as_ref().map(|w| w.iter().cloned().fold(0.0, f64::max) / w.iter().cloned().fold(f64::INFINITY, f64::min));
    cx.label_if(weights.is_some(), "weighted");
    if asym && wr.map(|r| r >= 2.0).unwrap_or(true) {
        cx.nontrivial();
    }
    cx.pass()
}

fn line2pts(x0: f64, y0: f64, x1: f64, y1: f64) -> Verdict {
    let mut cx = Ctx::new();
    cx.label("line_2pts");
    let r = Line1::try_from_points(x0, y0, x1, y1);
    if (x1 - x0).abs() < 1e-12 {
        ensure!(r.is_err(), "C09/line/vertical_accepted", "vertical line accepted");
        return cx.pass();
    }
    let l = match r {
        Ok(l) => l,
        Err(e) => return Verdict::fail("C09/line/rejected", format!("{e}")),
    };
    let tol = 1e-9 * (1.0 + y0.abs() + y1.abs() + l.m().abs() * (x0.abs() + x1.abs()));
    ensure!((l.f(x0) - y0).abs() <= tol && (l.f(x1) - y1).abs() <= tol, "C09/line/interpolates", "line through ({x0},{y0}) ({x1},{y1}) gives f(x0)={:e}, f(x1)={:e}", l.f(x0), l.f(x1));
    cx.nontrivial();
    cx.pass()
}

#[allow(clippy::too_many_arguments)]
fn circle(c: &P2, r: f64, a0: f64, extent: f64, n: usize, jitter: &[f64], guess: (f64, f64, f64), gaussian: &Option<f64>, noise: &Option<Vec<f64>>) -> Verdict {
    let mut cx = Ctx::new();
    let c0 = pt2(c);
    // sample angles spread over the arc (sorted jitter keeps the extent covered)
    let mut pts: Vec<Point2> = vec![];
    for i in 0..n {
        let f = (i as f64 + jitter[i] * 0.9) / n as f64;
        let th = a0 + extent * f;
        let rr = r * (1.0 + noise.as_ref().map(|v| v[i] * 0.02).unwrap_or(0.0));
        pts.push(c0 + engeom::Vector2::new(th.cos(), th.sin()) * rr);
    }
    // make sure the arc end is represented
    let th = a0 + extent;
    pts.push(c0 + engeom::Vector2::new(th.cos(), th.sin()) * r);
    let g = Circle2::new(c0.x + guess.0 * r, c0.y + guess.1 * r, r * guess.2);
    let mode = match gaussian {
        Some(s) => BestFit::Gaussian(*s),
        None => BestFit::All,
    };
    let res = match guarded(|| Circle2::fitting_circle(&pts, &g, mode)) {
        Ok(r) => r,
        Err(m) => return Verdict::fail("C09/circle_fit/panic", m),
    };
    if noise.is_none() {
        cx.label("circle_exact");
        cx.label_if(gaussian.is_some(), "circle_gaussian");
        let fit = match res {
            Ok(f) => f,
            Err(e) => return Verdict::fail("C09/circle_fit/exact_failed", format!("fit of {} exact samples on an arc of {:.1} degrees failed: {e}", pts.len(), extent.to_degrees())),
        };
        let tol = 1e-6 * r;
        ensure!((fit.center - c0).norm() <= tol && (fit.r() - r).abs() <= tol, "C09/circle_fit/exact_recovery", "exact samples of circle ({:?}, r={r:e}) on {:.1} degrees from guess offset ({:.2},{:.2})R, {:.2}R: fitted ({:?}, r={:e})", c0, extent.to_degrees(), guess.0, guess.1, guess.2, fit.center, fit.r());
    } else {
        cx.label("circle_noisy");
        if gaussian.is_some() {
            // re-weighting changes the objective; only success/finite is asserted
            if let Ok(f) = res {
                ensure!(f.r().is_finite() && f.center.x.is_finite(), "C09/circle_fit/non_finite", "non-finite fit");
            }
            return cx.pass();
        }
        let Ok(fit) = res else { return Verdict::Discard("solver reported failure on noisy data") };
        // stationarity of sum (|p-c| - R)^2
        let (mut gx, mut gy, mut gr, mut sr) = (0.0, 0.0, 0.0, 0.0);
        for p in &pts {
            let v = p - fit.center;
            let d = v.norm();
            let e = d - fit.r();
            gx += -2.0 * e * v.x / d;
            gy += -2.0 * e * v.y / d;
            gr += -2.0 * e;
            sr += e.abs();
        }
        let gn = (gx * gx + gy * gy + gr * gr).sqrt();
        ensure!(gn <= 1e-5 * (sr + fit.r()), "C09/circle_fit/not_stationary", "gradient norm {gn:e} of the summed squared radial residuals at the result (sum |r| = {sr:e}, R = {:e})", fit.r());
    }
    if c0.coords.norm() > 1e-6 {
        cx.nontrivial();
    }
    cx.pass()
}

/// Exact lattice samples: every sample is at bit-identical distance from the true centre, so a concentric guess sees
/// residuals with zero spread (and zero sum of squares when its radius is right too).
fn circle_lattice(cxi: i32, cyi: i32, which: u8, exp2: i32, drop: &[u16], guess: (i8, i8, f64), gaussian: &Option<f64>) -> Verdict {
    let mut cx = Ctx::new();
    cx.label("circle_lattice");
    let (rr, legs): (i32, &[(i32, i32)]) = match which % 4 {
        0 => (5, &[(3, 4)]),
        1 => (13, &[(5, 12)]),
        2 => (25, &[(7, 24), (15, 20)]),
        _ => (65, &[(16, 63), (25, 60), (33, 56), (39, 52)]),
    };
    let mut offs: Vec<(i32, i32)> = vec![(rr, 0), (-rr, 0), (0, rr), (0, -rr)];
    for (a, b) in legs {
        for (x, y) in [(*a, *b), (*b, *a)] {
            for (sx, sy) in [(1, 1), (1, -1), (-1, 1), (-1, -1)] {
                offs.push((sx * x, sy * y));
            }
        }
    }
    offs.sort_by(|p, q| (p.1 as f64).atan2(p.0 as f64).partial_cmp(&(q.1 as f64).atan2(q.0 as f64)).unwrap());
    for d in drop {
        if offs.len() > 5 {
            let k = idx(*d, offs.len());
            offs.remove(k);
        }
    }
    // the statement asks for an arc of at least 60 degrees
    let mut angs: Vec<f64> = offs.iter().map(|p| (p.1 as f64).atan2(p.0 as f64)).collect();
    angs.sort_by(|a, b| a.partial_cmp(b).unwrap());
    let mut gap = angs[0] + std::f64::consts::TAU - angs[angs.len() - 1];
    for w in angs.windows(2) {
        gap = gap.max(w[1] - w[0]);
    }
    if std::f64::consts::TAU - gap < PI / 3.0 {
        return Verdict::Discard("samples span less than 60 degrees");
    }
    let u = 2f64.powi(exp2);
    let r = rr as f64 * u;
    let c0 = Point2::new(cxi as f64 * u, cyi as f64 * u);
    let pts: Vec<Point2> = offs.iter().map(|p| Point2::new(c0.x + p.0 as f64 * u, c0.y + p.1 as f64 * u)).collect();
    let concentric = guess.0 == 0 && guess.1 == 0;
    let g = Circle2::new(c0.x + guess.0 as f64 * r / 8.0, c0.y + guess.1 as f64 * r / 8.0, r * guess.2);
    let mode = match gaussian {
        Some(s) => BestFit::Gaussian(*s),
        None => BestFit::All,
    };
    cx.label_if(concentric, "circle_concentric_guess");
    cx.label_if(gaussian.is_some(), "circle_gaussian");
    let fit = match guarded(|| Circle2::fitting_circle(&pts, &g, mode)) {
        Ok(Ok(f)) => f,
        Ok(Err(e)) => return Verdict::fail("C09/circle_fit/exact_failed", format!("fit of {} lattice samples failed: {e}", pts.len())),
        Err(m) => return Verdict::fail("C09/circle_fit/panic", m),
    };
    let tol = 1e-6 * r;
    ensure!((fit.center - c0).norm() <= tol && (fit.r() - r).abs() <= tol, "C09/circle_fit/exact_recovery", "{} lattice samples of circle ({:?}, r={r:e}) from guess offset ({}/8, {}/8)R, {:.3}R, mode {}: fitted ({:?}, r={:e})", pts.len(), c0, guess.0, guess.1, guess.2, if gaussian.is_some() { "Gaussian" } else { "All" }, fit.center, fit.r());
    // a guess that is already the answer must come back unchanged
    let exact = Circle2::new(c0.x, c0.y, r);
    match guarded(|| Circle2::fitting_circle(&pts, &exact, mode)) {
        Ok(Ok(f)) => ensure!((f.center - c0).norm() <= tol && (f.r() - r).abs() <= tol, "C09/circle_fit/exact_guess_moved", "a guess equal to the generating circle came back as ({:?}, r={:e})", f.center, f.r()),
        Ok(Err(e)) => return Verdict::fail("C09/circle_fit/exact_guess_failed", format!("fit started at the generating circle failed: {e}")),
        Err(m) => return Verdict::fail("C09/circle_fit/panic", m),
    }
    if cxi != 0 || cyi != 0 {
        cx.nontrivial();
    }
    cx.pass()
}

/// "the three-point circle passes through its three points and rejects collinear ones" - a repeated point is the extreme
/// case of collinear: whatever comes back must not be a circle with non-finite centre or radius
fn three_points(p0: &P2, p1: &P2, p2: &P2, kind: u8) -> Verdict {
    let mut cx = Ctx::new();
    let (a, b, c) = (pt2(p0), pt2(p1), pt2(p2));
    match kind {
        0 => {
            cx.label("three_points_general");
            let (ab, bc, ca) = ((b - a).norm(), (c - b).norm(), (a - c).norm());
            let m = ab.max(bc).max(ca);
            let second = if m == ab { bc.max(ca) } else if m == bc { ab.max(ca) } else { ab.max(bc) };
            let area2 = ((b - a).x * (c - a).y - (b - a).y * (c - a).x).abs();
            if m == 0.0 || area2 / (m * second).max(1e-300) < 2e-3 {
                return Verdict::Discard("needle or degenerate triangle: neither collinear nor in general position");
            }
            let circ = match Circle2::from_3_points(a, b, c) {
                Ok(x) => x,
                Err(e) => return Verdict::fail("C09/from_3_points/general_position_rejected", format!("{e}: {:?} {:?} {:?}", a, b, c)),
            };
            let scale = a.coords.norm().max(b.coords.norm()).max(c.coords.norm()) + m;
            let cond = (m * m / area2).max(1.0);
            let tol = (1e-9 * (circ.r() + m) + 64.0 * f64::EPSILON * scale) * cond * cond;
            for (i, p) in [a, b, c].iter().enumerate() {
                ensure!(circ.distance_to(p).abs() <= tol, "C09/from_3_points/not_through_point", "point {i} is {:e} off the circle (r={:e})", circ.distance_to(p), circ.r());
            }
            cx.nontrivial();
        }
        1 => {
            cx.label("three_points_collinear");
            let a = Point2::new((a.x * 4.0).round() / 4.0, (a.y * 4.0).round() / 4.0);
            let dv = engeom::Vector2::new(b.x.round() / 4.0, b.y.round() / 4.0);
            if dv.norm() == 0.0 {
                return Verdict::Discard("zero step");
            }
            ensure!(Circle2::from_3_points(a, a + dv, a + dv * 3.0).is_err(), "C09/from_3_points/collinear_accepted", "collinear triple accepted");
            ensure!(Circle2::from_3_points(a + dv * 3.0, a, a + dv).is_err(), "C09/from_3_points/collinear_accepted", "collinear triple (middle point first) accepted");
            cx.nontrivial();
        }
        _ => {
            cx.label("three_points_repeated");
            let (x, y, z) = match kind {
                2 => (a, a, c),
                3 => (a, c, c),
                4 => (a, c, a),
                _ => (a, a, a),
            };
            match guarded(|| Circle2::from_3_points(x, y, z)) {
                Ok(Ok(k)) => ensure!(k.r().is_finite() && k.center.x.is_finite() && k.center.y.is_finite(), "C09/from_3_points/repeated_point_gives_non_finite_circle", "triple {:?} {:?} {:?} with a repeated point was accepted as the circle ({:?}, r={:e})", x, y, z, k.center, k.r()),
                Ok(Err(_)) => {}
                Err(m) => return Verdict::fail("C09/from_3_points/panic", m),
            }
            cx.nontrivial();
        }
    }
    cx.pass()
}

/// Inliers that deviate outward (within the tolerance) at the axis extremes of the generating circle still count.
fn ransac_extremes(c: &P2, r: f64, exact: &[f64], noisy: &[(f64, f64)], rho: f64, out_frac: f64, out_angles: &[f64]) -> Verdict {
    let mut cx = Ctx::new();
    cx.label("ransac_outward_inliers_at_extremes");
    // as in the plain RANSAC family: the exact samples must span at least 60 degrees and must not be a few positions
    // repeated (shrinking and byte-level mutation collapse them to one angle), or no triple of them defines the circle well
    {
        let mut a: Vec<f64> = exact.iter().map(|t| t.rem_euclid(std::f64::consts::TAU)).collect();
        a.sort_by(|x, y| x.partial_cmp(y).unwrap());
        let mut distinct = 1;
        let mut largest_gap = a[0] + std::f64::consts::TAU - a[a.len() - 1];
        for w in a.windows(2) {
            if w[1] - w[0] > 0.02 {
                distinct += 1;
            }
            largest_gap = largest_gap.max(w[1] - w[0]);
        }
        if 2 * distinct < a.len() || std::f64::consts::TAU - largest_gap < PI / 3.0 {
            return Verdict::Discard("exact samples collapsed to a few positions or spanning less than 60 degrees");
        }
    }
    let c0 = pt2(c);
    let tol = 1e-3 * r;
    let mut pts: Vec<Point2> = exact.iter().map(|t| c0 + engeom::Vector2::new(t.cos(), t.sin()) * r).collect();
    for (i, (dth, dev)) in noisy.iter().enumerate() {
        let th = (i % 4) as f64 * std::f64::consts::FRAC_PI_2 + dth;
        pts.push(c0 + engeom::Vector2::new(th.cos(), th.sin()) * (r + dev * tol));
    }
    let n_in = pts.len();
    // the other circle: more points than the exact samples, fewer than all samples of the generating circle
    let n_out = (exact.len() + 1 + (out_frac * (noisy.len() as f64 - 2.0)).floor().max(0.0) as usize).min(out_angles.len()).min(n_in - 1);
    let c1 = c0 + engeom::Vector2::new(6.0 * r * (1.0 + rho), 2.0 * r);
    for t in &out_angles[..n_out] {
        pts.push(c1 + engeom::Vector2::new(t.cos(), t.sin()) * (rho * r));
    }
    let n = pts.len();
    let perm = crate::gen_mesh::permutation(n, 0x5eed ^ n as u64);
    let mut shuffled = vec![pts[0]; n];
    for (i, j) in perm.iter().enumerate() {
        shuffled[*j] = pts[i];
    }
    let truth = Circle2::from_point(c0, r);
    let fit = match guarded(|| Circle2::ransac(&shuffled, tol, None, None, None)) {
        Ok(Ok(f)) => f,
        Ok(Err(e)) => return Verdict::fail("C09/ransac/failed", format!("no candidate found: {e}")),
        Err(m) => return Verdict::fail("C09/ransac/panic", m),
    };
    let count = |k: &Circle2, t: f64| shuffled.iter().filter(|p| k.distance_to(p).abs() < t).count();
    let (a, b) = (count(&fit, tol), count(&truth, tol * 0.999));
    ensure!(b == n_in, "C09/harness/ransac_extremes", "harness: the generating circle should hold all {n_in} of its samples, holds {b}");
    ensure!(a >= b, "C09/ransac/fewer_inliers_than_generating_circle", "RANSAC circle ({:?}, r={:e}) has {a} inliers, the generating circle ({:?}, r={r:e}) has {b} of {n} points ({} of them displaced outward near its axis extremes; the other circle holds {n_out})", fit.center, fit.r(), c0, noisy.len());
    cx.nontrivial();
    cx.pass()
}

fn ransac(c: &P2, r: f64, n_in: usize, in_angles: &[f64], outliers: &[P2], limits: u8) -> Verdict {
    let mut cx = Ctx::new();
    cx.label("ransac");
    let c0 = pt2(c);
    let n_in = n_in.min(in_angles.len());
    // the statement quantifies over arcs of at least 60 degrees: the inliers must span that much and must not be a few
    // positions repeated (three coincident points define no circle, and a seeded sampler that draws mostly duplicates
    // cannot be expected to find the generating one)
    {
        let mut a: Vec<f64> = in_angles[..n_in].iter().map(|t| t.rem_euclid(std::f64::consts::TAU)).collect();
        a.sort_by(|x, y| x.partial_cmp(y).unwrap());
        let mut distinct = 1;
        let mut largest_gap = a[0] + std::f64::consts::TAU - a[a.len() - 1];
        for w in a.windows(2) {
            if w[1] - w[0] > 0.02 {
                distinct += 1;
            }
            largest_gap = largest_gap.max(w[1] - w[0]);
        }
        if std::f64::consts::TAU - largest_gap < 1.05 || 2 * distinct < n_in {
            return Verdict::Discard("inliers do not span 60 degrees with mostly distinct positions");
        }
    }
    let mut pts: Vec<Point2> = in_angles[..n_in].iter().map(|t| c0 + engeom::Vector2::new(t.cos(), t.sin()) * r).collect();
    let n_out = outliers.len().min(2 * n_in);
    cx.label_if(n_out > n_in, "ransac_minority_inliers");
    for o in &outliers[..n_out] {
        pts.push(c0 + engeom::Vector2::new(o[0], o[1]) * r);
    }
    // interleave deterministically
    let n = pts.len();
    let perm = crate::gen_mesh::permutation(n, 0x5eed ^ n as u64);
    let mut shuffled = vec![pts[0]; n];
    for (i, j) in perm.iter().enumerate() {
        shuffled[*j] = pts[i];
    }
    let tol = 1e-6 * r;
    let truth = Circle2::from_point(c0, r);
    let (min_r, max_r) = match limits {
        1 => (Some(r * 0.5), None),
        2 => (None, Some(r * 2.0)),
        3 => (Some(r * 0.5), Some(r * 2.0)),
        _ => (None, None),
    };
    let res = match guarded(|| Circle2::ransac(&shuffled, tol, None, min_r, max_r)) {
        Ok(r) => r,
        Err(m) => return Verdict::fail("C09/ransac/panic", m),
    };
    let Ok(fit) = res else {
        return Verdict::fail("C09/ransac/failed", format!("no candidate found with {n_in} exact inliers of {n} points"));
    };
    let count = |c: &Circle2, t: f64| shuffled.iter().filter(|p| c.distance_to(p).abs() < t).count();
    let (a, b) = (count(&fit, tol), count(&truth, tol * 0.999));
    ensure!(a >= b, "C09/ransac/fewer_inliers_than_generating_circle", "RANSAC circle ({:?}, r={:e}) has {a} inliers, the generating circle ({:?}, r={r:e}) has {b} of {n} points", fit.center, fit.r(), c0);
    if let Some(m) = min_r {
        ensure!(fit.r() >= m, "C09/ransac/min_r", "radius {:e} below min_r {m:e}", fit.r());
    }
    if let Some(m) = max_r {
        ensure!(fit.r() <= m, "C09/ransac/max_r", "radius {:e} above max_r {m:e}", fit.r());
    }
    if c0.coords.norm() > 1e-6 {
        cx.nontrivial();
    }
    cx.pass()
}

fn stats(values: &[f64]) -> Verdict {
    let mut cx = Ctx::new();
    cx.label("stats");
    use engeom::stats::{compute_mean, compute_median, compute_st_dev, compute_variance};
    if values.is_empty() {
        ensure!(compute_mean(values).is_err() && compute_variance(values).is_err() && compute_st_dev(values).is_err() && compute_median(values).is_err(), "C09/stats/empty_accepted", "statistics of an empty slice accepted");
        return cx.pass();
    }
    let n = values.len() as f64;
    let mean: f64 = values.iter().sum::<f64>() / n;
    let var: f64 = values.iter().map(|v| (v - mean) * (v - mean)).sum::<f64>() / n;
    let sc = values.iter().fold(1.0f64, |a, b| a.max(b.abs()));
    ensure!((compute_mean(values).unwrap() - mean).abs() <= 1e-12 * sc, "C09/stats/mean", "mean");
    ensure!((compute_variance(values).unwrap() - var).abs() <= 1e-12 * sc * sc, "C09/stats/variance", "variance");
    ensure!((compute_st_dev(values).unwrap() - var.sqrt()).abs() <= 1e-12 * sc, "C09/stats/st_dev", "st dev");
    let mut s = values.to_vec();
    s.sort_by(|a, b| a.partial_cmp(b).unwrap());
    let med = if s.len() % 2 == 1 { s[s.len() / 2] } else { 0.5 * (s[s.len() / 2] + s[s.len() / 2 - 1]) };
    ensure!((compute_median(values).unwrap() - med).abs() <= 1e-12 * sc, "C09/stats/median", "median");
    cx.nontrivial();
    cx.pass()
}
