//! C01 — Curve stations are consistent with arc length

use crate::ensure;
use crate::fw::*;
use crate::gen::*;
use crate::oracle::{Poly, Pt, Vc};
use proptest::prelude::*;
use serde::{Deserialize, Serialize};

pub struct C01;

#[derive(Clone, Debug, Serialize, Deserialize)]
pub enum Probe {
    AtVertex(u16),
    UlpBelow(u16),
    UlpAbove(u16),
    Interior(u16, f64),
    Zero,
    Total,
    UlpBelowZero,
    UlpAboveTotal,
    Far(bool),
    Fraction(f64),
    /// the length -0.0: numerically zero, so the front (or seam) station
    NegZero,
}

#[derive(Clone, Debug, Serialize, Deserialize)]
pub enum Case {
    D2 { spec: Curve2Spec, probes: Vec<Probe> },
    D3 { spec: Curve3Spec, probes: Vec<Probe> },
}

fn probe() -> BoxedStrategy<Probe> {
    prop_oneof![
        4 => any::<u16>().prop_map(Probe::AtVertex),
        2 => any::<u16>().prop_map(Probe::UlpBelow),
        2 => any::<u16>().prop_map(Probe::UlpAbove),
        5 => (any::<u16>(), unif(0.0, 1.0)).prop_map(|(i, f)| Probe::Interior(i, f)),
        1 => Just(Probe::Zero),
        1 => Just(Probe::Total),
        1 => Just(Probe::UlpBelowZero),
        1 => Just(Probe::UlpAboveTotal),
        1 => any::<bool>().prop_map(Probe::Far),
        2 => prop_oneof![8 => unif(0.0, 1.0), 1 => Just(-0.0), 1 => Just(0.0), 1 => Just(1.0)].prop_map(Probe::Fraction),
        1 => Just(Probe::NegZero),
    ]
    .boxed()
}

impl Property for C01 {
    type Case = Case;
    const ID: &'static str = "C01";
    fn rule() -> &'static str {
        "a case is a 2D or 3D polyline (2-64 vertices quick / up to 400 thorough; 7 shapes incl. collinear runs, lattice paths, dense-then-sparse; scale 1e-3..1e3; tol 1e-9/1e-6/1e-4 of scale; open / exactly closed / closed within tol / force-closed; injected exact and sub-tolerance duplicates) plus 4-24 probes constructed from the built curve (exact vertex lengths, one ulp either side, interior fractions, 0, -0.0, L, one ulp outside, far outside, fractions incl. -0.0, 0 and 1). Non-trivial: >=3 stored vertices with two different edge lengths, and the probes include an exact vertex hit and an ulp neighbour. Distinct = distinct canonical JSON."
    }
    fn cases(t: Tier) -> u32 {
        t.pick(1_200_000, 10_000_000)
    }
    fn expected_labels() -> Vec<&'static str> {
        vec!["2d", "3d", "closed", "open", "force_closed_appended", "dups_removed", "seam_station", "interior_vertex_station", "ulp_neighbour", "outside_none", "last_vertex"]
    }
    fn strategy(t: Tier) -> BoxedStrategy<Case> {
        let nmax = t.pick(64, 400);
        prop_oneof![
            3 => (curve2_spec(2, nmax, -3.0, 3.0, true), prop::collection::vec(probe(), 4..24)).prop_map(|(spec, probes)| Case::D2 { spec, probes }),
            2 => (curve3_spec(2, nmax, -3.0, 3.0, true), prop::collection::vec(probe(), 4..24)).prop_map(|(spec, probes)| Case::D3 { spec, probes }),
        ]
        .boxed()
    }
    fn check(case: &Case) -> Verdict {
        match case {
            Case::D2 { spec, probes } => check2(spec, probes),
            Case::D3 { spec, probes } => check3(spec, probes),
        }
    }
}

/// what the library reported for a station, dimension independent
struct St<const D: usize> {
    point: Pt<D>,
    dir: Vc<D>,
    index: usize,
    fraction: f64,
    length_along: f64,
}

fn resolve(p: &Probe, lens: &[f64]) -> (f64, bool, bool) {
    // returns (length, is_fraction_request, expect_none)
    let n = lens.len();
    let total = lens[n - 1];
    match p {
        Probe::AtVertex(i) => (lens[idx(*i, n)], false, false),
        Probe::UlpBelow(i) => {
            let l = next_down(lens[idx(*i, n)]);
            (l, false, l < 0.0)
        }
        Probe::UlpAbove(i) => {
            let l = next_up(lens[idx(*i, n)]);
            (l, false, l > total)
        }
        Probe::Interior(i, f) => {
            let k = idx(*i, n - 1);
            let l = lens[k] + f * (lens[k + 1] - lens[k]);
            (l.min(lens[k + 1]).max(lens[k]), false, false)
        }
        Probe::Zero => (0.0, false, false),
        Probe::Total => (total, false, false),
        Probe::UlpBelowZero => (-f64::from_bits(1), false, true),
        Probe::UlpAboveTotal => (next_up(total), false, true),
        Probe::Far(neg) => (if *neg { -total - 1.0 } else { 2.0 * total + 1.0 }, false, true),
        Probe::Fraction(f) => (f * total, true, false),
        Probe::NegZero => (-0.0, false, false),
    }
}

/// dimension-independent checks of a returned station against the stored vertices
fn check_station<const D: usize>(cx: &mut Ctx, what: &str, l: f64, st: &St<D>, v: &[Pt<D>], lens: &[f64], model: &Poly<D>, closed: bool, two_d: bool) -> Result<(), Failure> {
    let n = v.len();
    let total = lens[n - 1];
    let scale = model.scale();
    let ptol = 64.0 * ulp(scale);
    crate::ensure_r!((st.length_along - l).abs() <= 4.0 * ulp(total), format!("C01/{what}/length_along"), "station for l={l:e} reports length_along {:e} (L={total:e})", st.length_along);
    crate::ensure_r!(st.index < n - 1, format!("C01/{what}/index_range"), "index {} with {n} vertices", st.index);
    crate::ensure_r!(st.fraction >= 0.0 && st.fraction <= 1.0, format!("C01/{what}/fraction_range"), "fraction {:e}", st.fraction);
    let lerp = v[st.index] + (v[st.index + 1] - v[st.index]) * st.fraction;
    crate::ensure_r!((lerp - st.point).norm() <= ptol, format!("C01/{what}/index_fraction_reproduce_point"), "lerp(v[{}], v[{}], {:e}) = {:?} but station point is {:?} (l={l:e})", st.index, st.index + 1, st.fraction, lerp, st.point);
    let walk = model.point_at(l);
    crate::ensure_r!((walk - st.point).norm() <= ptol, format!("C01/{what}/point_on_curve_at_length"), "station point {:?} but walking the vertices to l={l:e} gives {:?}", st.point, walk);
    // is this an exact vertex hit?
    let vhit = lens.iter().position(|x| *x == l);
    let edge_dir = |i: usize| (v[i + 1] - v[i]).normalize();
    match vhit {
        Some(k) => {
            // (e) vertex index/fraction convention
            if k == n - 1 {
                crate::ensure_r!(st.index == n - 2 && st.fraction == 1.0, format!("C01/{what}/last_vertex_convention"), "last vertex reported as ({}, {:e})", st.index, st.fraction);
                cx.label("last_vertex");
            } else {
                crate::ensure_r!(st.index == k && st.fraction == 0.0, format!("C01/{what}/vertex_convention"), "vertex {k} reported as ({}, {:e})", st.index, st.fraction);
            }
            crate::ensure_r!(st.point == v[k], format!("C01/{what}/vertex_point"), "station at vertex {k} has point {:?}, vertex is {:?}", st.point, v[k]);
            // direction at a vertex
            let expect: Option<Vc<D>> = if !two_d {
                Some(if k == n - 1 { edge_dir(n - 2) } else { edge_dir(k) })
            } else if closed && (k == 0 || k == n - 1) {
                cx.label("seam_station");
                let s = edge_dir(0) + edge_dir(n - 2);
                if s.norm() < 1e-6 {
                    None
                } else {
                    Some(s.normalize())
                }
            } else if k == 0 {
                Some(edge_dir(0))
            } else if k == n - 1 {
                Some(edge_dir(n - 2))
            } else {
                cx.label("interior_vertex_station");
                let s = edge_dir(k - 1) + edge_dir(k);
                if s.norm() < 1e-6 {
                    None
                } else {
                    Some(s.normalize())
                }
            };
            match expect {
                Some(e) => crate::ensure_r!((st.dir.norm() - 1.0).abs() <= 1e-12 && (e - st.dir).norm() <= 1e-9, format!("C01/{what}/vertex_direction"), "direction at vertex {k} is {:?}, expected {:?}", st.dir, e),
                None => cx.label("doubling_back_skipped"),
            }
        }
        None => {
            let e = edge_dir(st.index);
            crate::ensure_r!((st.dir.norm() - 1.0).abs() <= 1e-12, format!("C01/{what}/direction_unit"), "|direction| = {:e}", st.dir.norm());
            crate::ensure_r!((e - st.dir).norm() <= 1e-9, format!("C01/{what}/edge_direction"), "direction {:?} not parallel to edge {} ({:?}) for l={l:e}", st.dir, st.index, e);
            crate::ensure_r!(lens[st.index] <= l && l <= lens[st.index + 1], format!("C01/{what}/edge_contains_length"), "l={l:e} reported on edge {} spanning [{:e},{:e}]", st.index, lens[st.index], lens[st.index + 1]);
        }
    }
    Ok(())
}

fn lengths_ok<const D: usize>(lens: &[f64], length: f64, v: &[Pt<D>]) -> Result<(), Failure> {
    let n = v.len();
    crate::ensure_r!(lens.len() == n, "C01/lengths/count", "{} lengths for {n} vertices", lens.len());
    crate::ensure_r!(lens[0] == 0.0, "C01/lengths/start", "lengths[0] = {:e}", lens[0]);
    crate::ensure_r!(lens.windows(2).all(|w| w[0] <= w[1]), "C01/lengths/monotone", "cumulative lengths decrease");
    let sum: f64 = (0..n - 1).map(|i| (v[i + 1] - v[i]).norm()).sum();
    crate::ensure_r!((lens[n - 1] - sum).abs() <= n as f64 * ulp(sum), "C01/lengths/total", "last cumulative length {:e} but edge lengths sum to {sum:e}", lens[n - 1]);
    crate::ensure_r!(length == lens[n - 1], "C01/lengths/length", "length() = {length:e}, last cumulative {:e}", lens[n - 1]);
    for i in 0..n - 1 {
        let e = (v[i + 1] - v[i]).norm();
        crate::ensure_r!(((lens[i + 1] - lens[i]) - e).abs() <= 4.0 * ulp(sum), "C01/lengths/edge", "cumulative step {i} is {:e}, edge length {e:e}", lens[i + 1] - lens[i]);
    }
    Ok(())
}

fn nontrivial_curve<const D: usize>(v: &[Pt<D>]) -> bool {
    if v.len() < 3 {
        return false;
    }
    let e0 = (v[1] - v[0]).norm();
    (1..v.len() - 1).any(|i| ((v[i + 1] - v[i]).norm() - e0).abs() > 1e-9 * e0)
}

fn check2(spec: &Curve2Spec, probes: &[Probe]) -> Verdict {
    let mut cx = Ctx::new();
    cx.label("2d");
    let b = match spec.build() {
        Ok(Some(b)) => b,
        Ok(None) => return Verdict::Discard("degenerate polyline"),
        Err(e) => return Verdict::fail("C01/from_points/rejected_valid", e),
    };
    cx.label_if(b.input.len() > b.expected.len() + 4, "fine_sampled_run");
    let c = &b.curve;
    let v: Vec<Pt<2>> = c.points().to_vec();
    // construction
    // The property is about the stations of whatever vertex sequence survived de-duplication, so the stored vertices
    // themselves are the reference.  The constructor's contract is only that they are input samples in input order
    // (plus the start repeated to close); a de-duplication rule other than the one the harness expects is noted, not
    // reported.
    if v != b.expected {
        cx.label("construction_differs_from_expected");
        let mut j = 0;
        for (k, q) in v.iter().enumerate() {
            while j < b.input.len() && b.input[j] != *q {
                j += 1;
            }
            let closing_copy = k + 1 == v.len() && *q == v[0];
            ensure!(j < b.input.len() || closing_copy, "C01/from_points/stored_vertex_not_an_input_sample", "stored vertex {k} {:?} is not an input sample in input order", q);
            j += 1;
        }
        ensure!(v.len() >= 2, "C01/from_points/too_few", "fewer than two vertices stored");
    }
    let own_model = Poly::new(v.clone());
    let b_closed = (v[0] - v[v.len() - 1]).norm() <= spec.tol;
    ensure!(c.count() == v.len(), "C01/from_points/count", "count() = {} but {} vertices", c.count(), v.len());
    ensure!(c.is_closed() == b_closed, "C01/from_points/is_closed", "is_closed() = {} but first/last are {:e} apart with tol {:e}", c.is_closed(), (v[0] - v[v.len() - 1]).norm(), spec.tol);
    ensure!(c.tol() == spec.tol, "C01/from_points/tol", "tol() changed");
    cx.label_if(b_closed, "closed");
    cx.label_if(!b_closed, "open");
    cx.label_if(b.mode_used == CloseMode::ForceOpenInput, "force_closed_appended");
    cx.label_if(!spec.dups.is_empty(), "dups_removed");
    let lens: Vec<f64> = c.lengths().clone();
    if let Err(f) = lengths_ok(&lens, c.length(), &v) {
        return Verdict::Fail(f);
    }
    let n = v.len();
    let total = c.length();
    let conv = |s: &engeom::CurveStation2| St::<2> { point: s.point(), dir: s.direction().into_inner(), index: s.index(), fraction: s.fraction(), length_along: s.length_along() };
    let mut vertex_hit = false;
    let mut ulp_nb = false;
    // a fraction outside [0, 1], by however little, is a length outside [0, L]: no station
    for f in [next_up(1.0), 1.0 + 4.0 * f64::EPSILON, -1e-17, -f64::EPSILON, 1.5, -0.5] {
        if f * total > total || f * total < 0.0 {
            ensure!(c.at_fraction(f).is_none(), "C01/at_fraction/outside_not_none", "at_fraction({f:e}) returned a station; {f:e} * L is outside [0, L]");
        }
    }
    for p in probes {
        let (l, is_frac, expect_none) = resolve(p, &lens);
        if is_frac {
            let Probe::Fraction(f) = p else { unreachable!() };
            let lp = f * total;
            let a = c.at_fraction(*f);
            let d = c.at_length(lp);
            match (a, d) {
                (Some(a), Some(d)) => {
                    ensure!(a.point() == d.point() && a.index() == d.index() && a.fraction() == d.fraction(), "C01/at_fraction/agrees_with_at_length", "at_fraction({f:e}) = ({}, {:e}) but at_length({lp:e}) = ({}, {:e})", a.index(), a.fraction(), d.index(), d.fraction());
                    if let Err(fl) = check_station(&mut cx, "at_fraction", lp, &conv(&a), &v, &lens, &own_model, b_closed, true) {
                        return Verdict::Fail(fl);
                    }
                }
                (None, None) => return Verdict::fail("C01/at_fraction/none_inside", format!("at_fraction({f:e}) returned None")),
                _ => return Verdict::fail("C01/at_fraction/agrees_with_at_length", format!("at_fraction({f:e}) and at_length({lp:e}) disagree on Some/None")),
            }
            continue;
        }
        let got = c.at_length(l);
        if expect_none || l < 0.0 || l > total {
            ensure!(got.is_none(), "C01/at_length/outside_not_none", "at_length({l:e}) outside [0, {total:e}] returned a station at {:?}", got.map(|s| s.point()));
            cx.label("outside_none");
            continue;
        }
        let Some(s) = got else {
            return Verdict::fail("C01/at_length/none_inside", format!("at_length({l:e}) inside [0, {total:e}] returned None"));
        };
        if let Err(fl) = check_station(&mut cx, "at_length", l, &conv(&s), &v, &lens, &own_model, b_closed, true) {
            return Verdict::Fail(fl);
        }
        // 2D normal = direction rotated by -90 degrees
        let d = s.direction().into_inner();
        let nn = s.normal().into_inner();
        if d.x.is_nan() {
            // exact doubling back at a vertex: the normalised sum is undefined (skipped and counted in check_station)
            continue;
        }
        ensure!((nn - engeom::Vector2::new(d.y, -d.x)).norm() <= 1e-12, "C01/station/normal", "normal {:?} is not direction {:?} rotated -90 degrees", nn, d);
        ensure!(s.surface_point().point == s.point() && (s.surface_point().normal.into_inner() - nn).norm() <= 1e-15, "C01/station/surface_point", "surface_point() disagrees with point()/normal()");
        ensure!((s.direction_point().normal.into_inner() - d).norm() <= 1e-15, "C01/station/direction_point", "direction_point() disagrees with direction()");
        if lens.contains(&l) {
            vertex_hit = true;
        }
        if matches!(p, Probe::UlpBelow(_) | Probe::UlpAbove(_)) {
            ulp_nb = true;
            cx.label("ulp_neighbour");
        }
    }
    // (f) vertex stations by index / iteration / front / back
    let it: Vec<_> = c.iter().collect();
    ensure!(it.len() == n, "C01/iter/count", "iter() yields {} stations for {n} vertices", it.len());
    for (i, s) in it.iter().enumerate() {
        let a = c.at_length(lens[i]);
        let Some(a) = a else { return Verdict::fail("C01/at_length/none_inside", format!("at_length(lengths[{i}]) returned None")) };
        ensure!(a.point() == s.point() && a.index() == s.index() && a.fraction() == s.fraction() && ((a.direction().into_inner() - s.direction().into_inner()).norm() <= 1e-15 || a.direction().x.is_nan()), "C01/iter/agrees_with_at_length", "iter() item {i} = ({}, {:e}) but at_length(lengths[{i}]) = ({}, {:e})", s.index(), s.fraction(), a.index(), a.fraction());
        ensure!(s.point() == v[i], "C01/iter/point", "iter() item {i} is not vertex {i}");
    }
    let f = c.at_front();
    let k = c.at_back();
    ensure!(f.point() == v[0] && f.index() == 0 && f.fraction() == 0.0, "C01/at_front", "at_front() = ({}, {:e})", f.index(), f.fraction());
    ensure!(k.point() == v[n - 1] && k.index() == n - 2 && k.fraction() == 1.0, "C01/at_back", "at_back() = ({}, {:e})", k.index(), k.fraction());
    if nontrivial_curve(&v) && vertex_hit && ulp_nb {
        cx.nontrivial();
    }
    cx.pass()
}

fn check3(spec: &Curve3Spec, probes: &[Probe]) -> Verdict {
    let mut cx = Ctx::new();
    cx.label("3d");
    let b = match spec.build() {
        Ok(Some(b)) => b,
        Ok(None) => return Verdict::Discard("degenerate polyline"),
        Err(e) => return Verdict::fail("C01/from_points/rejected_valid", e),
    };
    let c = &b.curve;
    let v: Vec<Pt<3>> = c.points().to_vec();
    if v != b.expected {
        cx.label("construction_differs_from_expected");
        ensure!(v.len() >= 2, "C01/from_points3/too_few", "fewer than two vertices stored");
    }
    let own_model = Poly::new(v.clone());
    ensure!(c.count() == v.len() && c.vertices() == &v[..] && c.clone_points() == v, "C01/from_points3/count", "count()/vertices()/clone_points() disagree");
    cx.label("open");
    let lens: Vec<f64> = c.lengths().to_vec();
    if let Err(f) = lengths_ok(&lens, c.length(), &v) {
        return Verdict::Fail(f);
    }
    let n = v.len();
    let total = c.length();
    let conv = |s: &engeom::CurveStation3| St::<3> { point: s.point(), dir: s.direction().into_inner(), index: s.index(), fraction: s.fraction(), length_along: s.length_along() };
    let mut vertex_hit = false;
    let mut ulp_nb = false;
    // a fraction outside [0, 1], by however little, is a length outside [0, L]: no station
    for f in [next_up(1.0), 1.0 + 4.0 * f64::EPSILON, -1e-17, -f64::EPSILON, 1.5, -0.5] {
        if f * total > total || f * total < 0.0 {
            ensure!(c.at_fraction(f).is_none(), "C01/at_fraction3/outside_not_none", "at_fraction({f:e}) returned a station; {f:e} * L is outside [0, L]");
        }
    }
    for p in probes {
        let (l, is_frac, expect_none) = resolve(p, &lens);
        if is_frac {
            let Probe::Fraction(f) = p else { unreachable!() };
            let lp = f * total;
            match (c.at_fraction(*f), c.at_length(lp)) {
                (Some(a), Some(d)) => {
                    ensure!(a.point() == d.point() && a.index() == d.index() && a.fraction() == d.fraction(), "C01/at_fraction3/agrees_with_at_length", "at_fraction({f:e}) != at_length({lp:e})");
                    if let Err(fl) = check_station(&mut cx, "at_fraction3", lp, &conv(&a), &v, &lens, &own_model, false, false) {
                        return Verdict::Fail(fl);
                    }
                }
                _ => return Verdict::fail("C01/at_fraction3/none_inside", format!("at_fraction({f:e}) returned None")),
            }
            continue;
        }
        let got = c.at_length(l);
        if expect_none || l < 0.0 || l > total {
            ensure!(got.is_none(), "C01/at_length3/outside_not_none", "at_length({l:e}) outside [0, {total:e}] returned a station");
            cx.label("outside_none");
            continue;
        }
        let Some(s) = got else {
            return Verdict::fail("C01/at_length3/none_inside", format!("at_length({l:e}) inside [0, {total:e}] returned None"));
        };
        if let Err(fl) = check_station(&mut cx, "at_length3", l, &conv(&s), &v, &lens, &own_model, false, false) {
            return Verdict::Fail(fl);
        }
        if lens.contains(&l) {
            vertex_hit = true;
        }
        if matches!(p, Probe::UlpBelow(_) | Probe::UlpAbove(_)) {
            ulp_nb = true;
            cx.label("ulp_neighbour");
        }
    }
    let it: Vec<_> = c.iter().collect();
    ensure!(it.len() == n, "C01/iter3/count", "iter() yields {} stations for {n} vertices", it.len());
    for (i, s) in it.iter().enumerate() {
        let Some(a) = c.at_length(lens[i]) else { return Verdict::fail("C01/at_length3/none_inside", format!("at_length(lengths[{i}]) returned None")) };
        ensure!(a.point() == s.point() && a.index() == s.index() && a.fraction() == s.fraction(), "C01/iter3/agrees_with_at_length", "iter() item {i} disagrees with at_length(lengths[{i}])");
        ensure!(s.point() == v[i], "C01/iter3/point", "iter() item {i} is not vertex {i}");
    }
    let f = c.at_front();
    let k = c.at_back();
    ensure!(f.point() == v[0] && f.index() == 0 && f.fraction() == 0.0, "C01/at_front3", "at_front() = ({}, {:e})", f.index(), f.fraction());
    ensure!(k.point() == v[n - 1] && k.index() == n - 2 && k.fraction() == 1.0, "C01/at_back3", "at_back() = ({}, {:e})", k.index(), k.fraction());
    ensure!(f.is_front() && k.is_back(), "C01/is_front_back3", "is_front/is_back wrong at the ends");
    if nontrivial_curve(&v) && vertex_hit && ulp_nb {
        cx.nontrivial();
    }
    cx.pass()
}
