pub mod c17;
pub mod c18;
