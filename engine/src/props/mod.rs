pub mod c18;
