//! C10 — Airfoil analysis yields inscribed circles and recovers a known medial axis

use crate::ensure;
use crate::fw::*;
use crate::gen::*;
use crate::oracle::Poly;
use engeom::airfoil::{AfGage, AirfoilGeometry, ConstRadiusEdge, ConvergeTangentEdge, DirectionFwd, EdgeGeometry, FaceOrient, FitRadiusEdge, IntersectEdge, OpenEdge, OpenIntersectGap, RansacRadiusEdge, TMaxFwd, TraceToMaxCurvature};
use engeom::metrology::Measurement;
use engeom::{Curve2, Point2, Vector2};
use proptest::prelude::*;
use serde::{Deserialize, Serialize};
use std::time::Duration;

pub struct C10;

#[derive(Clone, Copy, Debug, Serialize, Deserialize, PartialEq)]
pub enum EdgeMethod {
    Intersect,
    TraceToMaxCurvature,
    FitRadius,
    ConstRadius,
    ConvergeTangent,
    RansacRadius,
    Open,
    OpenIntersectGap,
}

#[derive(Clone, Debug, Serialize, Deserialize)]
pub struct Section {
    /// chord length
    pub chord: f64,
    /// camber height as a fraction of the chord (parabolic camber)
    pub camber: f64,
    /// edge radii and maximum thickness radius as fractions of the chord
    pub r_le: f64,
    pub r_te: f64,
    pub t_max: f64,
    /// warp coefficient moving the position of maximum thickness (0.2 .. 0.95 -> 45 % .. 30 % chord)
    pub p: f64,
    /// vertices per side
    pub n_side: usize,
    /// uneven density exponent (1 = uniform)
    pub density: f64,
    pub pose: Iso2D,
    pub reverse: bool,
    pub start: u16,
    /// which end is cut away for open sections (None = closed): fraction of the chord removed and LE/TE
    pub open: Option<(f64, bool)>,
}

#[derive(Clone, Debug, Serialize, Deserialize)]
pub struct Config {
    pub orient_by_direction: bool,
    pub le: EdgeMethod,
    pub te: EdgeMethod,
    /// None = detect; Some(sign): upper direction given as the true upper normal times sign (+1) or reversed (-1)
    pub upper_dir: Option<bool>,
    /// for orientation by direction: the given direction is the true forward direction turned by this angle (radians,
    /// |angle| well below a quarter turn, so it still points towards the leading edge)
    #[serde(default)]
    pub dir_off: f64,
}

#[derive(Clone, Debug, Serialize, Deserialize)]
pub struct Case {
    pub section: Section,
    pub config: Config,
    /// second pose / order for the equivariance clause
    pub t: Iso2D,
}

fn closed_method() -> BoxedStrategy<EdgeMethod> {
    prop::sample::select(vec![EdgeMethod::Intersect, EdgeMethod::Intersect, EdgeMethod::TraceToMaxCurvature, EdgeMethod::FitRadius, EdgeMethod::ConstRadius, EdgeMethod::ConvergeTangent, EdgeMethod::RansacRadius]).boxed()
}

impl Property for C10 {
    type Case = Case;
    const ID: &'static str = "C10";
    fn rule() -> &'static str {
        "a case is a section generated as the envelope of circles of radius r(u) centred on a parabolic camber curve c(u) (chord 0.5..100, camber height 0-12 % chord, edge radii 0.5-3 %, maximum half-thickness 3-12 % at 25-45 % chord, 150-1200 vertices with uniform or uneven density, any pose, both windings, any start vertex; open sections have 2-5 % of the chord cut away at one end), an analysis configuration (orientation by maximum thickness or by direction; every edge-location method; upper side detected or given) and a second pose. By construction the medial axis is c, extended to the edge points, and the inscribed radius follows r. Oracle: clauses (1)-(6) of DESIGN.md C10: inscribed circles, monotone stations from leading to trailing edge, edge points on the section, upper/lower partition, recovery of camber / radius law / maximum thickness, equivariance under rigid motion / reversal / start rotation, termination under a 60 s deadline. Non-trivial: camber height >= 2 % and (chord outside [0.8, 1.25] or a non-identity pose). Distinct = distinct canonical JSON."
    }
    fn cases(t: Tier) -> u32 {
        t.pick(12_000, 200_000)
    }
    fn isolated() -> Option<Duration> {
        Some(Duration::from_secs(60))
    }
    fn expected_labels() -> Vec<&'static str> {
        vec!["closed", "open", "ok", "err", "le_Intersect", "le_TraceToMaxCurvature", "le_FitRadius", "le_ConstRadius", "le_ConvergeTangent", "le_RansacRadius", "orient_tmax", "orient_direction", "face_detect", "face_given", "chord<1", "chord>1", "equivariance", "strut", "caliper_chord"]
    }
    fn strategy(_t: Tier) -> BoxedStrategy<Case> {
        let section = (logu(-0.3, 2.0), prop_oneof![3 => unif(0.0, 0.12), 1 => unif(0.12, 0.45)], unif(0.005, 0.03), unif(0.005, 0.03), unif(0.03, 0.12), unif(0.2, 0.95), 75usize..600, prop_oneof![Just(1.0), unif(1.0, 2.0)], iso2(100.0), any::<bool>(), any::<u16>(), prop_oneof![4 => Just(None), 1 => (unif(0.02, 0.05), any::<bool>()).prop_map(Some)])
            .prop_map(|(chord, camber, r_le, r_te, t_max, p, n_side, density, pose, reverse, start, open)| Section { chord, camber, r_le, r_te, t_max, p, n_side, density, pose, reverse, start, open });
        // struts: straight camber, constant radius, full-round ends; the distance between the end-circle centres is a whole
        // number k of half radii, so the camber walk (steps of a quarter radius from the middle) ends exactly on them
        let strut_hi: f64 = std::env::var("VERIF_C10_STRUT_HI").ok().and_then(|v| v.parse().ok()).unwrap_or(2.0);
        let strut = (logu(-0.3, strut_hi), 8usize..120, 75usize..400, iso2(100.0), any::<bool>(), any::<u16>())
            .prop_map(|(chord, k, n_side, pose, reverse, start)| Section { chord, camber: 0.0, r_le: 2.0 / k as f64, r_te: 2.0 / k as f64, t_max: 0.0, p: 0.5, n_side, density: 1.0, pose, reverse, start, open: None });
        let section = if std::env::var("VERIF_C10_STRUT_ONLY").is_ok() { strut.boxed() } else { prop_oneof![9 => section, 1 => strut].boxed() };
        (section, any::<bool>(), closed_method(), closed_method(), prop::option::of(any::<bool>()), any::<bool>(), iso2(50.0), prop_oneof![2 => Just(0.0), 1 => unif(-1.3, 1.3)])
            .prop_map(|(section, orient_by_direction, le, te, upper_dir, gap, t, dir_off)| {
                let (mut le, mut te) = (le, te);
                if let Some((_, at_le)) = section.open {
                    let m = if gap { EdgeMethod::OpenIntersectGap } else { EdgeMethod::Open };
                    if at_le {
                        le = m
                    } else {
                        te = m
                    }
                }
                // a strut has no maximum thickness and no convex side: orientation by direction, upper side given
                let strut = section.t_max == 0.0 && section.camber == 0.0;
                let (orient_by_direction, upper_dir) = if strut { (true, Some(upper_dir.unwrap_or(true))) } else { (orient_by_direction, upper_dir) };
                // the methods that look for growing curvature or converging tangents have nothing to find on a strut: the
                // applicable ones are the constant-radius search and the straight projection
                let applicable = |m: EdgeMethod| if strut && !matches!(m, EdgeMethod::ConstRadius | EdgeMethod::Intersect) { EdgeMethod::ConstRadius } else { m };
                let (le, te) = (applicable(le), applicable(te));
                // orientation by maximum thickness cannot be relied on when the leading end is cut away
                Case { section, config: Config { orient_by_direction, le, te, upper_dir, dir_off }, t }
            })
            .boxed()
    }
    fn check(case: &Case) -> Verdict {
        let s = &case.section;
        match check(case) {
            // one recorded class: the edge point of a large strut is projected along two nearly coincident centres
            Verdict::Fail(f) if s.t_max == 0.0 && s.camber == 0.0 && s.chord > 10.0 && (f.sig == "C10/equivariance/edges" || f.sig.starts_with("C10/edges/leading_edge_misplaced") || f.sig.starts_with("C10/edges/trailing_edge_misplaced")) => {
                Verdict::Fail(Failure { sig: "C10/strut_chord_above_10/edge_point_unstable".to_string(), msg: format!("[{}] {}", f.sig, f.msg) })
            }
            v => v,
        }
    }
}

// ---------------------------------------------------------------------------------------------
// generator of the section and its ground truth

pub struct Truth {
    /// dense samples of the camber curve, in the section's final frame
    pub camber: Poly<2>,
    /// radius at those samples
    pub radius: Vec<f64>,
    pub le_point: Point2,
    pub te_point: Point2,
    /// the true upper direction at mid camber (left normal of the camber direction from LE to TE)
    pub upper: Vector2,
    /// direction from trailing to leading edge
    pub forward: Vector2,
    pub tmax_radius: f64,
    pub tmax_center: Point2,
    pub chord: f64,
    pub points: Vec<Point2>,
    pub closed: bool,
}

fn camber_pt(s: &Section, u: f64) -> (Point2, Vector2) {
    let c = s.chord;
    let h = s.camber;
    let p = Point2::new(c * u, 4.0 * h * c * u * (1.0 - u));
    let d = Vector2::new(c, 4.0 * h * c * (1.0 - 2.0 * u));
    (p, d)
}

fn radius(s: &Section, u: f64) -> (f64, f64) {
    let c = s.chord;
    let sm = 3.0 * u * u - 2.0 * u * u * u;
    let dsm = 6.0 * u - 6.0 * u * u;
    // smooth monotone warp w(u) = u + a u (1-u), a in [0.2, 0.95]: moves the maximum to 30-45 % chord while
    // keeping every derivative of r finite at both ends
    let a = s.p;
    let w = u + a * u * (1.0 - u);
    let dw = 1.0 + a * (1.0 - 2.0 * u);
    let arg = std::f64::consts::PI * w;
    let r = c * (s.r_le + (s.r_te - s.r_le) * sm + s.t_max * arg.sin().powi(2));
    let dr = c * ((s.r_te - s.r_le) * dsm + s.t_max * 2.0 * arg.sin() * arg.cos() * std::f64::consts::PI * dw);
    (r, dr)
}

pub fn build(s: &Section) -> Option<Truth> {
    let n = s.n_side.max(40);
    let us: Vec<f64> = (0..=n).map(|i| { let x = i as f64 / n as f64; if s.density == 1.0 { x } else { 0.5 * (1.0 - (1.0 - 2.0 * x).abs().powf(s.density) * (1.0 - 2.0 * x).signum()) } }).collect();
    let mut upper = vec![];
    let mut lower = vec![];
    for u in &us {
        let (c, d) = camber_pt(s, *u);
        let (r, dr_du) = radius(s, *u);
        let ds = d.norm();
        let t = d / ds;
        let nrm = Vector2::new(-t.y, t.x);
        let rp = dr_du / ds;
        if rp.abs() >= 0.5 {
            return None;
        }
        // curvature of the parabola
        let kappa = (8.0 * s.camber * s.chord * s.chord).abs() / ds.powi(3);
        if r * kappa >= 0.6 {
            return None;
        }
        let w = (1.0 - rp * rp).sqrt();
        upper.push(c + (t * (-rp) + nrm * w) * r);
        lower.push(c + (t * (-rp) - nrm * w) * r);
    }
    // end caps: arcs of the end circles between the contact points
    let cap = |centre: Point2, from: Point2, to: Point2, r: f64, through: Vector2| -> Vec<Point2> {
        // arc from `from` to `to` passing through centre + through*r, excluding both ends
        let a0 = (from - centre).y.atan2((from - centre).x);
        let a1 = (to - centre).y.atan2((to - centre).x);
        let am = through.y.atan2(through.x);
        let ccw = |a: f64, b: f64| (b - a).rem_euclid(std::f64::consts::TAU);
        let (sweep, dir) = if ccw(a0, am) < ccw(a0, a1) { (ccw(a0, a1), 1.0) } else { (ccw(a1, a0), -1.0) };
        let k = ((sweep * r) / (s.chord / n as f64)).ceil().max(24.0) as usize;
        (1..k).map(|i| { let a = a0 + dir * sweep * i as f64 / k as f64; centre + Vector2::new(a.cos(), a.sin()) * r }).collect()
    };
    let (c0, d0) = camber_pt(s, 0.0);
    let (c1, d1) = camber_pt(s, 1.0);
    let (r0, _) = radius(s, 0.0);
    let (r1, _) = radius(s, 1.0);
    let (t0, t1) = (d0.normalize(), d1.normalize());
    // order: upper LE->TE, TE cap, lower TE->LE, LE cap  (clockwise for an upright section)
    let mut pts: Vec<Point2> = vec![];
    let mut open_closed = true;
    match s.open {
        None => {
            pts.extend(upper.iter());
            pts.extend(cap(c1, *upper.last().unwrap(), *lower.last().unwrap(), r1, t1));
            pts.extend(lower.iter().rev());
            pts.extend(cap(c0, lower[0], upper[0], r0, -t0));
        }
        Some((frac, at_le)) => {
            open_closed = false;
            // keep only the part of each side beyond the cut; the polyline then runs from one cut end to the other
            let cut_u = if at_le { frac } else { 1.0 - frac };
            if at_le {
                // start at the upper cut, go to TE, around, back along lower to the cut
                let keep: Vec<usize> = (0..us.len()).filter(|i| us[*i] >= cut_u).collect();
                pts.extend(keep.iter().map(|i| upper[*i]));
                pts.extend(cap(c1, *upper.last().unwrap(), *lower.last().unwrap(), r1, t1));
                pts.extend(keep.iter().rev().map(|i| lower[*i]));
            } else {
                let keep: Vec<usize> = (0..us.len()).filter(|i| us[*i] <= cut_u).collect();
                pts.extend(keep.iter().rev().map(|i| upper[*i]));
                pts.extend(cap(c0, upper[0], lower[0], r0, -t0));
                pts.extend(keep.iter().map(|i| lower[*i]));
            }
        }
    }
    // dense truth
    let m = 2000;
    let mut cam = vec![];
    let mut rad = vec![];
    let mut best = (0.0, c0);
    for i in 0..=m {
        let u = i as f64 / m as f64;
        let (c, _) = camber_pt(s, u);
        let (r, _) = radius(s, u);
        if r > best.0 {
            best = (r, c);
        }
        cam.push(c);
        rad.push(r);
    }
    let iso = s.pose.to_iso();
    let mid_dir = camber_pt(s, 0.5).1.normalize();
    let mut points: Vec<Point2> = pts.iter().map(|p| iso * p).collect();
    if s.reverse {
        points.reverse();
    }
    if open_closed {
        let k = idx(s.start, points.len());
        points.rotate_left(k);
    }
    Some(Truth {
        camber: Poly::new(cam.iter().map(|p| iso * p).collect()),
        radius: rad,
        le_point: iso * (c0 - t0 * r0),
        te_point: iso * (c1 + t1 * r1),
        upper: iso.rotation * Vector2::new(-mid_dir.y, mid_dir.x),
        forward: iso.rotation * Vector2::new(-1.0, 0.0),
        tmax_radius: best.0,
        tmax_center: iso * best.1,
        chord: s.chord,
        points,
        closed: open_closed,
    })
}

fn locator(m: EdgeMethod, tau: f64) -> Box<dyn engeom::airfoil::EdgeLocate> {
    match m {
        EdgeMethod::Intersect => IntersectEdge::make(),
        EdgeMethod::TraceToMaxCurvature => TraceToMaxCurvature::make(None),
        EdgeMethod::FitRadius => FitRadiusEdge::make(None),
        EdgeMethod::ConstRadius => ConstRadiusEdge::make(None),
        EdgeMethod::ConvergeTangent => ConvergeTangentEdge::make(None),
        EdgeMethod::RansacRadius => RansacRadiusEdge::make(tau, 500),
        EdgeMethod::Open => OpenEdge::make(),
        EdgeMethod::OpenIntersectGap => OpenIntersectGap::make(50),
    }
}

fn method_label(prefix: &str, m: EdgeMethod) -> &'static str {
    let s = format!("{prefix}_{:?}", m);
    Box::leak(s.into_boxed_str())
}

fn analyze(curve: &Curve2, tau: f64, cfg: &Config, truth: &Truth) -> Result<Result<AirfoilGeometry, String>, String> {
    let orient: Box<dyn engeom::airfoil::CamberOrient> = if cfg.orient_by_direction { let (sn, cs) = cfg.dir_off.sin_cos(); DirectionFwd::make(Vector2::new(cs * truth.forward.x - sn * truth.forward.y, sn * truth.forward.x + cs * truth.forward.y)) } else { TMaxFwd::make() };
    let face = match cfg.upper_dir {
        None => FaceOrient::Detect,
        Some(_) => FaceOrient::UpperDir(truth.upper),
    };
    let le = locator(cfg.le, tau);
    let te = locator(cfg.te, tau);
    guarded(move || AirfoilGeometry::try_analyze(curve, tau, orient, le, te, face).map_err(|e| e.to_string()))
}

fn check(case: &Case) -> Verdict {
    let mut cx = Ctx::new();
    let s = &case.section;
    let Some(truth) = build(s) else { return Verdict::Discard("envelope not regular") };
    if !case.config.orient_by_direction {
        // orientation by maximum thickness is only defined when the thickest station is clearly in the forward half
        let (_, _, ei, et) = truth.camber.closest(&truth.tmax_center);
        let l = truth.camber.cum[ei] + et * (truth.camber.cum[ei + 1] - truth.camber.cum[ei]);
        let cut = match s.open {
            Some((f, true)) => f,
            _ => 0.0,
        };
        if l / truth.camber.len() > 0.42 - cut {
            return Verdict::Discard("maximum thickness not clearly in the forward half");
        }
    }
    let tol = 1e-6 * s.chord;
    let curve = match Curve2::from_points(&truth.points, tol, truth.closed) {
        Ok(c) => c,
        Err(e) => return Verdict::fail("C10/section/rejected", format!("{e}")),
    };
    let tau = 1e-4 * s.chord;
    cx.label_if(s.t_max == 0.0 && s.camber == 0.0, "strut");
    cx.label(if truth.closed { "closed" } else { "open" });
    cx.label(if s.chord < 1.0 { "chord<1" } else { "chord>1" });
    cx.label(method_label("le", case.config.le));
    cx.label(if case.config.orient_by_direction { "orient_direction" } else { "orient_tmax" });
    cx.label_if(case.config.orient_by_direction && case.config.dir_off.abs() > 0.8, "orient_direction_oblique");
    cx.label(if case.config.upper_dir.is_some() { "face_given" } else { "face_detect" });
    let class = format!("{:?}+{:?}", case.config.le, case.config.te);
    let geom = match analyze(&curve, tau, &case.config, &truth) {
        Err(m) => {
            let scale_class = if s.chord < 1.0 { "chord_below_1" } else { "chord_above_1" };
            return Verdict::fail(format!("C10/analysis/panic/{}/{scale_class}", if case.config.upper_dir.is_none() { "face_detect" } else { "face_given" }), format!("try_analyze panicked ({class}, chord {:.4}, {} vertices, closed {}): {m}", s.chord, truth.points.len(), truth.closed));
        }
        Ok(Err(_e)) => {
            if std::env::var("VERIF_DEBUG").is_ok() && !matches!(case.config.te, EdgeMethod::RansacRadius) {
                eprintln!("C10 err: {} | le {:?} te {:?} camber {:.3} chord {:.3} closed {} orient_dir {} n_side {} r_le {:.4} r_te {:.4} tmax {:.3} dir_off {:.2}", _e, case.config.le, case.config.te, s.camber, s.chord, truth.closed, case.config.orient_by_direction, s.n_side, s.r_le, s.r_te, s.t_max, case.config.dir_off);
            }
            // The section is, by construction, one every edge-location method applies to.  Two methods do give up on some of
            // these sections in the unchanged library (RANSAC as trailing-edge locator regularly, the constant-radius
            // search on strongly cambered sections occasionally); with any other combination an error means a section
            // that can be analysed was rejected.
            let fragile = |m: EdgeMethod| matches!(m, EdgeMethod::ConstRadius | EdgeMethod::RansacRadius);
            if !fragile(case.config.le) && !fragile(case.config.te) {
                return Verdict::fail(format!("C10/analysis/rejected_applicable_section/{:?}+{:?}", case.config.le, case.config.te), format!("try_analyze returned an error for a generated section (chord {:.4}, camber {:.3}, {} vertices, closed {}): {_e}", s.chord, s.camber, truth.points.len(), truth.closed));
            }
            cx.label("err");
            cx.label(method_label("err_le", case.config.le));
            cx.label(method_label("err_te", case.config.te));
            cx.label_if(s.camber > 0.12, "err_strong_camber");
            cx.label_if(!truth.closed, "err_open");
            return cx.pass();
        }
        Ok(Ok(g)) => g,
    };
    cx.label("ok");
    if std::env::var("VERIF_DEBUG").is_ok() {
        let n = geom.stations.len();
        eprintln!("stations {n}; true c0 {:?} r0 {:e}; c1 {:?} r1 {:e}; le {:?} te {:?}", truth.camber.v[0], truth.radius[0], truth.camber.v[truth.camber.n() - 1], truth.radius[truth.radius.len() - 1], truth.le_point, truth.te_point);
        for i in (0..4.min(n)).chain(n.saturating_sub(4)..n) {
            let st = &geom.stations[i];
            eprintln!("  station {i}: centre {:?} r {:e} dist_to_true_camber {:e}", st.center(), st.radius(), truth.camber.dist_to(&st.center()));
        }
        eprintln!("  reported le {:?} te {:?}", geom.leading_edge.as_ref().map(|e| e.point), geom.trailing_edge.as_ref().map(|e| e.point));
    }
    let section = Poly::new({ let mut v = curve.points().to_vec(); if truth.closed && v[0] != v[v.len() - 1] { v.push(v[0]); } v });
    let n_st = geom.stations.len();
    ensure!(n_st >= 2, "C10/stations/too_few", "{n_st} stations");
    // discretisation: sagitta of the coarsest edge against the local radius of curvature (>= edge radius)
    let max_edge = section.v.windows(2).map(|w| (w[0] - w[1]).norm()).fold(0.0, f64::max);
    let rmin = s.chord * s.r_le.min(s.r_te);
    let disc = max_edge * max_edge / (8.0 * rmin) + max_edge * 0.02;
    // (1) inscribed circles
    let manufactured = |m: EdgeMethod| matches!(m, EdgeMethod::ConstRadius | EdgeMethod::RansacRadius);
    for (i, st) in geom.stations.iter().enumerate() {
        let end = (i == 0 && manufactured(case.config.le)) || (i == n_st - 1 && manufactured(case.config.te));
        // the station appended by the constant-radius / RANSAC methods is forged from a fitted arc, not searched
        let t1 = if end { (10.0 * tau + disc).max(0.15 * st.radius()) } else { tau + 1e-9 * s.chord };
        let d = section.dist_to(&st.center());
        ensure!((d - st.radius()).abs() <= t1, format!("C10/stations/not_inscribed/{}", if end { "manufactured" } else { "regular" }), "station {i} of {n_st}: distance from its centre to the section is {d:e} but its radius is {:e} (tolerance {t1:e}; {class}, chord {:.4})", st.radius(), s.chord);
        for (name, c) in [("pos", st.contact_pos), ("neg", st.contact_neg)] {
            let dc = section.dist_to(&c);
            ensure!(dc <= t1 + 1e-9 * s.chord, "C10/stations/contact_off_section", "station {i}: contact_{name} is {dc:e} from the section (tolerance {t1:e})");
            let dr = ((c - st.center()).norm() - st.radius()).abs();
            ensure!(dr <= 2.0 * t1, "C10/stations/contact_not_on_circle", "station {i}: contact_{name} is {dr:e} off the circle (tolerance {:e})", 2.0 * t1);
        }
    }
    // (2) stations advance monotonically along the returned camber from its front (leading edge) to its back
    let cam = &geom.camber;
    let mut prev = -1.0;
    for (i, st) in geom.stations.iter().enumerate() {
        let l = cam.at_closest_to_point(&st.center()).length_along();
        ensure!(l > prev - tau, "C10/stations/not_monotone", "station {i} is at camber length {l:e}, the previous one at {prev:e}");
        prev = l;
    }
    let (Some(le), Some(te)) = (&geom.leading_edge, &geom.trailing_edge) else {
        cx.label("edge_missing");
        return cx.pass();
    };
    ensure!((cam.at_front().point() - le.point).norm() <= 1e-9 * s.chord + curve.tol(), "C10/camber/front_is_not_leading_edge", "camber front {:?} vs leading edge point {:?}", cam.at_front().point(), le.point);
    ensure!((cam.at_back().point() - te.point).norm() <= 1e-9 * s.chord + curve.tol(), "C10/camber/back_is_not_trailing_edge", "camber back {:?} vs trailing edge point {:?}", cam.at_back().point(), te.point);
    // the leading edge is the r_le end (true leading edge point) and the trailing edge the other, for both orienters
    let lead_err = (le.point - truth.le_point).norm();
    let trail_err = (te.point - truth.te_point).norm();
    let edge_tol = 0.06 * s.chord; // generous: methods place the edge point differently along the nose arc; swapped ends are a full chord apart
    let open_le = matches!(le.geometry, EdgeGeometry::Open);
    let open_te = matches!(te.geometry, EdgeGeometry::Open);
    // an open edge is reported at the centre of the end station, which sits near the cut: allow the distance from the true
    // edge point to the camber point at the cut plus two local radii (the statement fixes no position for open edges; what
    // must not happen is the two ends being exchanged, which are a chord apart)
    let open_allow = |at_le: bool| -> f64 {
        let Some((frac, _)) = s.open else { return 0.14 * s.chord };
        let m = truth.camber.v.len() - 1;
        let i = ((if at_le { frac } else { 1.0 - frac }) * m as f64).round() as usize;
        let edge = if at_le { truth.le_point } else { truth.te_point };
        ((truth.camber.v[i.min(m)] - edge).norm() + 2.0 * truth.radius[i.min(m)]).max(0.14 * s.chord)
    };
    if open_le {
        ensure!(lead_err < (le.point - truth.te_point).norm(), "C10/edges/open_leading_edge_at_trailing_end", "open leading edge {:?} is nearer to the true trailing edge {:?} than to the true leading edge {:?}", le.point, truth.te_point, truth.le_point);
    }
    if open_te {
        ensure!(trail_err < (te.point - truth.le_point).norm(), "C10/edges/open_trailing_edge_at_leading_end", "open trailing edge {:?} is nearer to the true leading edge {:?} than to the true trailing edge {:?}", te.point, truth.le_point, truth.te_point);
    }
    ensure!(lead_err <= edge_tol + if open_le { open_allow(true) } else { 0.0 }, format!("C10/edges/leading_edge_misplaced/{:?}", case.config.le), "leading edge reported at {:?}, {lead_err:e} from the true leading edge {:?} (trailing edge is at {:?}; chord {:.4}; {class})", le.point, truth.le_point, truth.te_point, s.chord);
    ensure!(trail_err <= edge_tol + if open_te { open_allow(false) } else { 0.0 }, format!("C10/edges/trailing_edge_misplaced/{:?}", case.config.te), "trailing edge reported at {:?}, {trail_err:e} from the true trailing edge {:?} (chord {:.4}; {class})", te.point, truth.te_point, s.chord);
    for (name, e, open) in [("leading", le, open_le), ("trailing", te, open_te)] {
        if !open {
            let d = section.dist_to(&e.point);
            ensure!(d <= tau + disc, "C10/edges/edge_point_off_section", "{name} edge point is {d:e} from the section (tolerance {:e})", tau + disc);
        }
    }
    // (4) truth: station centres on the extended true camber, radii follow the law
    let ext = {
        let mut v = vec![truth.le_point];
        v.extend(truth.camber.v.iter().cloned());
        v.push(truth.te_point);
        Poly::new(v)
    };
    let t4 = 20.0 * tau + disc + 5e-3 * s.chord;
    for (i, st) in geom.stations.iter().enumerate() {
        let d = ext.dist_to(&st.center());
        ensure!(d <= t4, "C10/truth/centre_off_camber", "station {i} of {n_st}: centre is {d:e} from the true camber curve (tolerance {t4:e}, chord {:.4}, {class})", s.chord);
        // radius law where the centre projects onto the camber proper
        let (_, _, ei, et) = truth.camber.closest(&st.center());
        if ei > 0 && ei + 2 < truth.camber.n() {
            let r = truth.radius[ei] + et * (truth.radius[ei + 1] - truth.radius[ei]);
            ensure!((st.radius() - r).abs() <= t4, "C10/truth/radius_off_law", "station {i}: radius {:e}, the law gives {r:e} (tolerance {t4:e})", st.radius());
        }
    }
    let tm = geom.find_tmax();
    ensure!((tm.radius() - truth.tmax_radius).abs() <= t4, "C10/truth/tmax_radius", "maximum inscribed radius {:e}, true {:e}", tm.radius(), truth.tmax_radius);
    // (3) upper / lower partition
    if let (Some(up), Some(lo)) = (&geom.upper, &geom.lower) {
        if truth.closed {
            let per = curve.length();
            ensure!((up.length() + lo.length() - per).abs() <= 10.0 * curve.tol() + 1e-6 * per, "C10/faces/partition_length", "upper {:e} + lower {:e} != perimeter {per:e}", up.length(), lo.length());
        }
        // upper is on the side of the requested / true upper direction at mid camber
        let mid = cam.at_fraction(0.5).unwrap().point();
        let du = Poly::new(up.points().to_vec());
        let dl = Poly::new(lo.points().to_vec());
        let probe = mid + truth.upper * (0.5 * tm.radius());
        // Detection takes the side of the camber point farthest from the line between the two located edge points. An
        // edge point located by curvature / radius fitting on a round edge can sit up to one edge radius off the camber
        // axis (the curvature of a circular cap is constant), which tilts that line: the detected side is only
        // determined by the section when the camber height clearly exceeds those offsets.
        let off = |m: EdgeMethod, r: f64| if matches!(m, EdgeMethod::Intersect) { 0.0 } else { r };
        let assert_side = case.config.upper_dir.is_some() || s.camber >= 0.02 + 1.5 * (off(case.config.le, s.r_le) + off(case.config.te, s.r_te));
        ensure!(!assert_side || du.dist_to(&probe) < dl.dist_to(&probe), if case.config.upper_dir.is_some() { "C10/faces/upper_not_on_requested_side" } else { "C10/faces/upper_not_on_convex_side" }, "the curve reported as upper is farther from a point offset toward the upper side than the lower one");
        // thickness through the maximum-thickness station
        match geom.get_thickness_max() {
            Ok(d) => ensure!((d.value().abs() - 2.0 * truth.tmax_radius).abs() <= 2.0 * t4, "C10/truth/thickness_max", "maximum thickness {:e}, true {:e}", d.value().abs(), 2.0 * truth.tmax_radius),
            Err(e) => return Verdict::fail("C10/thickness_max/error", e.to_string()),
        }
        if truth.closed {
            // gauge thickness on the camber at 40 % of its length: equals twice the local radius within discretisation
            let l = 0.4 * cam.length();
            if let Ok(d) = geom.get_thickness(AfGage::OnCamber(l)) {
                let c = cam.at_length(l).unwrap().point();
                let (_, _, ei, et) = truth.camber.closest(&c);
                let r = truth.radius[ei] + et * (truth.radius[(ei + 1).min(truth.radius.len() - 1)] - truth.radius[ei]);
                ensure!((d.value().abs() - 2.0 * r).abs() <= 0.03 * r + 2.0 * t4, "C10/truth/gauge_thickness", "thickness on the camber at 40 % is {:e}, twice the local radius is {:e}", d.value().abs(), 2.0 * r);
            }
        }
        // radius gauges: thickness where a circle of the given radius about the leading (r > 0) or trailing (r < 0) edge
        // point meets the two surfaces: one end on each surface, both at that radius from that edge point
        if truth.closed {
            if let (Some(le), Some(te)) = (&geom.leading_edge, &geom.trailing_edge) {
                for frac in [0.2, -0.2, 0.35, -0.3] {
                    let rg = frac * s.chord;
                    if let Ok(d) = geom.get_thickness(AfGage::Radius(rg)) {
                        cx.label("radius_gauge");
                        let centre = if rg > 0.0 { le.point } else { te.point };
                        for (name, p) in [("first", d.a), ("second", d.b)] {
                            ensure!(((p - centre).norm() - rg.abs()).abs() <= 1e-6 * s.chord, "C10/gauge/radius_not_from_edge", "radius gauge {rg:e}: its {name} end is {:e} from the {} edge point, not the gauge radius", (p - centre).norm(), if rg > 0.0 { "leading" } else { "trailing" });
                        }
                        // d.a is on the lower, d.b on the upper surface
                        ensure!(dl.dist_to(&d.a) <= 1e-6 * s.chord && du.dist_to(&d.b) <= 1e-6 * s.chord, "C10/gauge/ends_not_on_surfaces", "radius gauge {rg:e}: ends are {:e} from the lower and {:e} from the upper surface", dl.dist_to(&d.a), du.dist_to(&d.b));
                        ensure!((d.value().abs() - (d.a - d.b).norm()).abs() <= 1e-9 * s.chord, "C10/gauge/value", "radius gauge value {:e} is not the distance between its ends {:e}", d.value(), (d.a - d.b).norm());
                    }
                }
            }
        }
    } else {
        cx.label("faces_missing");
    }
    // (5) equivariance: rigid motion + reversed order + rotated start
    {
        let iso = case.t.to_iso();
        let mut pts: Vec<Point2> = curve.points().iter().map(|p| iso * p).collect();
        if truth.closed {
            if pts[0] == pts[pts.len() - 1] {
                pts.pop();
            }
            pts.reverse();
            let k = idx(case.section.start.wrapping_mul(31).wrapping_add(7), pts.len());
            pts.rotate_left(k);
        } else {
            pts.reverse();
        }
        let moved_truth = Truth { forward: iso.rotation * truth.forward, upper: iso.rotation * truth.upper, camber: Poly::new(truth.camber.v.iter().map(|p| iso * p).collect()), radius: truth.radius.clone(), le_point: iso * truth.le_point, te_point: iso * truth.te_point, tmax_radius: truth.tmax_radius, tmax_center: iso * truth.tmax_center, chord: truth.chord, points: vec![], closed: truth.closed };
        if let Ok(c2) = Curve2::from_points(&pts, tol, truth.closed) {
            match analyze(&c2, tau, &case.config, &moved_truth) {
                Ok(Ok(g2)) => {
                    cx.label("equivariance");
                    let t5 = 50.0 * tau + disc;
                    // same station set: every centre of one analysis lies within t5 of the other's camber curve
                    let cam2 = Poly::new(g2.camber.points().to_vec());
                    for st in &geom.stations {
                        let d = cam2.dist_to(&(iso * st.center()));
                        // edge-location methods extend the camber near the ends in ways that depend on the vertex order:
                        // the tight bound applies to the middle 80 % of the camber
                        let f = cam.at_closest_to_point(&st.center()).length_along() / cam.length();
                        let t5 = if f > 0.1 && f < 0.9 { t5 } else { 0.03 * s.chord + t5 };
                        ensure!(d <= t5, "C10/equivariance/stations", "a station centre of the original analysis is {d:e} from the camber of the moved/reversed section (tolerance {t5:e})");
                    }
                    if let (Some(a), Some(b)) = (&g2.leading_edge, &g2.trailing_edge) {
                        let (da, db) = ((a.point - iso * le.point).norm(), (b.point - iso * te.point).norm());
                        ensure!(da <= 0.04 * s.chord + t5 && db <= 0.04 * s.chord + t5, "C10/equivariance/edges", "edge points moved by {da:e} / {db:e} relative to the section after a rigid motion + reversal + start rotation");
                    }
                    // the caliper chord (longest leg of the convex hull as resting line, extreme projections on it) has the same
                    // length wherever the section is placed; cambered sections only (on a symmetric one two legs tie)
                    if s.camber >= 0.02 && truth.closed {
                        if let (Ok(Ok(k0)), Ok(Ok(k1))) = (guarded(|| engeom::airfoil::caliper_chord_line(&curve, &geom.camber).map_err(|e| e.to_string())), guarded(|| engeom::airfoil::caliper_chord_line(&c2, &g2.camber).map_err(|e| e.to_string()))) {
                            let (l0, l1) = ((k0.chord.te - k0.chord.le).norm(), (k1.chord.te - k1.chord.le).norm());
                            ensure!((l0 - l1).abs() <= 1e-6 * s.chord + 10.0 * tol, "C10/equivariance/caliper_chord", "caliper chord length {l0:e} before and {l1:e} after a rigid motion + reversal + start rotation (chord {:.4})", s.chord);
                            let (t0, t1) = ((k0.tangent.te - k0.tangent.le).norm(), (k1.tangent.te - k1.tangent.le).norm());
                            ensure!((t0 - t1).abs() <= 1e-6 * s.chord + 10.0 * tol, "C10/equivariance/caliper_tangent", "caliper resting line {t0:e} before and {t1:e} after the rigid motion");
                            // defining constraints of the result, on the section as given, after the motion, and on its mirror
                            // image (the hull is walked counter-clockwise whatever the input, so the resting leg is met
                            // leading-to-trailing for one handedness of blade and trailing-to-leading for the other): the chord
                            // runs from the end nearer the camber's front, and the resting-line ends are the feet of the chord ends
                            let mirror = |c: &engeom::Curve2| -> Option<engeom::Curve2> {
                                let pts: Vec<engeom::Point2> = c.points().iter().map(|p| engeom::Point2::new(-p.x, p.y)).collect();
                                engeom::Curve2::from_points(&pts, c.tol(), false).ok()
                            };
                            let mut trio: Vec<(&str, engeom::airfoil::CaliperChord, engeom::Point2)> = vec![("as given", k0.clone(), geom.camber.at_front().point()), ("moved", k1.clone(), g2.camber.at_front().point())];
                            if let (Some(ms), Some(mc)) = (mirror(&curve), mirror(&geom.camber)) {
                                if let Ok(Ok(km)) = guarded(|| engeom::airfoil::caliper_chord_line(&ms, &mc).map_err(|e| e.to_string())) {
                                    let lm = (km.chord.te - km.chord.le).norm();
                                    ensure!((l0 - lm).abs() <= 1e-6 * s.chord + 10.0 * tol, "C10/equivariance/caliper_chord_mirrored", "caliper chord length {l0:e}, of the mirror image {lm:e}");
                                    trio.push(("mirrored", km, mc.at_front().point()));
                                }
                            }
                            for (which, k, front) in &trio {
                                let along = k.tangent.te - k.tangent.le;
                                let ch = k.chord.te - k.chord.le;
                                let ctol = 1e-6 * s.chord + 10.0 * tol;
                                ensure!((k.chord.le - front).norm() < (k.chord.te - front).norm(), format!("C10/caliper/chord_orientation/{which}"), "the chord's leading end is farther from the front of the camber line than its trailing end ({which})");
                                ensure!(along.norm() > 0.5 * ch.norm() && along.dot(&ch) > 0.0, format!("C10/caliper/tangent_orientation/{which}"), "the resting line runs against the chord: {:?} vs {:?} ({which})", along, ch);
                                let u = along / along.norm();
                                let (fl, ft) = (k.chord.le - k.tangent.le, k.chord.te - k.tangent.te);
                                ensure!(fl.dot(&u).abs() <= ctol && ft.dot(&u).abs() <= ctol, format!("C10/caliper/tangent_ends_are_feet/{which}"), "the resting-line ends are not the feet of the chord ends: offsets along the line {:e} and {:e} ({which})", fl.dot(&u), ft.dot(&u));
                            }
                            cx.label_if(trio.len() == 3, "caliper_mirrored");
                            cx.label("caliper_chord");
                        }
                    }
                    ensure!((g2.find_tmax().radius() - tm.radius()).abs() <= t5, "C10/equivariance/tmax", "maximum radius {:e} vs {:e}", g2.find_tmax().radius(), tm.radius());
                }
                Ok(Err(_)) => cx.label("equivariance_err"),
                Err(m) => return Verdict::fail("C10/equivariance/panic", m),
            }
        }
    }
    if s.camber >= 0.02 && (s.chord < 0.8 || s.chord > 1.25 || s.pose.is_generic()) {
        cx.nontrivial();
    }
    cx.pass()
}
