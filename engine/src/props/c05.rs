//! C05 — Resampling, simplifying and gap filling stay on the curve and cover it all

use crate::ensure;
use crate::fw::*;
use crate::gen::*;
use crate::oracle::{Poly, Pt};
use engeom::common::points::{fill_gaps, ramer_douglas_peucker};
use engeom::common::Resample;
use proptest::prelude::*;
use serde::{Deserialize, Serialize};

pub struct C05;

#[derive(Clone, Debug, Serialize, Deserialize)]
pub enum Mode {
    ByCount(usize),
    /// spacing as a fraction of the curve length
    BySpacing(f64),
    ByMaxSpacing(f64),
}

#[derive(Clone, Debug, Serialize, Deserialize)]
pub enum Case {
    Resample2 { spec: Curve2Spec, mode: Mode },
    Resample3 { spec: Curve3Spec, mode: Mode },
    /// e as a fraction of the bounding-box diagonal
    Simplify2 { spec: Curve2Spec, e: f64 },
    Simplify3 { spec: Curve3Spec, e: f64 },
    /// a long, sparsely sampled, nearly straight curve: interior vertices at fractions t of the length, offset sideways by
    /// h tolerances (rotated about the axis by rot in 3D); tolerance e_rel of the length
    /// a curve whose own (construction) tolerance is coarser than the simplification tolerance: vertices `spacing` apart
    /// with a sideways ripple of amplitude amp_rel * curve tolerance; curve tolerance tol_rel * spacing; e = e_rel * amplitude
    SimplifyCoarse { dim3: bool, spacing: f64, tol_rel: f64, amp_rel: f64, e_rel: f64, ripple: Vec<f64> },
    SimplifyFlat { dim3: bool, len: f64, e_rel: f64, dir: P3, origin: P3, inner: Vec<(f64, f64, f64)> },
    /// raw RDP on a point list (may double back past chord ends)
    Rdp2 { pts: Vec<P2>, e: f64 },
    /// max as a multiple of the median gap
    FillGaps2 { pts: Vec<P2>, max: f64 },
    FillGaps3 { pts: Vec<P3>, max: f64 },
}

fn mode() -> BoxedStrategy<Mode> {
    prop_oneof![
        3 => (2usize..200).prop_map(Mode::ByCount),
        2 => prop_oneof![unif(0.005, 0.9), Just(0.25), Just(0.5), Just(0.1)].prop_map(Mode::BySpacing),
        2 => prop_oneof![4 => unif(0.005, 1.0), 1 => unif(1.0, 1.5), 1 => Just(0.5), 1 => Just(0.25)].prop_map(Mode::ByMaxSpacing),
    ]
    .boxed()
}

impl Property for C05 {
    type Case = Case;
    const ID: &'static str = "C05";
    fn rule() -> &'static str {
        "cases: resample (by count 2..200, by spacing L/200..0.9L, by max spacing L/200..1.5L) of 2D/3D curves with total length log-uniform over ~1e-3..1e4 (scale 1e-3..1e3), open/closed, uneven vertex density; simplify with tolerance 1e-4..0.3 of the bounding box on curves and on raw point lists that double back past their chord ends, with a tolerance finer than the curve's own construction tolerance on rippled curves, and with tolerance 1e-11..1e-6 of the length on sparse nearly straight curves whose interior vertices stand 0.2..50 tolerances off the chord; fill_gaps with max 0.05..2 of the median gap. Oracle: resampled vertices equal the harness walk of the source at the expected arc positions (so they lie on the source, span it, and are equally spaced / centred); simplified vertices are a subsequence keeping both ends and every discarded vertex is within e of the simplified polyline; gap filling keeps originals in order with collinear evenly spaced inserts and no gap above max. Non-trivial: total length outside [0.5, 2], or a closed curve, or a simplification that discards at least one vertex, or a gap fill that inserts points. Distinct = distinct canonical JSON."
    }
    fn cases(t: Tier) -> u32 {
        t.pick(2_400_000, 20_000_000)
    }
    fn expected_labels() -> Vec<&'static str> {
        vec!["resample2", "resample3", "by_count", "by_spacing", "by_max_spacing", "closed", "length<1", "length>1", "simplify2", "simplify3", "rdp_raw", "discarded>0", "fill_gaps", "inserted>0", "max_spacing>=L", "simplify_flat", "flat_with_kink_above_tolerance", "simplify_coarser_curve_tolerance"]
    }
    fn strategy(_t: Tier) -> BoxedStrategy<Case> {
        let raw = (polyline2(3, 40, 1.0), prop::collection::vec((any::<u16>(), unif(-0.5, 1.5)), 0..4), logu(-4.0, -0.5)).prop_map(|((_, mut pts), extra, e)| {
            // add vertices that double back along an existing edge direction, beyond chord ends
            for (i, f) in extra {
                let n = pts.len();
                let k = idx(i, n - 1);
                let (a, b) = (pts[k], pts[k + 1]);
                let q = [a[0] + f * (b[0] - a[0]) * 3.0, a[1] + f * (b[1] - a[1]) * 3.0];
                pts.insert(k + 1, q);
            }
            Case::Rdp2 { pts, e }
        });
        prop_oneof![
            4 => (curve2_spec(2, 60, -3.0, 3.0, false), mode()).prop_map(|(spec, mode)| Case::Resample2 { spec, mode }),
            2 => (curve3_spec(2, 60, -3.0, 3.0, false), mode()).prop_map(|(spec, mode)| Case::Resample3 { spec, mode }),
            2 => (curve2_spec(3, 60, -3.0, 3.0, false), prop_oneof![4 => logu(-4.0, -0.5), 1 => logu(-0.5, 0.5)]).prop_map(|(spec, e)| Case::Simplify2 { spec, e }),
            1 => (curve3_spec(3, 60, -3.0, 3.0, false), prop_oneof![4 => logu(-4.0, -0.5), 1 => logu(-0.5, 0.5)]).prop_map(|(spec, e)| Case::Simplify3 { spec, e }),
            1 => raw,
            1 => (any::<bool>(), logu(-1.0, 1.0), unif(0.01, 0.08), unif(0.2, 0.9), unif(0.05, 0.6), prop::collection::vec(prop_oneof![unif(0.3, 1.0), unif(-1.0, -0.3)], 3..60))
                .prop_map(|(dim3, spacing, tol_rel, amp_rel, e_rel, ripple)| Case::SimplifyCoarse { dim3, spacing, tol_rel, amp_rel, e_rel, ripple }),
            1 => (any::<bool>(), logu(-1.0, 3.5), logu(-11.0, -6.0), unit3(), p3(1.0), prop::collection::vec((unif(0.02, 0.98), prop_oneof![logu(-0.7, 1.7), logu(-0.7, 1.7).prop_map(|h| -h)], unif(0.0, 6.2832)), 1..8))
                .prop_map(|(dim3, len, e_rel, dir, origin, inner)| Case::SimplifyFlat { dim3, len, e_rel, dir, origin, inner }),
            1 => (polyline2(2, 30, 1.0), unif(0.05, 2.0)).prop_map(|((_, pts), max)| Case::FillGaps2 { pts, max }),
            1 => (polyline3(2, 30, 1.0), unif(0.05, 2.0)).prop_map(|((_, pts), max)| Case::FillGaps3 { pts, max }),
        ]
        .boxed()
    }
    fn check(case: &Case) -> Verdict {
        match case {
            Case::Resample2 { spec, mode } => resample2(spec, mode),
            Case::Resample3 { spec, mode } => resample3(spec, mode),
            Case::Simplify2 { spec, e } => simplify2(spec, *e),
            Case::Simplify3 { spec, e } => simplify3(spec, *e),
            Case::SimplifyCoarse { dim3, spacing, tol_rel, amp_rel, e_rel, ripple } => simplify_coarse(*dim3, *spacing, *tol_rel, *amp_rel, *e_rel, ripple),
            Case::SimplifyFlat { dim3, len, e_rel, dir, origin, inner } => simplify_flat(*dim3, *len, *e_rel, dir, origin, inner),
            Case::Rdp2 { pts, e } => rdp_raw(pts, *e),
            Case::FillGaps2 { pts, max } => fill(&crate::oracle::to_p2(pts), *max),
            Case::FillGaps3 { pts, max } => fill(&crate::oracle::to_p3(pts), *max),
        }
    }
}

/// Dimension-independent validation of a resampled vertex list against the source model.
/// `rv` are the result vertices, with a closing duplicate already stripped when `stripped`.
fn validate_resample<const D: usize>(cx: &mut Ctx, dim: &str, model: &Poly<D>, tol: f64, mode: &Mode, rv: &[Pt<D>]) -> Result<(), Failure> {
    let total = model.len();
    let scale = model.scale();
    let eps = 1e-9 * scale;
    let m = rv.len();
    // expected arc positions
    let positions: Vec<f64> = match mode {
        Mode::ByCount(n) => {
            cx.label("by_count");
            let n = *n;
            let exp: Vec<f64> = (0..n).map(|i| total * i as f64 / (n - 1) as f64).collect();
            if m != n {
                // only de-duplication (two consecutive samples within tol) may reduce the count
                let pts: Vec<Pt<D>> = exp.iter().map(|l| model.point_at(*l)).collect();
                let close = pts.windows(2).any(|w| (w[0] - w[1]).norm() <= tol * (1.0 + 1e-6) + eps);
                if close {
                    cx.label("count_reduced_by_dedup");
                    return Ok(());
                }
                return Err(failure(format!("C05/resample{dim}/by_count/count"), format!("ByCount({n}) returned {m} vertices (L={total:e}, tol={tol:e})")));
            }
            exp
        }
        Mode::BySpacing(f) => {
            cx.label("by_spacing");
            let s = f * total;
            // count must satisfy (m-1)*s <= L and L - (m-1)*s < 2*s: centred with margins smaller than one spacing
            let span = (m as f64 - 1.0) * s;
            crate::ensure_r!(span <= total * (1.0 + 1e-12) + eps, format!("C05/resample{dim}/by_spacing/too_many"), "BySpacing({s:e}) returned {m} vertices spanning {span:e} > L={total:e}");
            crate::ensure_r!(total - span < 2.0 * s * (1.0 + 1e-9), format!("C05/resample{dim}/by_spacing/margins_too_large"), "BySpacing({s:e}) returned {m} vertices: margins {:e} are not smaller than one spacing (L={total:e})", (total - span) / 2.0);
            let margin = (total - span) / 2.0;
            (0..m).map(|i| (margin + i as f64 * s).min(total)).collect()
        }
        Mode::ByMaxSpacing(f) => {
            cx.label("by_max_spacing");
            let mx = f * total;
            cx.label_if(*f >= 1.0, "max_spacing>=L");
            crate::ensure_r!(m >= 2, format!("C05/resample{dim}/by_max_spacing/count"), "ByMaxSpacing returned {m} vertices");
            let sp = total / (m as f64 - 1.0);
            crate::ensure_r!(sp <= mx * (1.0 + 1e-9), format!("C05/resample{dim}/by_max_spacing/spacing_exceeds_max"), "ByMaxSpacing({mx:e}) on L={total:e} returned {m} vertices, i.e. spacing {sp:e} > max");
            (0..m).map(|i| total * i as f64 / (m as f64 - 1.0)).collect()
        }
    };
    for (i, l) in positions.iter().enumerate() {
        let e = model.point_at(*l);
        crate::ensure_r!((e - rv[i]).norm() <= eps, format!("C05/resample{dim}/vertex_not_at_expected_position"), "result vertex {i} of {m} is {:?}; the source at arc length {l:e} (L={total:e}) is {:?} ({:e} away; distance of the vertex to the source {:e})", rv[i], e, (e - rv[i]).norm(), model.dist_to(&rv[i]));
    }
    Ok(())
}


/// candidate sample positions implied by the request (for every admissible count)
fn candidate_positions(mode: &Mode, total: f64, result_count: Option<usize>) -> Vec<Vec<f64>> {
    let lin = |m: usize| -> Vec<f64> { (0..m).map(|i| total * i as f64 / (m as f64 - 1.0)).collect() };
    match mode {
        Mode::ByCount(n) => vec![lin(*n)],
        Mode::BySpacing(f) => {
            let s = f * total;
            let base = (total / s).round() as usize;
            let mut out = vec![];
            for m in [base.saturating_sub(1), base, base + 1, base + 2] {
                if m >= 1 && (m as f64 - 1.0) * s <= total * (1.0 + 1e-9) {
                    let margin = (total - (m as f64 - 1.0) * s) / 2.0;
                    out.push((0..m).map(|i| (margin + i as f64 * s).min(total).max(0.0)).collect());
                }
            }
            out
        }
        Mode::ByMaxSpacing(f) => {
            let mx = f * total;
            let min_m = ((total / mx).ceil() as usize + 1).max(2);
            let mut out = vec![lin(min_m)];
            if let Some(m) = result_count {
                if m >= 2 && m != min_m {
                    out.push(lin(m));
                }
            }
            out
        }
    }
}

/// true when two consecutive expected samples are within the curve tolerance of each other (self-retracing or
/// self-touching source): de-duplication then legitimately changes the vertex count, and no predicate on
/// count or spacing is meaningful
fn samples_collapse<const D: usize>(model: &Poly<D>, tol: f64, mode: &Mode, result_count: Option<usize>) -> bool {
    let eps = 1e-9 * model.scale();
    for pos in candidate_positions(mode, model.len(), result_count) {
        let pts: Vec<Pt<D>> = pos.iter().map(|l| model.point_at(*l)).collect();
        if pts.windows(2).any(|w| (w[0] - w[1]).norm() <= tol * (1.0 + 1e-6) + eps) {
            return true;
        }
    }
    false
}

fn to_mode(mode: &Mode, total: f64) -> Resample {
    match mode {
        Mode::ByCount(n) => Resample::ByCount(*n),
        Mode::BySpacing(f) => Resample::BySpacing(f * total),
        Mode::ByMaxSpacing(f) => Resample::ByMaxSpacing(f * total),
    }
}

fn len_labels(cx: &mut Ctx, total: f64, closed: bool) {
    cx.label_if(total < 1.0, "length<1");
    cx.label_if(total > 1.0, "length>1");
    cx.label_if(closed, "closed");
    if total < 0.5 || total > 2.0 || closed {
        cx.nontrivial();
    }
}

fn resample2(spec: &Curve2Spec, mode: &Mode) -> Verdict {
    let mut cx = Ctx::new();
    cx.label("resample2");
    let b = match spec.build() {
        Ok(Some(b)) => b,
        Ok(None) => return Verdict::Discard("degenerate polyline"),
        Err(e) => return Verdict::fail("C05/from_points/rejected_valid", e),
    };
    let total = b.curve.length();
    let sig_len = if total < 1.0 { "length_below_1" } else { "length_above_1" };
    let res = guarded(|| b.curve.resample(to_mode(mode, total)));
    let rc = match &res {
        Ok(Ok(r)) => Some(r.count()),
        _ => None,
    };
    if samples_collapse(&b.model, spec.tol, mode, rc) || rc.map(|c| c >= 2 && samples_collapse(&b.model, spec.tol, mode, Some(c - 1))).unwrap_or(false) {
        return Verdict::Discard("expected samples coincide within tol (self-retracing source)");
    }
    let r = match res {
        Ok(Ok(r)) => r,
        Ok(Err(e)) => {
            // a closed curve sampled only at its seam (two samples at 0 and L) collapses to one point under
            // de-duplication: no curve can represent that, so an error is the only possible answer
            let two_at_seam = b.closed && match mode {
                Mode::ByCount(n) => *n == 2,
                Mode::ByMaxSpacing(f) => *f >= 1.0,
                Mode::BySpacing(_) => false,
            };
            if two_at_seam {
                return Verdict::Discard("closed curve sampled only at its seam");
            }
            return Verdict::fail(format!("C05/resample2/{}/error", mode_name(mode)), format!("resample({:?}) on L={total:e} (closed={}) failed: {e}", mode, b.closed));
        }
        Err(m) => return Verdict::fail(format!("C05/resample2/{}/panic/{sig_len}", mode_name(mode)), format!("resample({:?}) on a curve with L={total:e}, {} vertices, closed={} panicked: {m}", mode, b.curve.count(), b.closed)),
    };
    let mut rv: Vec<Pt<2>> = r.points().to_vec();
    if let Err(f) = derived_curve2_consistent("C05/resample2", &r) {
        return Verdict::Fail(f);
    }
    ensure!(r.is_closed() == b.closed || (!b.closed && r.is_closed()), "C05/resample2/closedness", "closed source gave an open result");
    ensure!(r.tol() == spec.tol, "C05/resample2/tol", "tolerance changed");
    // a closed source re-closes the samples by appending a copy of the first one when the samples do not end at
    // the seam; both readings (closing copy stripped / last vertex is a genuine sample at the seam) are tried
    let mut scratch = Ctx::new();
    let first_try = validate_resample(&mut scratch, "2", &b.model, spec.tol, mode, &rv);
    if let Err(f0) = first_try {
        if b.closed && rv.len() >= 3 && matches!(mode, Mode::BySpacing(_)) && rv[0] == rv[rv.len() - 1] {
            rv.pop();
            if let Err(f) = validate_resample(&mut cx, "2", &b.model, spec.tol, mode, &rv) {
                return Verdict::Fail(f);
            }
            cx.label("closing_copy_stripped");
        } else {
            return Verdict::Fail(f0);
        }
    } else {
        for l in scratch.labels {
            cx.label(l);
        }
    }
    ensure!(r.length() <= total * (1.0 + 1e-9) + 1e-9 * b.model.scale() || b.closed, "C05/resample2/longer_than_source", "result length {:e} exceeds source length {total:e}", r.length());
    // the same request on the reversed curve: a curve derived from another one is resampled like a fresh curve with its
    // vertices (its positions follow its own, mirrored, arc lengths)
    if !b.closed {
        let rev = b.curve.reversed();
        if let Err(f) = derived_curve2_consistent("C05/resample2/reversed_source", &rev) {
            return Verdict::Fail(f);
        }
        let rmodel = Poly::new(rev.points().to_vec());
        if let Ok(Ok(rr)) = guarded(|| rev.resample(to_mode(mode, total))) {
            // same exclusion as for the source itself: on a self-touching curve two consecutive samples can coincide and
            // de-duplication then changes the count (tried for the neighbouring counts as well, the reversed curve's
            // length may differ from the source's by an ulp and tip the sample count)
            let c = rr.count();
            let tip = match mode {
                Mode::ByMaxSpacing(f) => (1.0 / f).ceil() as usize + 2,
                Mode::ByCount(n) => *n,
                Mode::BySpacing(f) => (1.0 / f).round() as usize + 1,
            };
            if [c.saturating_sub(1), c, c + 1, tip.saturating_sub(1), tip, tip + 1].iter().any(|k| *k >= 2 && samples_collapse(&rmodel, spec.tol, mode, Some(*k))) {
                return Verdict::Discard("expected samples coincide within tol (self-retracing source)");
            }
            let mut scratch = Ctx::new();
            if let Err(mut f) = validate_resample(&mut scratch, "2", &rmodel, spec.tol, mode, rr.points()) {
                f.sig = format!("{}/of_reversed_curve", f.sig);
                return Verdict::Fail(f);
            }
            cx.label("resample_of_reversed");
        }
    }
    len_labels(&mut cx, total, b.closed);
    cx.pass()
}

fn mode_name(m: &Mode) -> &'static str {
    match m {
        Mode::ByCount(_) => "by_count",
        Mode::BySpacing(_) => "by_spacing",
        Mode::ByMaxSpacing(_) => "by_max_spacing",
    }
}

fn resample3(spec: &Curve3Spec, mode: &Mode) -> Verdict {
    let mut cx = Ctx::new();
    cx.label("resample3");
    let b = match spec.build() {
        Ok(Some(b)) => b,
        Ok(None) => return Verdict::Discard("degenerate polyline"),
        Err(e) => return Verdict::fail("C05/from_points/rejected_valid", e),
    };
    let total = b.curve.length();
    let res = guarded(|| b.curve.resample(to_mode(mode, total)));
    if samples_collapse(&b.model, spec.tol, mode, res.as_ref().ok().map(|r| r.count())) {
        return Verdict::Discard("expected samples coincide within tol (self-retracing source)");
    }
    let r = match res {
        Ok(r) => r,
        Err(m) => return Verdict::fail(format!("C05/resample3/{}/panic", mode_name(mode)), format!("resample({:?}) on a 3D curve with L={total:e}, {} vertices panicked: {m}", mode, b.curve.count())),
    };
    let rv: Vec<Pt<3>> = r.points().to_vec();
    if let Err(f) = derived_curve3_consistent("C05/resample3", &r) {
        return Verdict::Fail(f);
    }
    ensure!(r.tol() == spec.tol, "C05/resample3/tol", "tolerance changed");
    if let Err(f) = validate_resample(&mut cx, "3", &b.model, spec.tol, mode, &rv) {
        return Verdict::Fail(f);
    }
    ensure!(r.length() <= total * (1.0 + 1e-9) + 1e-9 * b.model.scale(), "C05/resample3/longer_than_source", "result length {:e} exceeds source length {total:e}", r.length());
    len_labels(&mut cx, total, false);
    cx.pass()
}

fn bbox_diag<const D: usize>(v: &[Pt<D>]) -> f64 {
    let mut s = 0.0;
    for k in 0..D {
        let lo = v.iter().map(|p| p[k]).fold(f64::INFINITY, f64::min);
        let hi = v.iter().map(|p| p[k]).fold(f64::NEG_INFINITY, f64::max);
        s += (hi - lo) * (hi - lo);
    }
    s.sqrt()
}

/// subsequence + ends kept + every discarded vertex within e of the simplified polyline
fn validate_simplified<const D: usize>(site: &str, src: &[Pt<D>], out: &[Pt<D>], e: f64, dedup_tol: f64) -> Result<usize, Failure> {
    let scale = bbox_diag(src) + src.iter().fold(0.0f64, |m, p| m.max(p.coords.amax()));
    crate::ensure_r!(out.len() >= 2, format!("C05/{site}/too_few"), "simplified curve has {} vertices", out.len());
    // subsequence
    let mut j = 0;
    let mut kept = vec![false; src.len()];
    for q in out {
        while j < src.len() && src[j] != *q {
            j += 1;
        }
        crate::ensure_r!(j < src.len(), format!("C05/{site}/not_subsequence"), "result vertex {:?} is not a source vertex in source order", q);
        kept[j] = true;
        j += 1;
    }
    crate::ensure_r!(out[0] == src[0], format!("C05/{site}/first_dropped"), "first vertex not kept");
    let last_ok = *out.last().unwrap() == *src.last().unwrap() || (out.last().unwrap() - src.last().unwrap()).norm() <= dedup_tol;
    crate::ensure_r!(last_ok, format!("C05/{site}/last_dropped"), "last vertex not kept: {:?} vs {:?}", out.last().unwrap(), src.last().unwrap());
    let model = Poly::new(out.to_vec());
    let mut discarded = 0;
    for (i, p) in src.iter().enumerate() {
        if kept[i] {
            continue;
        }
        discarded += 1;
        let d = model.dist_to(p);
        crate::ensure_r!(d <= e * (1.0 + 1e-9) + 1e-12 * scale + dedup_tol, format!("C05/{site}/discarded_vertex_far_from_result"), "discarded source vertex {i} {:?} is {d:e} from the simplified curve, tolerance {e:e} ({} of {} vertices kept)", p, out.len(), src.len());
    }
    Ok(discarded)
}

fn simplify2(spec: &Curve2Spec, efrac: f64) -> Verdict {
    let mut cx = Ctx::new();
    cx.label("simplify2");
    let b = match spec.build() {
        Ok(Some(b)) => b,
        Ok(None) => return Verdict::Discard("degenerate polyline"),
        Err(e) => return Verdict::fail("C05/from_points/rejected_valid", e),
    };
    let src: Vec<Pt<2>> = b.curve.points().to_vec();
    let e = (efrac * bbox_diag(&src)).max(8.0 * spec.tol);
    // a tolerance of the order of the curve's own size asks for a closed curve to collapse to a point, which is not
    // a curve: outside the domain (open curves collapse to their two end points, which is)
    if b.closed && efrac > 0.3163 {
        return Verdict::Discard("closed curve with a tolerance of the order of its size");
    }
    if !b.closed && (src[0] - src[src.len() - 1]).norm() <= 100.0 * spec.tol && efrac > 0.3163 {
        return Verdict::Discard("open curve with coincident ends and a tolerance of the order of its size");
    }
    cx.label_if(efrac > 0.3163, "tolerance_of_the_order_of_the_size");
    let r = match guarded(|| b.curve.simplify(e)) {
        Ok(r) => r,
        Err(m) => return Verdict::fail(format!("C05/simplify2/panic/{}", if b.closed { "closed" } else { "open" }), format!("simplify({e:e}) on a {} curve with {} vertices panicked: {m}", if b.closed { "closed" } else { "open" }, src.len())),
    };
    ensure!(r.is_closed() == b.closed, "C05/simplify2/closedness", "closedness changed: {} -> {}", b.closed, r.is_closed());
    if let Err(f) = derived_curve2_consistent("C05/simplify2", &r) {
        return Verdict::Fail(f);
    }
    match validate_simplified("simplify2", &src, r.points(), e, spec.tol) {
        Ok(d) => {
            cx.label_if(d > 0, "discarded>0");
            if d > 0 {
                cx.nontrivial();
            }
        }
        Err(f) => return Verdict::Fail(f),
    }
    len_labels(&mut cx, b.curve.length(), b.closed);
    cx.pass()
}

fn simplify3(spec: &Curve3Spec, efrac: f64) -> Verdict {
    let mut cx = Ctx::new();
    cx.label("simplify3");
    let b = match spec.build() {
        Ok(Some(b)) => b,
        Ok(None) => return Verdict::Discard("degenerate polyline"),
        Err(e) => return Verdict::fail("C05/from_points/rejected_valid", e),
    };
    let src: Vec<Pt<3>> = b.curve.points().to_vec();
    let e = (efrac * bbox_diag(&src)).max(8.0 * spec.tol);
    if (src[0] - src[src.len() - 1]).norm() <= 100.0 * spec.tol && efrac > 0.3163 {
        return Verdict::Discard("open curve with coincident ends and a tolerance of the order of its size");
    }
    cx.label_if(efrac > 0.3163, "tolerance_of_the_order_of_the_size");
    let r = match guarded(|| b.curve.simplify(e)) {
        Ok(r) => r,
        Err(m) => return Verdict::fail("C05/simplify3/panic", format!("simplify({e:e}) on a 3D curve with {} vertices panicked: {m}", src.len())),
    };
    if let Err(f) = derived_curve3_consistent("C05/simplify3", &r) {
        return Verdict::Fail(f);
    }
    // the simplified curve keeps both end points exactly (up to the curve's own de-duplication tolerance, as in 2D)
    match validate_simplified("simplify3", &src, r.points(), e, spec.tol) {
        Ok(d) => {
            cx.label_if(d > 0, "discarded>0");
            if d > 0 {
                cx.nontrivial();
            }
        }
        Err(f) => return Verdict::Fail(f),
    }
    len_labels(&mut cx, b.curve.length(), false);
    cx.pass()
}

/// Simplification of long, sparse, nearly straight curves with a tolerance many orders below the length: a vertex that
/// stands off the chord by more than e must survive however long the chord is.
fn simplify_flat(dim3: bool, len: f64, e_rel: f64, dir: &P3, origin: &P3, inner: &[(f64, f64, f64)]) -> Verdict {
    let mut cx = Ctx::new();
    cx.label("simplify_flat");
    let e = e_rel * len;
    let mut ts: Vec<(f64, f64, f64)> = inner.to_vec();
    ts.sort_by(|a, b| a.0.partial_cmp(&b.0).unwrap());
    ts.dedup_by(|a, b| (a.0 - b.0).abs() < 1e-3);
    let kink = ts.iter().any(|t| t.1.abs() > 1.5);
    if dim3 {
        let u = v3(dir).normalize();
        let helper = if u.x.abs() < 0.9 { engeom::Vector3::x() } else { engeom::Vector3::y() };
        let n1 = u.cross(&helper).normalize();
        let n2 = u.cross(&n1);
        let a = engeom::Point3::from(v3(origin) * len);
        let mut pts = vec![a];
        for (t, h, rot) in &ts {
            pts.push(a + u * (t * len) + (n1 * rot.cos() + n2 * rot.sin()) * (h * e));
        }
        pts.push(a + u * len);
        let c = match engeom::Curve3::from_points(&pts, e / 16.0) {
            Ok(c) => c,
            Err(m) => return Verdict::fail("C05/from_points/rejected_valid", m.to_string()),
        };
        let src: Vec<Pt<3>> = c.points().to_vec();
        let r = match guarded(|| c.simplify(e)) {
            Ok(r) => r,
            Err(m) => return Verdict::fail("C05/simplify_flat3/panic", m),
        };
        match validate_simplified("simplify_flat3", &src, r.points(), e, e / 16.0) {
            Ok(d) => cx.label_if(d > 0, "discarded>0"),
            Err(f) => return Verdict::Fail(f),
        }
    } else {
        let u = engeom::Vector2::new(dir[0], dir[1]);
        if u.norm() < 1e-3 {
            return Verdict::Discard("direction along z");
        }
        let u = u.normalize();
        let n = engeom::Vector2::new(-u.y, u.x);
        let a = engeom::Point2::new(origin[0] * len, origin[1] * len);
        let mut pts = vec![a];
        for (t, h, _) in &ts {
            pts.push(a + u * (t * len) + n * (h * e));
        }
        pts.push(a + u * len);
        let c = match engeom::Curve2::from_points(&pts, e / 16.0, false) {
            Ok(c) => c,
            Err(m) => return Verdict::fail("C05/from_points/rejected_valid", m.to_string()),
        };
        let src: Vec<Pt<2>> = c.points().to_vec();
        let r = match guarded(|| c.simplify(e)) {
            Ok(r) => r,
            Err(m) => return Verdict::fail("C05/simplify_flat2/panic", m),
        };
        match validate_simplified("simplify_flat2", &src, r.points(), e, e / 16.0) {
            Ok(d) => cx.label_if(d > 0, "discarded>0"),
            Err(f) => return Verdict::Fail(f),
        }
    }
    cx.label_if(kink, "flat_with_kink_above_tolerance");
    if kink {
        cx.nontrivial();
    }
    cx.pass()
}

/// The tolerance passed to simplify is the one that counts, also when the curve was built with a coarser one.
fn simplify_coarse(dim3: bool, spacing: f64, tol_rel: f64, amp_rel: f64, e_rel: f64, ripple: &[f64]) -> Verdict {
    let mut cx = Ctx::new();
    cx.label("simplify_coarser_curve_tolerance");
    let tol_c = tol_rel * spacing;
    let amp = amp_rel * tol_c;
    let e = e_rel * amp;
    if dim3 {
        let pts: Vec<Pt<3>> = ripple.iter().enumerate().map(|(i, r)| engeom::Point3::new(i as f64 * spacing, r * amp, if i % 3 == 0 { 0.5 * r * amp } else { 0.0 })).collect();
        let c = match engeom::Curve3::from_points(&pts, tol_c) {
            Ok(c) => c,
            Err(m) => return Verdict::fail("C05/from_points/rejected_valid", m.to_string()),
        };
        let src: Vec<Pt<3>> = c.points().to_vec();
        ensure!(src.len() == pts.len(), "C05/simplify_coarse3/construction_merged_vertices", "{} of {} vertices kept at construction", src.len(), pts.len());
        let r = match guarded(|| c.simplify(e)) {
            Ok(r) => r,
            Err(m) => return Verdict::fail("C05/simplify_coarse3/panic", m),
        };
        match validate_simplified("simplify_coarse3", &src, r.points(), e, 0.0) {
            Ok(d) => cx.label_if(d > 0, "discarded>0"),
            Err(f) => return Verdict::Fail(f),
        }
    } else {
        let pts: Vec<Pt<2>> = ripple.iter().enumerate().map(|(i, r)| engeom::Point2::new(i as f64 * spacing, r * amp)).collect();
        let c = match engeom::Curve2::from_points(&pts, tol_c, false) {
            Ok(c) => c,
            Err(m) => return Verdict::fail("C05/from_points/rejected_valid", m.to_string()),
        };
        let src: Vec<Pt<2>> = c.points().to_vec();
        ensure!(src.len() == pts.len(), "C05/simplify_coarse2/construction_merged_vertices", "{} of {} vertices kept at construction", src.len(), pts.len());
        let r = match guarded(|| c.simplify(e)) {
            Ok(r) => r,
            Err(m) => return Verdict::fail("C05/simplify_coarse2/panic", m),
        };
        match validate_simplified("simplify_coarse2", &src, r.points(), e, 0.0) {
            Ok(d) => cx.label_if(d > 0, "discarded>0"),
            Err(f) => return Verdict::Fail(f),
        }
    }
    cx.nontrivial();
    cx.pass()
}

fn rdp_raw(pts: &[P2], e: f64) -> Verdict {
    let mut cx = Ctx::new();
    cx.label("rdp_raw");
    let src = crate::oracle::to_p2(pts);
    // exact duplicates of consecutive points are removed: a zero-length chord between neighbours has no direction
    let mut s2: Vec<Pt<2>> = vec![];
    for p in src {
        if s2.last().map(|l| (l - p).norm() > 1e-9).unwrap_or(true) {
            s2.push(p);
        }
    }
    if s2.len() < 3 || (s2[0] - s2[s2.len() - 1]).norm() <= 1e-9 {
        return Verdict::Discard("degenerate point list");
    }
    let e = e * bbox_diag(&s2);
    let out = match guarded(|| ramer_douglas_peucker(&s2, e)) {
        Ok(o) => o,
        Err(m) => return Verdict::fail("C05/rdp/panic", m),
    };
    match validate_simplified("rdp", &s2, &out, e, 0.0) {
        Ok(d) => {
            cx.label_if(d > 0, "discarded>0");
            if d > 0 {
                cx.nontrivial();
            }
        }
        Err(f) => return Verdict::Fail(f),
    }
    cx.pass()
}

fn fill<const D: usize>(pts: &[Pt<D>], maxf: f64) -> Verdict {
    let mut cx = Ctx::new();
    cx.label("fill_gaps");
    if pts.len() < 2 {
        return Verdict::Discard("too few points");
    }
    let mut gaps: Vec<f64> = pts.windows(2).map(|w| (w[0] - w[1]).norm()).collect();
    gaps.sort_by(|a, b| a.partial_cmp(b).unwrap());
    let med = gaps[gaps.len() / 2];
    if med <= 0.0 {
        return Verdict::Discard("zero gaps");
    }
    let max = maxf * med;
    let out = match guarded(|| fill_gaps(pts, max)) {
        Ok(o) => o,
        Err(m) => return Verdict::fail("C05/fill_gaps/panic", m),
    };
    // originals appear in order; between consecutive originals the inserted points are collinear, evenly spaced
    let mut j = 0;
    let mut inserted_total = 0;
    for i in 0..pts.len() - 1 {
        ensure!(j < out.len() && out[j] == pts[i], "C05/fill_gaps/original_missing", "original point {i} not found in order in the output");
        let mut k = j + 1;
        while k < out.len() && out[k] != pts[i + 1] {
            k += 1;
        }
        ensure!(k < out.len(), "C05/fill_gaps/original_missing", "original point {} not found in order in the output", i + 1);
        let n_ins = k - j - 1;
        let d = (pts[i + 1] - pts[i]).norm();
        let step = d / (n_ins as f64 + 1.0);
        ensure!(step <= max * (1.0 + 1e-12), "C05/fill_gaps/gap_exceeds_max", "gap between originals {i} and {} is {d:e}; {n_ins} inserted points leave spacing {step:e} > max {max:e}", i + 1);
        if n_ins > 0 {
            // minimal: one fewer inserted point would exceed max
            ensure!(d / (n_ins as f64) > max * (1.0 - 1e-12), "C05/fill_gaps/not_minimal", "{n_ins} points inserted into a gap of {d:e} with max {max:e}: {} would have sufficed", n_ins - 1);
        }
        for t in 1..=n_ins {
            let e = pts[i] + (pts[i + 1] - pts[i]) * (t as f64 / (n_ins as f64 + 1.0));
            ensure!((e - out[j + t]).norm() <= 1e-12 * (d + pts[i].coords.amax()), "C05/fill_gaps/insert_position", "inserted point {t} of {n_ins} between originals {i},{} is {:?}, expected {:?}", i + 1, out[j + t], e);
        }
        inserted_total += n_ins;
        j = k;
    }
    ensure!(j == out.len() - 1, "C05/fill_gaps/trailing", "output has {} trailing points after the last original", out.len() - 1 - j);
    for w in out.windows(2) {
        ensure!((w[0] - w[1]).norm() <= max * (1.0 + 1e-9), "C05/fill_gaps/gap_exceeds_max", "consecutive output points {:e} apart, max {max:e}", (w[0] - w[1]).norm());
    }
    cx.label_if(inserted_total > 0, "inserted>0");
    if inserted_total > 0 {
        cx.nontrivial();
    }
    cx.pass()
}
