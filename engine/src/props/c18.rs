//! C18 — Angle normalisation and interval arithmetic are consistent

use crate::fw::*;
use crate::gen::*;
use crate::{ensure};
use engeom::common::{angle_in_direction, angle_signed_pi, angle_to_2pi, signed_compliment_2pi, AngleDir, AngleInterval, Interval};
use engeom::geom2::{directed_angle, rot270, rot90, signed_angle};
use proptest::prelude::*;
use serde::{Deserialize, Serialize};
use std::f64::consts::PI;

pub struct C18;

#[derive(Clone, Debug, Serialize, Deserialize)]
pub enum Case {
    Norm { a: f64 },
    Dir { a: f64, b: f64 },
    Vecs { v1: P2, v2: P2 },
    AInt { s: f64, e: f64, thetas: Vec<f64>, fracs: Vec<f64> },
    AIntPair { s0: f64, e0: f64, s1: f64, e1: f64 },
    Int { a: F, b: F, c: F, d: F, xs: Vec<F> },
}

const TAU: f64 = 2.0 * PI;

fn angle() -> BoxedStrategy<f64> {
    let deltas = vec![0.0, 1e-15, -1e-15, 1e-12, -1e-12, 1e-9, -1e-9];
    prop_oneof![
        4 => ((-8i32..=8), prop::sample::select(deltas), -2i32..=2).prop_map(|(k, d, u)| {
            let mut x = k as f64 * (PI / 2.0) + d;
            for _ in 0..u.abs() { x = if u > 0 { next_up(x) } else { next_down(x) }; }
            x
        }),
        // the same lattice of quarter turns (and its ulp neighbours) far from zero: k*pi/2 for |k| up to 64, up to 4096
        // and up to 6e5 (|a| ~ 1e6), where reduction by whole turns accumulates rounding
        2 => (prop_oneof![2 => -64i32..=64, 1 => -4096i32..=4096, 1 => -600_000i32..=600_000], -2i32..=2).prop_map(|(k, u)| {
            let mut x = k as f64 * (PI / 2.0);
            for _ in 0..u.abs() { x = if u > 0 { next_up(x) } else { next_down(x) }; }
            x
        }),
        4 => unif(-8.0 * PI, 8.0 * PI),
        1 => unif(-1.0e6, 1.0e6),
        1 => prop::sample::select(vec![-1e-20, -0.0, 0.0, 1e-300, -1e-300, TAU, -TAU, PI, -PI, 1e6, -1e6]),
    ]
    .boxed()
}

fn vec2s() -> BoxedStrategy<(P2, P2)> {
    let v = || (unif(-PI, PI), logu(-6.0, 6.0)).prop_map(|(th, l)| [l * th.cos(), l * th.sin()]);
    prop_oneof![
        4 => (v(), v()),
        1 => (v(), logu(-3.0, 3.0)).prop_map(|(a, s)| (a, [a[0] * s, a[1] * s])),
        1 => (v(), logu(-3.0, 3.0)).prop_map(|(a, s)| (a, [-a[0] * s, -a[1] * s])),
        1 => (v(), logu(-3.0, 3.0)).prop_map(|(a, s)| (a, [-a[1] * s, a[0] * s])),
        1 => (coord(4.0), coord(4.0), coord(4.0), coord(4.0)).prop_map(|(a, b, c, d)| ([a, b], [c, d])),
    ]
    .boxed()
}

fn extent() -> BoxedStrategy<f64> {
    prop_oneof![
        5 => unif(-TAU, TAU),
        1 => unif(-3.0 * TAU, 3.0 * TAU),
        1 => prop::sample::select(vec![0.0, -0.0, TAU, -TAU, PI, -PI, PI / 2.0, -PI / 2.0, 1e-9, -1e-9]),
    ]
    .boxed()
}

fn bound() -> BoxedStrategy<F> {
    prop_oneof![
        6 => coord(10.0).prop_map(F),
        1 => prop::sample::select(vec![F(f64::INFINITY), F(f64::NEG_INFINITY), F(0.0), F(-0.0), F(1e300), F(-1e300)]),
    ]
    .boxed()
}

impl Property for C18 {
    type Case = Case;
    const ID: &'static str = "C18";
    fn rule() -> &'static str {
        "cases are drawn from six families (normalise one angle; directed angle between two angles; two vectors; angular interval + probe angles; two angular intervals; scalar interval pair + probes). Angles are k*pi/2 + delta (+- a few ulp), uniform in +-8pi, up to 1e6, tiny negatives. Non-trivial: |a| > 2pi or within 1e-9 of a multiple of pi (angles), an interval that wraps 0 or has negative extent (angular intervals), overlapping-but-not-nested or infinite/degenerate bounds (scalar). Distinct = distinct canonical JSON of the case."
    }
    fn cases(t: Tier) -> u32 {
        t.pick(8_000_000, 100_000_000)
    }
    fn expected_labels() -> Vec<&'static str> {
        vec!["norm", "dir", "vecs", "aint", "aint_pair", "int", "wraps_zero", "neg_extent", "full_turn", "int_infinite", "int_degenerate", "vec_opposite"]
    }
    fn strategy(_t: Tier) -> BoxedStrategy<Case> {
        prop_oneof![
            3 => angle().prop_map(|a| Case::Norm { a }),
            2 => (angle(), angle()).prop_map(|(a, b)| Case::Dir { a, b }),
            2 => vec2s().prop_map(|(v1, v2)| Case::Vecs { v1, v2 }),
            3 => (angle(), extent(), prop::collection::vec(angle(), 1..5), prop::collection::vec(unif(0.0, 1.0), 1..4)).prop_map(|(s, e, thetas, fracs)| Case::AInt { s, e, thetas, fracs }),
            2 => (angle(), extent(), angle(), extent()).prop_map(|(s0, e0, s1, e1)| Case::AIntPair { s0, e0, s1, e1 }),
            3 => (bound(), bound(), bound(), bound(), prop::collection::vec(bound(), 1..5)).prop_map(|(a, b, c, d, xs)| Case::Int { a, b, c, d, xs }),
        ]
        .boxed()
    }
    fn check(case: &Case) -> Verdict {
        match case {
            Case::Norm { a } => check_norm(*a),
            Case::Dir { a, b } => check_dir(*a, *b),
            Case::Vecs { v1, v2 } => check_vecs(v1, v2),
            Case::AInt { s, e, thetas, fracs } => check_aint(*s, *e, thetas, fracs),
            Case::AIntPair { s0, e0, s1, e1 } => check_aint_pair(*s0, *e0, *s1, *e1),
            Case::Int { a, b, c, d, xs } => check_int(a.0, b.0, c.0, d.0, xs),
        }
    }
}

fn same_dir(a: f64, b: f64, tol: f64) -> bool {
    (a.sin() - b.sin()).abs() <= tol && (a.cos() - b.cos()).abs() <= tol
}

fn interesting_angle(a: f64) -> bool {
    let q = a / PI;
    a.abs() > TAU || (q - q.round()).abs() * PI < 1e-9
}

fn check_norm(a: f64) -> Verdict {
    let mut cx = Ctx::new();
    cx.label("norm");
    let tol = 1e-12 + 4e-16 * a.abs();
    let s = angle_signed_pi(a);
    ensure!(s >= -PI && s <= PI, "C18/angle_signed_pi/range", "angle_signed_pi({a:e}) = {s:e} outside [-pi, pi]");
    ensure!(same_dir(a, s, tol), "C18/angle_signed_pi/direction", "angle_signed_pi({a:e}) = {s:e} is a different direction");
    let s2 = angle_signed_pi(s);
    ensure!(s2 == s, "C18/angle_signed_pi/idempotent", "angle_signed_pi not idempotent at {a:e}: {s:e} -> {s2:e}");
    let u = angle_to_2pi(a);
    ensure!(u >= 0.0 && u <= TAU, "C18/angle_to_2pi/range", "angle_to_2pi({a:e}) = {u:e} outside [0, 2pi]");
    ensure!(same_dir(a, u, tol), "C18/angle_to_2pi/direction", "angle_to_2pi({a:e}) = {u:e} is a different direction");
    let u2 = angle_to_2pi(u);
    ensure!(same_dir(u2, u, 1e-12) && u2 >= 0.0 && u2 <= TAU, "C18/angle_to_2pi/idempotent", "angle_to_2pi not idempotent at {a:e}: {u:e} -> {u2:e}");
    if s >= -PI && s <= PI && a >= -PI && a <= PI {
        ensure!(s == a, "C18/angle_signed_pi/unchanged_in_range", "angle already in range was changed: {a:e} -> {s:e}");
    }
    if a >= 0.0 && a < TAU {
        ensure!(u == a, "C18/angle_to_2pi/unchanged_in_range", "angle already in range was changed: {a:e} -> {u:e}");
    }
    // signed compliment: differs from a by exactly one turn, opposite sign sense
    let c = signed_compliment_2pi(a);
    let expect = if a >= 0.0 { -TAU } else { TAU };
    ensure!(((c - a) - expect).abs() <= 4.0 * ulp(a.abs() + TAU), "C18/signed_compliment_2pi/turn", "signed_compliment_2pi({a:e}) = {c:e}, difference {:e} is not {expect:e}", c - a);
    if interesting_angle(a) {
        cx.nontrivial();
    }
    cx.label_if(a.abs() > TAU, "beyond_one_turn");
    cx.label_if(a.abs() > 1000.0, "huge");
    cx.pass()
}

fn check_dir(a: f64, b: f64) -> Verdict {
    let mut cx = Ctx::new();
    cx.label("dir");
    let tol = 1e-9 + 1e-15 * (a.abs() + b.abs());
    let ccw = angle_in_direction(a, b, AngleDir::Ccw);
    let cw = angle_in_direction(a, b, AngleDir::Cw);
    for (name, v, sign) in [("ccw", ccw, 1.0), ("cw", cw, -1.0)] {
        ensure!(v >= 0.0 && v <= TAU, format!("C18/angle_in_direction/range/{name}"), "angle_in_direction({a:e},{b:e},{name}) = {v:e} outside [0, 2pi]");
        // rotate a by v in the direction: should be b's direction. a is reduced first to keep precision.
        let ar = a % TAU;
        ensure!(same_dir(ar + sign * v, b, tol), format!("C18/angle_in_direction/rotates_onto/{name}"), "rotating {a:e} by {v:e} {name} does not give the direction of {b:e}");
    }
    let sum = ccw + cw;
    ensure!(sum.abs() <= tol || (sum - TAU).abs() <= tol, "C18/angle_in_direction/sum", "ccw {ccw:e} + cw {cw:e} = {sum:e} is neither 0 nor 2pi (a={a:e}, b={b:e})");
    if interesting_angle(a) || interesting_angle(b) {
        cx.nontrivial();
    }
    cx.pass()
}

fn check_vecs(v1: &P2, w2: &P2) -> Verdict {
    let mut cx = Ctx::new();
    cx.label("vecs");
    let a = v2(v1);
    let b = v2(w2);
    let (na, nb) = (a.norm(), b.norm());
    if na < 1e-12 || nb < 1e-12 {
        return Verdict::Discard("zero vector");
    }
    let (ua, ub) = (a / na, b / nb);
    let s = signed_angle(&a, &b);
    ensure!(s >= -PI && s <= PI, "C18/signed_angle/range", "signed_angle = {s:e} outside [-pi, pi] for {v1:?},{w2:?}");
    let rot = |v: &engeom::Vector2, t: f64| engeom::Vector2::new(v.x * t.cos() - v.y * t.sin(), v.x * t.sin() + v.y * t.cos());
    ensure!((rot(&ua, s) - ub).norm() <= 1e-9, "C18/signed_angle/rotates_onto", "rotating v1 by signed_angle {s:e} does not give v2's direction for {v1:?},{w2:?}");
    let ccw = directed_angle(&a, &b, AngleDir::Ccw);
    let cw = directed_angle(&a, &b, AngleDir::Cw);
    for (name, v, sign) in [("ccw", ccw, 1.0), ("cw", cw, -1.0)] {
        ensure!(v >= 0.0 && v <= TAU, format!("C18/directed_angle/range/{name}"), "directed_angle {name} = {v:e} outside [0, 2pi] for {v1:?},{w2:?}");
        ensure!((rot(&ua, sign * v) - ub).norm() <= 1e-9, format!("C18/directed_angle/rotates_onto/{name}"), "rotating v1 by directed_angle {v:e} {name} does not give v2's direction for {v1:?},{w2:?}");
    }
    // quarter and three-quarter turns in a stated direction (rot90 / rot270) agree with the directed angle in that
    // direction, and the sign helpers of AngleDir are consistent with both
    for (name, d) in [("ccw", AngleDir::Ccw), ("cw", AngleDir::Cw)] {
        let q = rot90(d) * a;
        let t = rot270(d) * a;
        let dq = directed_angle(&a, &q, d);
        let dt = directed_angle(&a, &t, d);
        ensure!((dq - PI / 2.0).abs() <= 1e-9, format!("C18/rot90/directed_angle/{name}"), "rot90({name}) turns {v1:?} by a directed angle of {dq:e} in its own direction, expected pi/2");
        ensure!((dt - 1.5 * PI).abs() <= 1e-9, format!("C18/rot270/directed_angle/{name}"), "rot270({name}) turns {v1:?} by a directed angle of {dt:e} in its own direction, expected 3pi/2");
        ensure!((q.norm() - na).abs() <= 1e-12 * na && (t.norm() - na).abs() <= 1e-12 * na, format!("C18/rot90/length/{name}"), "rot90/rot270 changed the length of {v1:?}");
        ensure!(((rot90(d) * (rot270(d) * a)) - a).norm() <= 1e-12 * na, format!("C18/rot90/rot270_inverse/{name}"), "rot90 after rot270 is not the identity on {v1:?}");
        let sg = d.to_sign();
        ensure!(sg == if matches!(d, AngleDir::Ccw) { 1.0 } else { -1.0 }, format!("C18/AngleDir/to_sign/{name}"), "to_sign = {sg}");
        ensure!(AngleDir::from_sign(sg).to_sign() == sg && d.opposite().to_sign() == -sg && d.opposite().opposite().to_sign() == sg, format!("C18/AngleDir/sign_roundtrip/{name}"), "from_sign/opposite inconsistent with to_sign for {name}");
        ensure!((rot(&ua, sg * PI / 2.0) - q / na).norm() <= 1e-9, format!("C18/rot90/sign/{name}"), "rot90({name}) is not a rotation by to_sign * pi/2 of {v1:?}");
        // the signed angle's sign names the shorter direction
        if s.abs() > 1e-9 && (s.abs() - PI).abs() > 1e-9 {
            let shorter = AngleDir::from_sign(s);
            let long = directed_angle(&a, &b, shorter.opposite());
            let short = directed_angle(&a, &b, shorter);
            ensure!(short <= long + 1e-9 && (short - s.abs()).abs() <= 1e-9, format!("C18/signed_angle/shorter_direction/{name}"), "signed_angle {s:e} but directed angles {short:e} (same sense) and {long:e} (opposite) for {v1:?},{w2:?}");
        }
    }
    let sum = ccw + cw;
    ensure!(sum.abs() <= 1e-9 || (sum - TAU).abs() <= 1e-9, "C18/directed_angle/sum", "ccw {ccw:e} + cw {cw:e} = {sum:e} is neither 0 nor 2pi for {v1:?},{w2:?}");
    let dot = ua.dot(&ub);
    cx.label_if(dot < -1.0 + 1e-12, "vec_opposite");
    cx.label_if(dot > 1.0 - 1e-12, "vec_same");
    if dot.abs() < 0.999 && (na / nb - 1.0).abs() > 1e-3 {
        cx.nontrivial();
    }
    cx.pass()
}

/// harness model of an angular interval: (start', extent) with start' any real and extent in [0, 2pi]
fn model(s: f64, e: f64) -> (f64, f64) {
    let start = if e < 0.0 { s + e } else { s };
    (start, e.abs().min(TAU))
}

/// position of theta relative to start, in [0, 2pi)
fn rel(theta: f64, start: f64) -> f64 {
    let d = (theta % TAU) - (start % TAU);
    d.rem_euclid(TAU)
}

/// Some(true/false) when membership is clear, None inside the don't-care band
fn model_contains(start: f64, ext: f64, theta: f64, band: f64) -> Option<bool> {
    if ext >= TAU - band {
        return if ext >= TAU { Some(true) } else { None };
    }
    let r = rel(theta, start);
    if r < band || TAU - r < band || (r - ext).abs() < band {
        return None;
    }
    Some(r < ext)
}

fn check_aint(s: f64, e: f64, thetas: &[f64], fracs: &[f64]) -> Verdict {
    let mut cx = Ctx::new();
    cx.label("aint");
    let iv = AngleInterval::new(s, e);
    let (start, ext) = model(s, e);
    ensure!(iv.start() >= 0.0 && iv.start() <= TAU, "C18/AngleInterval/new/start_range", "AngleInterval::new({s:e},{e:e}).start() = {:e}", iv.start());
    ensure!(iv.angle() >= 0.0 && iv.angle() <= TAU, "C18/AngleInterval/new/angle_range", "AngleInterval::new({s:e},{e:e}).angle() = {:e}", iv.angle());
    let mag = s.abs() + e.abs();
    let band = 1e-9 + 2e-15 * mag;
    ensure!(same_dir(iv.start(), start, band), "C18/AngleInterval/new/start_direction", "start {:e} is not the direction of the swept set's first angle {start:e} (new({s:e},{e:e}))", iv.start());
    ensure!((iv.angle() - ext).abs() <= 1e-12, "C18/AngleInterval/new/extent", "extent {:e} != {ext:e} (new({s:e},{e:e}))", iv.angle());
    // equivalence new(s, -e) == new(s - e, e)
    if e != 0.0 {
        let other = AngleInterval::new(s + e, -e);
        ensure!(same_dir(other.start(), iv.start(), band) || ext >= TAU, "C18/AngleInterval/new/negative_extent_equiv", "new({s:e},{e:e}) and new(s+e,-e) start at {:e} vs {:e}", iv.start(), other.start());
        ensure!((other.angle() - iv.angle()).abs() <= 1e-12, "C18/AngleInterval/new/negative_extent_equiv", "new({s:e},{e:e}) and new(s+e,-e) extents {:e} vs {:e}", iv.angle(), other.angle());
    }
    // constructed members: start + f*ext must be inside; start - g*(2pi-ext) must be outside
    let mut probes: Vec<(f64, Option<bool>)> = vec![];
    for f in fracs {
        // constructed member / non-member of the swept set
        let inside = start + f * ext;
        probes.push((inside, model_contains(start, ext, inside, band)));
        let outside = start - f * (TAU - ext);
        probes.push((outside, model_contains(start, ext, outside, band)));
        probes.push((inside + TAU, model_contains(start, ext, inside, band)));
    }
    for t in thetas {
        probes.push((*t, model_contains(start, ext, *t, band + 2e-15 * t.abs())));
    }
    // an angle that is the interval's start exactly - the same remainder modulo the f64 value of 2pi, so no rounding is
    // involved in comparing the two - is a member however many whole turns away it was written (0 and 2pi, s and
    // s +- 2pi); the don't-care band of the model does not apply to it
    if e >= 0.0 {
        for t in [s, s + TAU, s - TAU, s + 2.0 * TAU, TAU, -TAU, 2.0 * TAU, 0.0] {
            if t.is_finite() && (t % TAU) == (s % TAU) {
                probes.push((t, Some(true)));
                cx.label("start_exactly");
            }
        }
    }
    let mut decided = 0;
    for (t, exp) in probes {
        let got = iv.contains(t);
        if let Some(exp) = exp {
            decided += 1;
            ensure!(got == exp, if exp { "C18/AngleInterval/contains/missing_member" } else { "C18/AngleInterval/contains/extra_member" }, "new({s:e},{e:e}).contains({t:e}) = {got}, swept set says {exp} (start'={start:e}, extent={ext:e})");
        }
    }
    // the two ends are members (library tolerance 1e-12 covers rounding for moderate magnitudes)
    if mag < 100.0 {
        ensure!(iv.contains(iv.start()), "C18/AngleInterval/contains/start", "interval does not contain its own start (new({s:e},{e:e}))");
        ensure!(iv.contains(iv.at_fraction(1.0)), "C18/AngleInterval/contains/end", "interval does not contain its own end (new({s:e},{e:e}))");
        ensure!(iv.contains(iv.at_fraction(0.5)), "C18/AngleInterval/contains/middle", "interval does not contain its own middle (new({s:e},{e:e}))");
    }
    let wraps = (start.rem_euclid(TAU)) + ext > TAU;
    cx.label_if(wraps, "wraps_zero");
    cx.label_if(e < 0.0, "neg_extent");
    cx.label_if(ext >= TAU, "full_turn");
    if (wraps || e < 0.0) && decided > 0 {
        cx.nontrivial();
    }
    cx.pass()
}

fn check_aint_pair(s0: f64, e0: f64, s1: f64, e1: f64) -> Verdict {
    let mut cx = Ctx::new();
    cx.label("aint_pair");
    let a = AngleInterval::new(s0, e0);
    let b = AngleInterval::new(s1, e1);
    let (st0, x0) = model(s0, e0);
    let (st1, x1) = model(s1, e1);
    let band = 1e-9 + 2e-15 * (s0.abs() + e0.abs() + s1.abs() + e1.abs());
    let ab = a.intersects(&b);
    let ba = b.intersects(&a);
    ensure!(ab == ba, "C18/AngleInterval/intersects/symmetric", "intersects not symmetric for ({s0:e},{e0:e}) ({s1:e},{e1:e})");
    // two arcs share an angle iff one contains the other's start
    let c0 = model_contains(st0, x0, st1, band);
    let c1 = model_contains(st1, x1, st0, band);
    let expect = match (c0, c1) {
        (Some(true), _) | (_, Some(true)) => Some(true),
        (Some(false), Some(false)) => Some(false),
        _ => None,
    };
    if let Some(exp) = expect {
        ensure!(ab == exp, if exp { "C18/AngleInterval/intersects/missed" } else { "C18/AngleInterval/intersects/spurious" }, "({s0:e},{e0:e}).intersects(({s1:e},{e1:e})) = {ab}, arcs share an angle: {exp}");
        let wraps = st0.rem_euclid(TAU) + x0 > TAU || st1.rem_euclid(TAU) + x1 > TAU;
        if wraps || e0 < 0.0 || e1 < 0.0 {
            cx.nontrivial();
        }
        cx.label_if(exp, "pair_intersecting");
        cx.label_if(!exp, "pair_disjoint");
    } else {
        cx.label("pair_band");
    }
    cx.pass()
}

fn check_int(a: f64, b: f64, c: f64, d: f64, xs: &[F]) -> Verdict {
    let mut cx = Ctx::new();
    cx.label("int");
    let i = Interval::new(a, b);
    let j = Interval::new(c, d);
    for (iv, (p, q)) in [(&i, (a, b)), (&j, (c, d))] {
        ensure!(iv.min <= iv.max, "C18/Interval/new/ordered", "Interval::new({p:e},{q:e}) = [{:e},{:e}] not ordered", iv.min, iv.max);
        ensure!((iv.min == p && iv.max == q) || (iv.min == q && iv.max == p), "C18/Interval/new/bounds_kept", "Interval::new({p:e},{q:e}) = [{:e},{:e}] changed the bounds", iv.min, iv.max);
        match Interval::try_new(p, q) {
            Ok(t) => ensure!(t.min == iv.min && t.max == iv.max, "C18/Interval/try_new/agrees", "try_new({p:e},{q:e}) disagrees with new"),
            Err(_) => return Verdict::fail("C18/Interval/try_new/rejected_finite", format!("try_new({p:e},{q:e}) returned Err for non-NaN bounds")),
        }
    }
    // NaN rejection
    ensure!(Interval::try_new(f64::NAN, a).is_err() && Interval::try_new(a, f64::NAN).is_err(), "C18/Interval/try_new/nan", "try_new accepted NaN");
    ensure!(guarded(|| Interval::new(f64::NAN, a)).is_err() && guarded(|| Interval::new(b, f64::NAN)).is_err(), "C18/Interval/new/nan", "new did not panic on NaN");
    let mut xs: Vec<f64> = xs.iter().map(|x| x.0).collect();
    xs.extend([i.min, i.max, j.min, j.max]);
    for &x in &xs {
        let exp = x >= i.min && x <= i.max;
        ensure!(i.contains(x) == exp, "C18/Interval/contains", "[{:e},{:e}].contains({x:e}) = {}", i.min, i.max, !exp);
        let cl = i.clamp(x);
        ensure!(cl >= i.min && cl <= i.max, "C18/Interval/clamp/in_interval", "clamp({x:e}) = {cl:e} outside [{:e},{:e}]", i.min, i.max);
        if exp {
            ensure!(cl == x, "C18/Interval/clamp/identity_inside", "clamp({x:e}) = {cl:e} changed a contained value");
        } else {
            let nearest = if x < i.min { i.min } else { i.max };
            ensure!(cl == nearest, "C18/Interval/clamp/nearest_end", "clamp({x:e}) = {cl:e}, nearest end is {nearest:e}");
        }
    }
    let exp_ci = j.min >= i.min && j.max <= i.max;
    ensure!(i.contains_interval(&j) == exp_ci, "C18/Interval/contains_interval", "[{:e},{:e}].contains_interval([{:e},{:e}]) = {}", i.min, i.max, j.min, j.max, !exp_ci);
    let exp_ov = i.min.max(j.min) <= i.max.min(j.max);
    ensure!(i.overlaps(&j) == exp_ov, "C18/Interval/overlaps", "[{:e},{:e}].overlaps([{:e},{:e}]) = {}", i.min, i.max, j.min, j.max, !exp_ov);
    ensure!(j.overlaps(&i) == exp_ov, "C18/Interval/overlaps/symmetric", "overlaps not symmetric for [{:e},{:e}] [{:e},{:e}]", i.min, i.max, j.min, j.max);
    let x1 = i.intersection(&j);
    let x2 = j.intersection(&i);
    ensure!(x1.is_some() == exp_ov && x2.is_some() == exp_ov, "C18/Interval/intersection/some_iff_overlaps", "intersection is_some = {}, overlaps = {exp_ov}", x1.is_some());
    if let (Some(p), Some(q)) = (x1, x2) {
        ensure!(p.min == q.min && p.max == q.max, "C18/Interval/intersection/commutative", "intersection not commutative");
        ensure!(p.min == i.min.max(j.min) && p.max == i.max.min(j.max), "C18/Interval/intersection/value", "intersection [{:e},{:e}] is not [max of mins, min of maxs]", p.min, p.max);
        ensure!(i.contains_interval(&p) && j.contains_interval(&p), "C18/Interval/intersection/contained", "intersection not contained in both operands");
    }
    let inf = [a, b, c, d].iter().any(|x| x.is_infinite());
    let degenerate = a == b || c == d;
    cx.label_if(inf, "int_infinite");
    cx.label_if(degenerate, "int_degenerate");
    cx.label_if(a > b || c > d, "int_swapped");
    if (exp_ov && !exp_ci && !j.contains_interval(&i)) || inf || degenerate {
        cx.nontrivial();
    }
    cx.pass()
}
