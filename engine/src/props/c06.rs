//! C06 — Line-polyline intersection search is complete and sound

use crate::ensure;
use crate::fw::*;
use crate::gen::*;
use engeom::common::Intersection;
use engeom::geom2::polyline2::{farthest_point_direction_distance, max_intersection};
use engeom::{Curve2, Point2, SurfacePoint2, Vector2};
use parry2d_f64::query::Ray;
use parry2d_f64::shape::Polyline;
use proptest::prelude::*;
use serde::{Deserialize, Serialize};

pub struct C06;

#[derive(Clone, Debug, Serialize, Deserialize)]
pub enum RaySpec {
    /// arbitrary origin and direction
    Generic { o: P2, d: P2 },
    /// passes exactly through vertex i: origin = v_i - k*d
    ThroughVertex { i: u16, d: P2, k: i8 },
    /// passes through vertices i and j: origin = v_i - k*(v_j - v_i)
    ThroughTwo { i: u16, j: u16, k: i8 },
    /// axis parallel through (or offset from) vertex i
    Axis { i: u16, horizontal: bool, back: i8, off: i8, len: i8 },
    /// nearly parallel to edge i (angle eps), starting near the edge
    NearParallel { i: u16, eps: f64, off: P2 },
    /// crossing edge i at the fraction `along` of its length, at an angle eps (1e-10.5..1e-7) to it, with a direction of
    /// length dlen whatever the length of the edge: one input mixing very different magnitudes when the edge is long
    NearParallelLong { i: u16, eps: f64, along: f64, dlen: f64, back: f64 },
}

#[derive(Clone, Debug, Serialize, Deserialize)]
pub struct Case {
    pub lattice: bool,
    pub pts: Vec<P2>,
    pub closed: bool,
    pub rays: Vec<RaySpec>,
    /// float regime: every x coordinate multiplied by this (long, nearly horizontal edges among short ones)
    #[serde(default = "one")]
    pub xstretch: f64,
}

fn one() -> f64 {
    1.0
}

fn lattice_poly(nmax: usize) -> BoxedStrategy<Vec<P2>> {
    (6usize..=nmax, prop::collection::vec((-3i32..=3, -3i32..=3), nmax), prop::sample::select(vec![1.0, 0.125, 4.0]), (-20i32..=20, -20i32..=20))
        .prop_map(|(n, steps, unit, start)| {
            let mut p = [start.0, start.1];
            let mut out: Vec<P2> = vec![];
            for s in steps.iter().take(n) {
                out.push([p[0] as f64 * unit, p[1] as f64 * unit]);
                let mut s = *s;
                if s == (0, 0) {
                    s = (1, 0);
                }
                p = [(p[0] + s.0).clamp(-60, 60), (p[1] + s.1).clamp(-60, 60)];
            }
            out.dedup();
            out
        })
        .boxed()
}

fn ray_spec(lattice: bool) -> BoxedStrategy<RaySpec> {
    let ivec = || (-4i32..=4, -4i32..=4).prop_map(|(x, y)| if (x, y) == (0, 0) { [1.0, 0.0] } else { [x as f64, y as f64] });
    if lattice {
        prop_oneof![
            3 => ((-70i32..=70, -70i32..=70), ivec()).prop_map(|(o, d)| RaySpec::Generic { o: [o.0 as f64, o.1 as f64], d }),
            3 => (any::<u16>(), ivec(), -6i8..=6).prop_map(|(i, d, k)| RaySpec::ThroughVertex { i, d, k }),
            2 => (any::<u16>(), any::<u16>(), -3i8..=3).prop_map(|(i, j, k)| RaySpec::ThroughTwo { i, j, k }),
            2 => (any::<u16>(), any::<bool>(), -8i8..=8, -2i8..=2, prop::sample::select(vec![-2i8, -1, 1, 2, 3])).prop_map(|(i, horizontal, back, off, len)| RaySpec::Axis { i, horizontal, back, off, len }),
        ]
        .boxed()
    } else {
        let fvec = || (unif(-std::f64::consts::PI, std::f64::consts::PI), logu(-2.0, 2.0)).prop_map(|(a, l)| [l * a.cos(), l * a.sin()]);
        prop_oneof![
            4 => (p2(1.5), fvec()).prop_map(|(o, d)| RaySpec::Generic { o, d }),
            2 => (any::<u16>(), fvec(), -3i8..=3).prop_map(|(i, d, k)| RaySpec::ThroughVertex { i, d, k }),
            1 => (any::<u16>(), any::<u16>(), -2i8..=2).prop_map(|(i, j, k)| RaySpec::ThroughTwo { i, j, k }),
            1 => (any::<u16>(), any::<bool>(), -8i8..=8, -2i8..=2, prop::sample::select(vec![-2i8, -1, 1, 2, 3])).prop_map(|(i, horizontal, back, off, len)| RaySpec::Axis { i, horizontal, back, off, len }),
            2 => (any::<u16>(), logu(-9.0, -3.0), p2(0.05)).prop_map(|(i, eps, off)| RaySpec::NearParallel { i, eps, off }),
            1 => (any::<u16>(), logu(-10.5, -7.0), unif(0.2, 0.8), logu(-0.5, 0.5), unif(0.05, 0.4)).prop_map(|(i, eps, along, dlen, back)| RaySpec::NearParallelLong { i, eps, along, dlen, back }),
        ]
        .boxed()
    }
}

impl Property for C06 {
    type Case = Case;
    const ID: &'static str = "C06";
    fn rule() -> &'static str {
        "a case is a polyline (5-400 edges quick, up to 5000 thorough; lattice regime: integer / dyadic coordinates, exactly representable; float regime: 7 shapes incl. flat axis-aligned runs, long-thin, spirals) with 8-40 rays (generic; through one vertex; through two vertices / along an edge's supporting line; axis-parallel with a zero direction component; nearly parallel to an edge at 1e-9..1e-3 rad, and at 1e-10.5..1e-7 rad with a direction of fixed length crossing the edge well inside it (a fifth of the float polylines are stretched 1e2..3e3 times along x, so such edges are long); origins inside, outside, behind). Oracle: per-edge 2x2 solve written in the harness. Non-trivial: at least one robust hit on an edge with index >= 4 of a polyline with >= 16 edges. Distinct = distinct canonical JSON."
    }
    fn cases(t: Tier) -> u32 {
        t.pick(240_000, 2_000_000)
    }
    fn expected_labels() -> Vec<&'static str> {
        vec!["lattice", "float", "closed", "negative_t_hit", "zero_dir_component", "through_vertex", "near_parallel", "spanning_some", "spanning_none", "boundary_hit_exact", "many_edges", "no_hits", "near_parallel_fixed_length_direction", "stretched_along_x"]
    }
    fn strategy(t: Tier) -> BoxedStrategy<Case> {
        let nmax = t.pick(400, 5000);
        let lat = (lattice_poly(nmax.min(600)), any::<bool>(), prop::collection::vec(ray_spec(true), 8..40)).prop_map(|(pts, closed, rays)| Case { lattice: true, pts, closed, rays, xstretch: 1.0 });
        let flt = (prop_oneof![6 => polyline2(6, 120, 1.0), 1 => polyline2(120, nmax, 1.0)], any::<bool>(), prop::collection::vec(ray_spec(false), 8..40), prop_oneof![4 => Just(1.0), 1 => logu(2.0, 3.5)]).prop_map(|((_, pts), closed, rays, xstretch)| Case { lattice: false, pts, closed, rays, xstretch });
        prop_oneof![lat, flt].boxed()
    }
    fn check(case: &Case) -> Verdict {
        check(case)
    }
}

fn cross(a: &Vector2, b: &Vector2) -> f64 {
    a.x * b.y - a.y * b.x
}

fn build_ray(spec: &RaySpec, v: &[Point2], unit: f64) -> Option<(Point2, Vector2)> {
    let n = v.len();
    let (o, d) = match spec {
        RaySpec::Generic { o, d } => (pt2(o), crate::gen::v2(d)),
        RaySpec::ThroughVertex { i, d, k } => {
            let d = crate::gen::v2(d) * if unit > 0.0 { unit } else { 1.0 };
            (v[idx(*i, n)] - d * (*k as f64), d)
        }
        RaySpec::ThroughTwo { i, j, k } => {
            let a = v[idx(*i, n)];
            let b = v[idx(*j, n)];
            let d = b - a;
            (a - d * (*k as f64), d)
        }
        RaySpec::Axis { i, horizontal, back, off, len } => {
            let u = if unit > 0.0 { unit } else { 0.05 };
            let p = v[idx(*i, n)];
            if *horizontal {
                (Point2::new(p.x - *back as f64 * u, p.y + *off as f64 * u), Vector2::new(*len as f64 * u, 0.0))
            } else {
                (Point2::new(p.x + *off as f64 * u, p.y - *back as f64 * u), Vector2::new(0.0, *len as f64 * u))
            }
        }
        RaySpec::NearParallelLong { i, eps, along, dlen, back } => {
            let k = idx(*i, n - 1);
            let e = v[k + 1] - v[k];
            let en = e.norm();
            if en < 1e-9 {
                return None;
            }
            let (s, c) = eps.sin_cos();
            let u = Vector2::new(e.x * c - e.y * s, e.x * s + e.y * c) / en;
            let p = v[k] + e * *along;
            (p - u * (*back * en), u * *dlen)
        }
        RaySpec::NearParallel { i, eps, off } => {
            let k = idx(*i, n - 1);
            let e = v[k + 1] - v[k];
            let (s, c) = eps.sin_cos();
            let d = Vector2::new(e.x * c - e.y * s, e.x * s + e.y * c);
            (v[k] + crate::gen::v2(off) - d * 0.5, d)
        }
    };
    if d.norm() < 1e-9 || !d.x.is_finite() || !d.y.is_finite() {
        return None;
    }
    Some((o, d))
}

#[derive(Clone, Copy, PartialEq, Debug)]
enum Class {
    Required,
    DontCare,
    Miss,
}

fn check(case: &Case) -> Verdict {
    let mut cx = Ctx::new();
    cx.label(if case.lattice { "lattice" } else { "float" });
    let mut pts = crate::oracle::to_p2(&case.pts);
    if !case.lattice && case.xstretch != 1.0 {
        for p in pts.iter_mut() {
            p.x *= case.xstretch;
        }
        cx.label("stretched_along_x");
    }
    pts.dedup_by(|a, b| (*a - *b).norm() <= 1e-7);
    if pts.len() < 6 {
        return Verdict::Discard("too few vertices");
    }
    if case.closed && (pts[0] - pts[pts.len() - 1]).norm() > 1e-7 {
        pts.push(pts[0]);
    }
    cx.label_if(case.closed, "closed");
    let curve = match Curve2::from_points(&pts, 1e-9, false) {
        Ok(c) => c,
        Err(e) => return Verdict::fail("C06/from_points/rejected_valid", format!("{e}")),
    };
    let v: Vec<Point2> = curve.points().to_vec();
    let n = v.len();
    if v != pts {
        return Verdict::Discard("de-duplication changed the polyline");
    }
    let poly = Polyline::new(v.clone(), None);
    let scale = v.iter().fold(0.0f64, |m, p| m.max(p.x.abs()).max(p.y.abs())).max(1e-3);
    // lattice unit for constructing exactly representable rays
    let unit = if case.lattice {
        let mut u = 4.0;
        for p in &v {
            for c in [p.x, p.y] {
                while c != 0.0 && (c / u).fract() != 0.0 {
                    u /= 2.0;
                }
            }
        }
        u.min(1.0)
    } else {
        0.0
    };
    cx.label_if(n - 1 >= 100, "many_edges");
    let delta = 1e-9;
    let mut nontrivial = false;
    for spec in &case.rays {
        let Some((o, d)) = build_ray(spec, &v, unit) else { continue };
        cx.label_if(d.x == 0.0 || d.y == 0.0, "zero_dir_component");
        cx.label_if(matches!(spec, RaySpec::ThroughVertex { .. } | RaySpec::ThroughTwo { .. }), "through_vertex");
        cx.label_if(matches!(spec, RaySpec::NearParallel { .. }), "near_parallel");
        let long = matches!(spec, RaySpec::NearParallelLong { .. });
        cx.label_if(long, "near_parallel_fixed_length_direction");
        let ray = Ray::new(o, d);
        let got = match guarded(|| curve.ray_intersections(&ray)) {
            Ok(g) => g,
            Err(m) => return Verdict::fail("C06/ray_intersections/panic", format!("panic: {m}; ray o={:?} d={:?}", o, d)),
        };
        let dn = d.norm();
        // harness per-edge solve
        let mut classes = vec![Class::Miss; n - 1];
        let mut ts = vec![0.0f64; n - 1];
        let mut us = vec![0.0f64; n - 1];
        let mut kk = vec![1.0f64; n - 1];
        for i in 0..n - 1 {
            let e = v[i + 1] - v[i];
            let det = cross(&d, &e);
            let w = v[i] - o;
            let en = e.norm();
            let sin = det.abs() / (dn * en);
            // (for the fixed-length near-parallel family the crossing is constructed well inside the edge, so the decision is
            // safe down to 1e-11 as long as the determinant is a hundred times the library's threshold)
            if (!long && (sin < 1e-9 || det.abs() < 1e-11)) || (long && (sin < 1e-11 || det.abs() < 1e-10)) {
                // (nearly) parallel: the library's own threshold is an absolute 1e-12 on the determinant
                classes[i] = Class::DontCare;
                let _ = w;
                ts[i] = f64::NAN;
                continue;
            }
            let t = cross(&w, &e) / det;
            let u = cross(&w, &d) / det;
            ts[i] = t;
            us[i] = u;
            let k = (1e-7 / sin).max(1.0);
            kk[i] = k;
            let band = if long { (100.0 * delta * k).min(0.15) } else { delta * k };
            classes[i] = if u >= band && u <= 1.0 - band {
                Class::Required
            } else if u >= -band && u <= 1.0 + band {
                // boundary: exactly decided in the lattice regime (equal rationals round equally)
                if case.lattice && (u == 0.0 || u == 1.0) {
                    cx.label("boundary_hit_exact");
                    Class::Required
                } else {
                    Class::DontCare
                }
            } else {
                Class::Miss
            };
        }
        // soundness
        for (t, i) in &got {
            ensure!(*i < n - 1, "C06/ray_intersections/edge_index", "edge index {i} with {} edges", n - 1);
            ensure!(t.is_finite(), "C06/ray_intersections/non_finite", "non-finite parameter reported for edge {i}");
            if ts[*i].is_nan() {
                continue;
            }
            let k = kk[*i];
            ensure!(classes[*i] != Class::Miss, "C06/ray_intersections/unsound/edge_not_crossed", "reported (t={t:e}, edge {i}) but the line meets that edge's supporting line at u={:e} outside [0,1]; ray o={:?} d={:?}, edge {:?}->{:?}", us[*i], o, d, v[*i], v[*i + 1]);
            ensure!((t - ts[*i]).abs() <= 1e-9 * k * (1.0 + ts[*i].abs()), "C06/ray_intersections/unsound/parameter", "reported t={t:e} for edge {i}, harness solve gives {:e}; ray o={:?} d={:?}", ts[*i], o, d);
        }
        // ascending, de-duplicated
        for w in got.windows(2) {
            ensure!(w[1].0 - w[0].0 >= 1e-8 * (1.0 - 1e-6), "C06/ray_intersections/order", "parameters not ascending / de-duplicated: {:e} then {:e}", w[0].0, w[1].0);
        }
        // completeness
        let mut any_required = false;
        for i in 0..n - 1 {
            if classes[i] == Class::Required {
                any_required = true;
                let t = ts[i];
                let tol = 1e-8 + 1e-9 * kk[i] * (1.0 + t.abs());
                ensure!(got.iter().any(|(g, _)| (g - t).abs() <= tol), if us[i] == 0.0 || us[i] == 1.0 { "C06/ray_intersections/missed/through_vertex" } else { "C06/ray_intersections/missed/interior" }, "the line crosses edge {i} ({:?}->{:?}) at t={t:e}, u={:e} but no reported parameter is near it; reported {:?}; ray o={:?} d={:?}; {} edges", v[i], v[i + 1], us[i], got.iter().map(|g| g.0).collect::<Vec<_>>(), o, d, n - 1);
                cx.label_if(t < 0.0, "negative_t_hit");
                if i >= 4 && n - 1 >= 16 {
                    nontrivial = true;
                }
            }
        }
        cx.label_if(!any_required && got.is_empty(), "no_hits");
        // derived: spanning ray
        let ambiguous = classes.iter().any(|c| *c == Class::DontCare);
        let mut req: Vec<f64> = (0..n - 1).filter(|i| classes[*i] == Class::Required).map(|i| ts[i]).collect();
        req.sort_by(|a, b| a.partial_cmp(b).unwrap());
        let mut distinct: Vec<f64> = vec![];
        let mut close_pair = false;
        for t in &req {
            match distinct.last() {
                Some(l) if (t - l).abs() < 0.5e-8 => {}
                Some(l) if (t - l).abs() < 2e-8 => close_pair = true,
                _ => distinct.push(*t),
            }
        }
        let sr = match guarded(|| curve.try_create_spanning_ray(&ray)) {
            Ok(s) => s,
            Err(m) => return Verdict::fail("C06/spanning_ray/panic", m),
        };
        if !ambiguous && !close_pair {
            ensure!(got.len() == distinct.len(), "C06/ray_intersections/count", "{} parameters reported, harness finds {} distinct crossings {:?}; reported {:?}", got.len(), distinct.len(), distinct, got);
            ensure!(sr.is_some() == (distinct.len() == 2), "C06/spanning_ray/iff_two_crossings", "spanning ray is_some={} with {} crossings", sr.is_some(), distinct.len());
            if let Some(s) = &sr {
                let r = s.ray();
                let a = o + d * distinct[0];
                let b = o + d * distinct[1];
                let tol = 1e-8 * dn + 1e-9 * scale * kk.iter().cloned().fold(1.0, f64::max).min(1e3);
                ensure!((r.origin - a).norm() <= tol && (r.origin + r.dir - b).norm() <= tol, "C06/spanning_ray/ends", "spanning ray {:?}->{:?}, crossings at {:?} and {:?}", r.origin, r.origin + r.dir, a, b);
                ensure!(r.dir.dot(&d) > 0.0 && cross(&r.dir, &d).abs() <= (1e-9 * r.dir.norm() + 16.0 * ulp(scale + o.coords.norm())) * dn, "C06/spanning_ray/direction", "spanning ray direction {:?} vs query {:?}", r.dir, d);
                cx.label("spanning_some");
            } else {
                cx.label("spanning_none");
            }
        }
        // spanning ray is always consistent with the reported list
        ensure!(sr.is_some() == (got.len() == 2), "C06/spanning_ray/consistent_with_list", "spanning ray is_some={} but {} intersections reported", sr.is_some(), got.len());
        // max_intersection
        let mi = max_intersection(&poly, &ray);
        match (mi, got.last()) {
            (Some(m), Some(l)) => ensure!(m == l.0, "C06/max_intersection/value", "max_intersection {m:e} != last reported {:e}", l.0),
            (None, None) => {}
            _ => return Verdict::fail("C06/max_intersection/some_iff_hits", format!("max_intersection is_some={} with {} intersections", mi.is_some(), got.len())),
        }
        if !ambiguous && !distinct.is_empty() {
            let m = mi.unwrap_or(f64::NAN);
            let exp = *distinct.last().unwrap();
            ensure!((m - exp).abs() <= 2e-8 + 1e-6 * (1.0 + exp.abs()), "C06/max_intersection/exhaustive", "max_intersection {m:e}, exhaustive maximum {exp:e}");
        }
        // farthest projected vertex
        let f = farthest_point_direction_distance(&poly, &ray);
        let exp = v.iter().map(|p| (p - o).dot(&d) / dn).fold(f64::NEG_INFINITY, f64::max);
        ensure!((f - exp).abs() <= 1e-12 * (scale + (o.coords.norm())) + 1e-12 * exp.abs(), "C06/farthest_point_direction_distance", "got {f:e}, exhaustive {exp:e}");
        // Curve2 x SurfacePoint2: intersections along the normal line
        let sp = SurfacePoint2::new_normalize(o, d);
        let via: Vec<f64> = curve.intersection(&sp);
        let nray = Ray::new(sp.point, sp.normal.into_inner());
        let direct: Vec<f64> = curve.ray_intersections(&nray).iter().map(|x| x.0).collect();
        ensure!(via == direct, "C06/curve_x_surface_point", "Curve2 x SurfacePoint2 gives {:?}, ray_intersections along the normal gives {:?}", via, direct);
    }
    // history: a curve that has just been queried is replaced IN PLACE (same variable, same address) by a moved copy and
    // asked the same line again; nothing remembered about the previous occupant may be reused.  The expected answers
    // come from an independently held copy of the moved curve, computed before the sequence starts.
    {
        let iso = engeom::Iso2::new(Vector2::new(0.37 * scale + 0.5, -0.21 * scale - 0.25), 0.3);
        let moved = curve.transformed_by(&iso);
        let rays: Vec<Ray> = case.rays.iter().filter_map(|spec| build_ray(spec, &v, unit)).map(|(o, d)| Ray::new(o, d)).take(6).collect();
        let expect: Vec<(Vec<(f64, usize)>, Option<(Point2, Vector2)>)> = rays.iter().map(|r| (moved.ray_intersections(r), moved.try_create_spanning_ray(r).map(|s| (s.ray().origin, s.ray().dir)))).collect();
        let mut slot = curve.clone();
        for (ray, (hits, span)) in rays.iter().zip(expect.iter()) {
            slot = curve.clone();
            let _ = slot.ray_intersections(ray);
            let _ = slot.try_create_spanning_ray(ray);
            slot = moved.clone();
            let sr = slot.try_create_spanning_ray(ray).map(|s| (s.ray().origin, s.ray().dir));
            ensure!(sr == *span, "C06/history/spanning_ray_of_previous_occupant", "after the curve was replaced in place by a moved copy, try_create_spanning_ray gives {:?}; an independent copy of the moved curve gives {:?}", sr, span);
            let h = slot.ray_intersections(ray);
            ensure!(h == *hits, "C06/history/intersections_of_previous_occupant", "after the curve was replaced in place, ray_intersections gives {:?}, an independent copy gives {:?}", h, hits);
        }
        let _ = &slot;
        cx.label_if(!rays.is_empty(), "history_replaced_in_place");
    }
    if nontrivial {
        cx.nontrivial();
    }
    cx.pass()
}
