//! C02 — Closest-point and distance queries return the global optimum

use crate::ensure;
use crate::fw::*;
use crate::gen::*;
use crate::gen_mesh::*;
use crate::oracle::{tri_normal, Pt};
use proptest::prelude::*;
use serde::{Deserialize, Serialize};
use std::f64::consts::PI;

pub struct C02;

#[derive(Clone, Debug, Serialize, Deserialize)]
pub enum CQ {
    /// on edge i at fraction f, then offset by d along a direction
    Near { i: u16, f: f64, dir: f64, d: f64 },
    OnVertex(u16),
    Far(P3),
}

#[derive(Clone, Debug, Serialize, Deserialize)]
pub enum Case {
    Curve2 { spec: Curve2Spec, queries: Vec<CQ> },
    Curve3 { spec: Curve3Spec, queries: Vec<CQ> },
    /// exp2: mesh and queries rescaled together by 2^exp2 (exact)
    Mesh { spec: MeshSpec, solid: bool, queries: Vec<Query>, cap: f64, ang: f64, tf: Iso3D, #[serde(default)] exp2: i32 },
}

fn cq() -> BoxedStrategy<CQ> {
    prop_oneof![
        5 => (any::<u16>(), unif(0.0, 1.0), unif(0.0, 2.0 * PI), prop_oneof![logu(-6.0, 0.5), Just(0.0)]).prop_map(|(i, f, dir, d)| CQ::Near { i, f, dir, d }),
        1 => any::<u16>().prop_map(CQ::OnVertex),
        1 => p3(4.0).prop_map(CQ::Far),
    ]
    .boxed()
}

impl Property for C02 {
    type Case = Case;
    const ID: &'static str = "C02";
    fn rule() -> &'static str {
        "cases: 2D/3D polylines (2-200 vertices quick, 400 thorough; long-thin, spirals, dense-then-sparse, lattice paths with self-touching) or meshes (grids with random diagonals, L-shapes, tubes, fans, boxes, octahedra, icospheres, tori, prisms; shuffled numbering; any pose; 2-600 faces; a third rescaled as a whole, queries included, by 2^-30..2^20 as long as every doubled face area stays above 1e-15) with 10-40 query points constructed on an element, offset from it (1e-6..3 scale), near vertices/creases, or far away; plus a distance cap and an angle (0.05..pi, incl. exactly pi/2 and pi) for the filtered projections. Oracle: exhaustive scan over all edges/faces in the harness (own point-segment and Ericson point-triangle routines). Non-trivial: >= 8 elements and the optimum is not attained on element 0. Distinct = distinct canonical JSON."
    }
    fn cases(t: Tier) -> u32 {
        t.pick(200_000, 1_500_000)
    }
    fn expected_labels() -> Vec<&'static str> {
        vec!["curve2", "curve3", "mesh", "on_entity", "vertex_region", "edge_region", "face_region", "cap_inside", "cap_outside", "angle_accept", "angle_reject", "solid", "closed_mesh", "open_mesh"]
    }
    fn strategy(t: Tier) -> BoxedStrategy<Case> {
        let nmax = t.pick(200, 400);
        let gmax = t.pick(14, 18);
        prop_oneof![
            2 => (curve2_spec_fine(2, nmax, -2.0, 2.0), prop::collection::vec(cq(), 10..40)).prop_map(|(spec, queries)| Case::Curve2 { spec, queries }),
            1 => (curve3_spec(2, nmax, -2.0, 2.0, false), prop::collection::vec(cq(), 10..40)).prop_map(|(spec, queries)| Case::Curve3 { spec, queries }),
            3 => (clean_mesh(prop_oneof![3 => open_kind(gmax), 2 => closed_kind(2)].boxed(), 10.0), prop::bool::weighted(0.2), prop::collection::vec(query(), 10..40), logu(-2.0, 0.5), prop_oneof![4 => unif(0.05, PI / 2.0), 2 => unif(PI / 2.0, PI), 1 => prop::sample::select(vec![PI / 2.0, PI, 3.0])], iso3(3.0), prop_oneof![2 => Just(0i32), 1 => -30i32..=20])
                .prop_map(|(spec, solid, queries, cap, ang, tf, exp2)| Case::Mesh { spec, solid, queries, cap, ang, tf, exp2 }),
        ]
        .boxed()
    }
    fn check(case: &Case) -> Verdict {
        match case {
            Case::Curve2 { spec, queries } => curve2(spec, queries),
            Case::Curve3 { spec, queries } => curve3(spec, queries),
            Case::Mesh { spec, solid, queries, cap, ang, tf, exp2 } => mesh(spec, *solid, queries, *cap, *ang, tf, *exp2),
        }
    }
}

struct StationView<const D: usize> {
    point: Pt<D>,
    index: usize,
    fraction: f64,
    length_along: f64,
    dir: crate::oracle::Vc<D>,
}

fn check_curve_query<const D: usize>(cx: &mut Ctx, dim: &str, model: &crate::oracle::Poly<D>, lens: &[f64], q: &Pt<D>, st: &StationView<D>, dist_to_point: f64) -> Result<bool, Failure> {
    let scale = model.scale() + q.coords.amax();
    let tol = 1e-9 * scale;
    let (dstar, _, e0, _) = model.closest(q);
    let n = model.n();
    crate::ensure_r!(st.index < n - 1, format!("C02/{dim}/edge_index"), "edge index {} with {} edges", st.index, n - 1);
    crate::ensure_r!(st.fraction >= -1e-12 && st.fraction <= 1.0 + 1e-12, format!("C02/{dim}/fraction_range"), "fraction {:e}", st.fraction);
    let lerp = model.v[st.index] + (model.v[st.index + 1] - model.v[st.index]) * st.fraction;
    crate::ensure_r!((lerp - st.point).norm() <= tol, format!("C02/{dim}/index_fraction_reproduce_point"), "edge {} fraction {:e} gives {:?}, reported point {:?}", st.index, st.fraction, lerp, st.point);
    let d = (st.point - q).norm();
    crate::ensure_r!((d - dstar).abs() <= tol, format!("C02/{dim}/not_global_optimum"), "reported closest point is {d:e} from the query, but an exhaustive scan finds edge {e0} at {dstar:e} (query {:?}, reported edge {})", q, st.index);
    crate::ensure_r!((dist_to_point - dstar).abs() <= tol, format!("C02/{dim}/dist_to_point"), "dist_to_point = {dist_to_point:e}, exhaustive {dstar:e}");
    let la = lens[st.index] + st.fraction * (lens[st.index + 1] - lens[st.index]);
    crate::ensure_r!((st.length_along - la).abs() <= 1e-9 * (1.0 + lens[n - 1]), format!("C02/{dim}/length_along"), "length_along {:e} vs index/fraction {la:e}", st.length_along);
    let e = (model.v[st.index + 1] - model.v[st.index]).normalize();
    crate::ensure_r!((e - st.dir).norm() <= 1e-9, format!("C02/{dim}/direction"), "direction {:?} is not the direction of edge {} {:?}", st.dir, st.index, e);
    cx.label_if(dstar <= tol, "on_entity");
    Ok(n - 1 >= 8 && model.dist_to_edge(0, q) > dstar + tol)
}

fn resolve_cq<const D: usize>(c: &CQ, model: &crate::oracle::Poly<D>) -> Pt<D> {
    let n = model.n();
    match c {
        CQ::Near { i, f, dir, d } => {
            let k = idx(*i, n - 1);
            let p = model.v[k] + (model.v[k + 1] - model.v[k]) * *f;
            let s = model.len() / (n as f64);
            let mut off = crate::oracle::Vc::<D>::zeros();
            off[0] = dir.cos();
            off[1] = dir.sin();
            if D > 2 {
                off[2] = (dir * 3.0).sin();
            }
            p + off * (*d * s)
        }
        CQ::OnVertex(i) => model.v[idx(*i, n)],
        CQ::Far(p) => {
            let s = model.scale();
            let mut q = Pt::<D>::origin();
            for k in 0..D {
                q[k] = p[k] * s;
            }
            q
        }
    }
}

fn curve2(spec: &Curve2Spec, queries: &[CQ]) -> Verdict {
    let mut cx = Ctx::new();
    cx.label("curve2");
    let b = match spec.build() {
        Ok(Some(b)) => b,
        Ok(None) => return Verdict::Discard("degenerate polyline"),
        Err(e) => return Verdict::fail("C02/from_points/rejected_valid", e),
    };
    cx.label_if(b.input.len() > b.expected.len() + 4, "fine_sampled_run");
    let lens = b.curve.lengths().clone();
    let mut nt = false;
    for c in queries {
        let q = resolve_cq(c, &b.model);
        let s = b.curve.at_closest_to_point(&q);
        let sv = StationView { point: s.point(), index: s.index(), fraction: s.fraction(), length_along: s.length_along(), dir: s.direction().into_inner() };
        match check_curve_query(&mut cx, "curve2", &b.model, &b.model.cum, &q, &sv, b.curve.dist_to_point(&q)) {
            Ok(x) => nt |= x,
            Err(f) => return Verdict::Fail(f),
        }
    }
    // derived curves (the same object reversed, moved, and moved again) answer for their own vertices: their spatial
    // structure and length table are rebuilt, nothing of the source's survives
    {
        let iso = engeom::Iso2::new(engeom::Vector2::new(0.31 * b.model.scale() + 0.2, -0.17 * b.model.scale()), 0.45);
        let rev = b.curve.reversed();
        let mv = b.curve.transformed_by(&iso);
        let mv2 = mv.transformed_by(&iso);
        for (name, d, qmap) in [("reversed", &rev, 0u8), ("moved", &mv, 1), ("moved_twice", &mv2, 2)] {
            let model = crate::oracle::Poly::new(d.points().to_vec());
            for c in queries.iter().take(6) {
                let q0 = resolve_cq(c, &b.model);
                let q = match qmap { 0 => q0, 1 => iso * q0, _ => iso * (iso * q0) };
                let s = d.at_closest_to_point(&q);
                let sv = StationView { point: s.point(), index: s.index(), fraction: s.fraction(), length_along: s.length_along(), dir: s.direction().into_inner() };
                if let Err(f) = check_curve_query(&mut cx, &format!("curve2/derived_{name}"), &model, &model.cum, &q, &sv, d.dist_to_point(&q)) {
                    return Verdict::Fail(f);
                }
            }
        }
        cx.label("derived_curves");
    }
    if nt {
        cx.nontrivial();
    }
    cx.pass()
}

fn curve3(spec: &Curve3Spec, queries: &[CQ]) -> Verdict {
    let mut cx = Ctx::new();
    cx.label("curve3");
    let b = match spec.build() {
        Ok(Some(b)) => b,
        Ok(None) => return Verdict::Discard("degenerate polyline"),
        Err(e) => return Verdict::fail("C02/from_points/rejected_valid", e),
    };
    let lens = b.curve.lengths().to_vec();
    let mut nt = false;
    for c in queries {
        let q = resolve_cq(c, &b.model);
        let s = b.curve.at_closest_to_point(&q);
        let sv = StationView { point: s.point(), index: s.index(), fraction: s.fraction(), length_along: s.length_along(), dir: s.direction().into_inner() };
        match check_curve_query(&mut cx, "curve3", &b.model, &b.model.cum, &q, &sv, b.curve.dist_to_point(&q)) {
            Ok(x) => nt |= x,
            Err(f) => return Verdict::Fail(f),
        }
    }
    {
        let iso = engeom::Iso3::new(engeom::Vector3::new(0.31 * b.model.scale() + 0.2, -0.17 * b.model.scale(), 0.05), engeom::Vector3::new(0.2, -0.3, 0.45));
        let mv = b.curve.transformed_by(&iso);
        let mv2 = mv.transformed_by(&iso);
        for (name, d, twice) in [("moved", &mv, false), ("moved_twice", &mv2, true)] {
            let model = crate::oracle::Poly::new(d.points().to_vec());
            for c in queries.iter().take(6) {
                let q0 = resolve_cq(c, &b.model);
                let q = if twice { iso * (iso * q0) } else { iso * q0 };
                let s = d.at_closest_to_point(&q);
                let sv = StationView { point: s.point(), index: s.index(), fraction: s.fraction(), length_along: s.length_along(), dir: s.direction().into_inner() };
                if let Err(f) = check_curve_query(&mut cx, &format!("curve3/derived_{name}"), &model, &model.cum, &q, &sv, d.dist_to_point(&q)) {
                    return Verdict::Fail(f);
                }
            }
        }
        cx.label("derived_curves");
    }
    if nt {
        cx.nontrivial();
    }
    cx.pass()
}

fn mesh(spec: &MeshSpec, solid: bool, queries: &[Query], cap_rel: f64, ang: f64, tf: &Iso3D, exp2: i32) -> Verdict {
    let mut cx = Ctx::new();
    cx.label("mesh");
    let Some(mut bm) = spec.build() else { return Verdict::Discard("empty mesh") };
    // queries are constructed on the mesh as generated; mesh and queries are then rescaled together (exactly)
    let unit = 2f64.powi(exp2);
    let resolved: Vec<engeom::Point3> = queries.iter().map(|q| engeom::Point3::from(q.resolve(&bm).coords * unit)).collect();
    for p in bm.v.iter_mut() {
        *p = engeom::Point3::from(p.coords * unit);
    }
    cx.label_if(exp2 < -13, "unit_below_1e-4");
    cx.label_if(exp2 > 10, "unit_above_1e3");
    let soup = bm.soup();
    // degenerate faces excluded (the library unwraps the face normal)
    for i in 0..soup.f.len() {
        let (a, b, c) = soup.tri(i);
        let (e0, e1, e2) = ((b - a).norm(), (c - b).norm(), (a - c).norm());
        let lmax = e0.max(e1).max(e2);
        if crate::oracle::tri_area(&a, &b, &c) < 1e-6 * lmax * lmax {
            return Verdict::Discard("degenerate face");
        }
        // parry's Triangle::normal() declines faces whose doubled area is at most f64::EPSILON (absolute) and the library
        // unwraps it, here and in a dozen other places: such faces are "degenerate" by the dependency's own definition
        if 2.0 * crate::oracle::tri_area(&a, &b, &c) < 1e-15 {
            return Verdict::Discard("face below the dependency's absolute degeneracy threshold");
        }
    }
    let m = bm.mesh(solid);
    let size = soup.size();
    let scale = size + soup.max_abs();
    let tol = 1e-9 * scale;
    let cap = cap_rel * size;
    cx.label_if(solid, "solid");
    cx.label(if bm.topo.closed { "closed_mesh" } else { "open_mesh" });
    let mut nt = false;
    let mut iso = tf.to_iso();
    iso.translation.vector *= unit;
    let mut pts = vec![];
    let mut expect_in_tol: Vec<Option<bool>> = vec![];
    let mut accepted_single: Vec<bool> = vec![];
    for q in resolved {
        let (dstar, _, f0) = soup.closest(&q);
        let sp = match guarded(|| m.surf_closest_to(&q)) {
            Ok(s) => s,
            Err(msg) => return Verdict::fail("C02/mesh/surf_closest_to/panic", msg),
        };
        let pc = m.point_closest_to(&q);
        ensure!((pc - sp.point).norm() <= tol, "C02/mesh/point_closest_to_vs_surf", "point_closest_to {:?} differs from surf_closest_to {:?}", pc, sp.point);
        let d = (sp.point - q).norm();
        // faces attaining the optimum and containing the reported point
        let ties: Vec<usize> = (0..soup.f.len()).filter(|i| soup.dist_to_face(*i, &q) <= dstar + tol).collect();
        let inside_ok = solid && bm.topo.closed && d <= tol;
        if !inside_ok {
            ensure!((d - dstar).abs() <= tol, "C02/mesh/not_global_optimum", "reported closest point {:?} is {d:e} from the query {:?}, but face {f0} is at {dstar:e} ({} faces, solid={solid})", sp.point, q, soup.f.len());
            let on: Vec<usize> = ties.iter().cloned().filter(|i| soup.dist_to_face(*i, &sp.point) <= tol).collect();
            ensure!(!on.is_empty(), "C02/mesh/point_not_on_optimal_face", "reported point {:?} does not lie on any face attaining the minimum distance", sp.point);
            let nrm = sp.normal.into_inner();
            let ok = on.iter().any(|i| {
                let (a, b, c) = soup.tri(*i);
                tri_normal(&a, &b, &c).map(|n| (n - nrm).norm() <= 1e-7).unwrap_or(false)
            });
            ensure!(ok, "C02/mesh/normal_not_of_face", "reported normal {:?} is not the unit normal of a face containing the reported point (candidate faces {:?})", nrm, on);
        } else {
            cx.label("solid_interior_accepted");
        }
        cx.label_if(dstar <= tol, "on_entity");
        // region classification of the optimum on its face
        {
            let (a, b, c) = soup.tri(f0);
            let cp = crate::oracle::closest_on_triangle(&q, &a, &b, &c);
            let onv = [a, b, c].iter().any(|x| (x - cp).norm() <= tol);
            let one = [(a, b), (b, c), (c, a)].iter().any(|(p, r)| (crate::oracle::closest_on_segment(p, r, &cp).0 - cp).norm() <= tol);
            cx.label(if onv { "vertex_region" } else if one { "edge_region" } else { "face_region" });
        }
        if soup.f.len() >= 8 && soup.dist_to_face(0, &q) > dstar + tol {
            nt = true;
        }
        // capped projection
        let capped = match guarded(|| m.project_with_max_dist(&q, cap)) {
            Ok(c) => c,
            Err(msg) => return Verdict::fail("C02/mesh/project_with_max_dist/panic", msg),
        };
        let interior_solid = solid && bm.topo.closed;
        if (dstar - cap).abs() > tol && !interior_solid {
            let expect = dstar < cap;
            ensure!(capped.is_some() == expect, if expect { "C02/mesh/cap/missed" } else { "C02/mesh/cap/spurious" }, "project_with_max_dist(cap={cap:e}) is_some={} but the true distance is {dstar:e}", capped.is_some());
            cx.label(if expect { "cap_inside" } else { "cap_outside" });
        }
        if let (Some((prj, id, loc)), false) = (&capped, interior_solid) {
            ensure!((*id as usize) < soup.f.len(), "C02/mesh/cap/face_id", "face id {id} out of range");
            let (a, b, c) = soup.tri(*id as usize);
            if let Some(bc) = loc.barycentric_coordinates() {
                let r = a.coords * bc[0] + b.coords * bc[1] + c.coords * bc[2];
                ensure!((r - prj.point.coords).norm() <= tol, "C02/mesh/cap/barycentric_reproduce_point", "face {id} with barycentric {:?} gives {:?}, reported {:?}", bc, r, prj.point);
                ensure!(bc.iter().all(|x| *x >= -1e-9 && *x <= 1.0 + 1e-9) && (bc[0] + bc[1] + bc[2] - 1.0).abs() <= 1e-9, "C02/mesh/cap/barycentric_range", "barycentric {:?}", bc);
            }
            ensure!(((prj.point - q).norm() - dstar).abs() <= tol, "C02/mesh/cap/not_global_optimum", "capped projection at {:e}, exhaustive {dstar:e}", (prj.point - q).norm());
            ensure!(soup.dist_to_face(*id as usize, &q) <= dstar + tol, "C02/mesh/cap/face_not_optimal", "reported face {id} is at {:e}, optimum {dstar:e}", soup.dist_to_face(*id as usize, &q));
        }
        // angle-filtered projection: decided when every face attaining the optimum agrees
        let mut verdicts = BTreeSetBool::default();
        let mut banded = false;
        if (dstar - cap).abs() <= tol {
            banded = true;
        } else if dstar > cap {
            verdicts.insert(false);
        } else {
            // the foot point on the optimal faces
            for i in &ties {
                let (a, b, c) = soup.tri(*i);
                let foot = crate::oracle::closest_on_triangle(&q, &a, &b, &c);
                let local = q - foot;
                let n = tri_normal(&a, &b, &c).unwrap();
                if local.norm() <= 1e-7 * scale {
                    // on (or within rounding of) the surface: the offset has no direction, don't-care
                    banded = true;
                    continue;
                }
                let th = n.angle(&local);
                if (th - ang).abs() <= 1e-7 || (th - (PI - ang)).abs() <= 1e-7 {
                    banded = true;
                } else {
                    verdicts.insert(th < ang || th > PI - ang);
                }
            }
        }
        let expected = if banded || interior_solid { None } else { verdicts.single() };
        let got = match guarded(|| m.project_with_tol(&q, cap, ang, None)) {
            Ok(g) => g,
            Err(msg) => return Verdict::fail("C02/mesh/project_with_tol/panic", msg),
        };
        if let Some(e) = expected {
            ensure!(got.is_some() == e, if e { "C02/mesh/angle_filter/rejected_valid" } else { "C02/mesh/angle_filter/accepted_invalid" }, "project_with_tol(cap={cap:e}, angle={ang:e}) is_some={} for query {:?}: true distance {dstar:e}, {} optimal faces all {}", got.is_some(), q, ties.len(), if e { "within the angle" } else { "outside the angle or cap" });
            cx.label(if e { "angle_accept" } else { "angle_reject" });
        }
        // transform argument: applied to the point first
        let inv = iso.inverse();
        let qpre = inv * q;
        let via = m.project_with_tol(&qpre, cap, ang, Some(&iso));
        let qq = iso * qpre; // the point the library will actually see
        let direct = m.project_with_tol(&qq, cap, ang, None);
        ensure!(via.is_some() == direct.is_some(), "C02/mesh/project_with_tol/transform", "project_with_tol with Some(transform) disagrees with projecting the pre-transformed point");
        if let (Some(a), Some(b)) = (&via, &direct) {
            ensure!(a.0.point == b.0.point && a.1 == b.1, "C02/mesh/project_with_tol/transform", "project_with_tol with Some(transform) returns a different projection than the pre-transformed point");
        }
        pts.push(q);
        expect_in_tol.push(expected);
        accepted_single.push(got.is_some());
    }
    // indices_in_tol = indices of accepted points
    let idxs = m.indices_in_tol(&pts, cap, ang, None);
    ensure!(idxs.windows(2).all(|w| w[0] < w[1]) && idxs.iter().all(|i| *i < pts.len()), "C02/mesh/indices_in_tol/indices", "indices not ascending / out of range: {:?}", idxs);
    // the batch form is the single-point filter applied to each point: the same verdict for every point, including those on
    // the surface itself whose offset has no direction
    for (i, a) in accepted_single.iter().enumerate() {
        ensure!(idxs.contains(&i) == *a, "C02/mesh/indices_in_tol/differs_from_project_with_tol", "point {i} {:?}: project_with_tol accepts = {a}, indices_in_tol lists it = {} (cap {cap:e}, angle {ang:e})", pts[i], idxs.contains(&i));
    }
    for (i, e) in expect_in_tol.iter().enumerate() {
        if let Some(e) = e {
            ensure!(idxs.contains(&i) == *e, "C02/mesh/indices_in_tol/membership", "point {i} in result: {}, expected {e}", idxs.contains(&i));
        }
    }
    // history on the same object: it has answered queries; now it is moved in place, then a copy of the original is
    // appended to it; after each change it must answer for its current geometry
    {
        let mut hm = m;
        hm.transform(&iso);
        let moved = crate::oracle::Soup { v: soup.v.iter().map(|p| iso * p).collect(), f: soup.f.clone() };
        let qs: Vec<engeom::Point3> = pts.iter().map(|p| iso * p).collect();
        if let Err(f) = mesh_answers_for("C02/mesh/after_transform", &hm, &moved, &qs, solid && bm.topo.closed) {
            return Verdict::Fail(f);
        }
        cx.label("history_transform");
        let other = bm.mesh(solid);
        if hm.append(&other).is_ok() {
            let n0 = moved.v.len() as u32;
            let mut both = moved.clone();
            both.v.extend(soup.v.iter().cloned());
            both.f.extend(soup.f.iter().map(|t| [t[0] + n0, t[1] + n0, t[2] + n0]));
            let mut qs2 = qs.clone();
            qs2.extend(pts.iter().cloned());
            // two overlapping copies are not one closed solid: interior acceptance is not modelled, skip interior hits
            if let Err(f) = mesh_answers_for("C02/mesh/after_append", &hm, &both, &qs2, solid) {
                return Verdict::Fail(f);
            }
            cx.label("history_append");
        }
    }
    if nt {
        cx.nontrivial();
    }
    cx.pass()
}

#[derive(Default)]
struct BTreeSetBool {
    t: bool,
    f: bool,
}
impl BTreeSetBool {
    fn insert(&mut self, b: bool) {
        if b {
            self.t = true
        } else {
            self.f = true
        }
    }
    fn single(&self) -> Option<bool> {
        match (self.t, self.f) {
            (true, false) => Some(true),
            (false, true) => Some(false),
            _ => None,
        }
    }
}
