#!/bin/bash
# tools/seeded_par.sh [lanes] [tier] [name-regex]
# Regression of every seeded change in parallel lanes.  Each lane owns a scratch worktree of /repo and a scratch copy
# of the engine (under /tmp/seeded_lanes, removed at the end), so /repo itself is never touched.  Every case a check
# reports under a change is afterwards replayed against the unchanged /repo with the main engine: anything that still
# fails there is flagged FAILS-ON-UNCHANGED-TREE (a false alarm of the harness or a genuine defect).
# Results: one line per change on stdout and in seeded/<name>/meta.json under checks.regression.
set -u
ROOT="$(cd "$(dirname "$0")/.." && pwd)"
LANES="${1:-4}"; TIER="${2:-quick}"
BASE=/tmp/seeded_lanes
export CARGO_NET_OFFLINE=true
rm -rf "$BASE"; git -C /repo worktree prune
mkdir -p "$BASE/results"
names=( $(ls "$ROOT/seeded" | grep -E "${3:-.}") )
(cd "$ROOT" && ./check build >/dev/null 2>&1) || { echo "engine build failed"; exit 2; }

lane() {
    k="$1"
    L="$BASE/$k"
    mkdir -p "$L"
    git -C /repo worktree add --detach "$L/repo" HEAD -q || return 2
    rsync -a --exclude .git --exclude fuzz/target --exclude fuzz/work --exclude replays --exclude evidence "$ROOT/" "$L/verif/"
    sed -i "s#path = \"/repo\"#path = \"$L/repo\"#" "$L/verif/engine/Cargo.toml"
    i=0
    for name in "${names[@]}"; do
        if [ $((i % LANES)) -eq "$k" ]; then
            dst="$ROOT/seeded/$name"
            prop=$(python3 -c "import json;print(json.load(open('$dst/meta.json'))['property'])")
            if git -C "$L/repo" apply "$dst/patch.diff" 2>/dev/null; then
                t0=$(date +%s)
                (cd "$L/verif" && ./check "$prop" "$TIER" --no-evidence) >"$BASE/results/$name.log" 2>&1; rc=$?
                t1=$(date +%s)
                git -C "$L/repo" checkout -- .
                mkdir -p "$BASE/results/$name"
                for f in $(grep -E "^VIOLATION" "$BASE/results/$name.log" | sed -E 's/.*replay=//' | grep -v "/corpus/" | sort -u); do cp "$f" "$BASE/results/$name/" 2>/dev/null; done
                first=$(grep -m1 -E "^  signature:" "$BASE/results/$name.log" | cut -c1-300)
                if [ $rc -eq 1 ] && grep -q -E "^VIOLATION" "$BASE/results/$name.log"; then res=CAUGHT; elif [ $rc -eq 0 ]; then res=MISSED; else res="ERROR($rc)"; fi
                echo "$name $prop $TIER $res $((t1-t0))s $first" >>"$BASE/results/lane_$k.txt"
            else
                echo "$name $prop $TIER PATCH-DOES-NOT-APPLY 0s" >>"$BASE/results/lane_$k.txt"
            fi
        fi
        i=$((i+1))
    done
    git -C /repo worktree remove --force "$L/repo"
    rm -rf "$L"
}

pids=()
for k in $(seq 0 $((LANES-1))); do lane "$k" & pids+=($!); done
for p in "${pids[@]}"; do wait "$p"; done

cat "$BASE"/results/lane_*.txt | sort
# replay on the unchanged tree
bad=0
for name in "${names[@]}"; do
    prop=$(python3 -c "import json;print(json.load(open('$ROOT/seeded/$name/meta.json'))['property'])")
    for f in "$BASE/results/$name"/*.json; do
        [ -e "$f" ] || continue
        if ! "$ROOT/engine/target/release/verif-engine" replay "$prop" "$f" >/dev/null 2>&1; then
            mkdir -p /tmp/seeded_fails; cp "$f" /tmp/seeded_fails/
            echo "  FAILS-ON-UNCHANGED-TREE $name /tmp/seeded_fails/$(basename "$f")"; bad=$((bad+1))
        fi
    done
done
python3 - "$BASE/results" "$ROOT/seeded" "$TIER" <<'E'
import json,sys,glob,os
res,seeded,tier=sys.argv[1:4]
n=c=0
for lf in glob.glob(os.path.join(res,"lane_*.txt")):
    for line in open(lf):
        parts=line.split(None,5)
        name,prop,_,r,secs=parts[:5]; first=parts[5].strip() if len(parts)>5 else ""
        p=os.path.join(seeded,name,"meta.json"); m=json.load(open(p))
        m.setdefault("checks",{})["regression"]={"tier":tier,"result":r,"seconds":int(secs.rstrip("s")),"first":first}
        json.dump(m,open(p,"w"),indent=1)
        n+=1; c+= r=="CAUGHT"
print(f"seeded regression: {c} of {n} caught")
E
echo "unchanged-tree replays failing: $bad"
rm -rf "$BASE"; git -C /repo worktree prune
