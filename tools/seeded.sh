#!/usr/bin/env bash
# Handling of seeded changes (mutants written by independent sub-agents).
#
#   tools/seeded.sh verify <worktree> <prop> <name>
#       In the scratch worktree <worktree> (which holds _out/patch.diff and _out/demo_*.rs):
#       reset src, check the demo passes on the original code, apply the patch, check the demo fails,
#       check the whole existing suite still passes, then copy the artefacts to seeded/<name>/.
#   tools/seeded.sh run <name> [tier] [extra check args]
#       Apply seeded/<name>/patch.diff to /repo, run ./check <prop> <tier> --no-evidence, undo the patch.
#       Prints CAUGHT / MISSED.
#   tools/seeded.sh runall [tier]
set -u
ROOT="$(cd "$(dirname "$0")/.." && pwd)"
export CARGO_NET_OFFLINE=true
cmd="${1:-}"; shift || true
case "$cmd" in
verify)
    wt="$1"; prop="$2"; name="$3"
    out="$wt/_out"
    demo=$(ls "$out"/demo_*.rs | head -1)
    dn=$(basename "$demo" .rs)
    cd "$wt" || exit 2
    git checkout -- src 2>/dev/null
    git stash list | grep -q . && git stash drop >/dev/null 2>&1
    mkdir -p tests; cp "$demo" "tests/$dn.rs"
    echo "== demo on original code (must pass)"
    if ! cargo test --offline --test "$dn" >"$out/verify_orig.log" 2>&1; then echo "REJECT: demo fails on the original code"; tail -20 "$out/verify_orig.log"; exit 1; fi
    grep -E "^test result" "$out/verify_orig.log"
    echo "== apply patch"
    git apply "$out/patch.diff" || { echo "REJECT: patch does not apply"; exit 1; }
    echo "== demo with the change (must fail)"
    if cargo test --offline --test "$dn" >"$out/verify_mut.log" 2>&1; then echo "REJECT: demo passes with the change"; exit 1; fi
    grep -E "^test result|panicked" "$out/verify_mut.log" | head -5
    echo "== existing suite with the change (must pass)"
    mv "tests/$dn.rs" "$out/.held.rs"
    cargo test --offline --workspace --no-fail-fast >"$out/verify_suite.log" 2>&1; rc=$?
    mv "$out/.held.rs" "tests/$dn.rs"
    grep -E "^test result" "$out/verify_suite.log"
    if [ $rc -ne 0 ]; then echo "REJECT: existing suite fails with the change"; grep -E "FAILED|panicked" "$out/verify_suite.log" | head; exit 1; fi
    dst="$ROOT/seeded/$name"; mkdir -p "$dst"
    cp "$out/patch.diff" "$dst/patch.diff"; cp "$demo" "$dst/"; [ -f "$out/notes.md" ] && cp "$out/notes.md" "$dst/notes.md"
    suite=$(grep -E "^test result" "$out/verify_suite.log" | tr '\n' ';')
    python3 - "$dst" "$prop" "$name" "$dn" "$suite" <<'E'
import json,sys,os
dst,prop,name,dn,suite=sys.argv[1:6]
meta={"property":prop,"name":name,"breaks":"see notes.md","needs_to_manifest":"see notes.md",
      "confirmed":{"demo":dn+".rs","demo_on_original":"pass","demo_with_change":"fail","existing_suite_with_change":suite},
      "checks":{}}
p=os.path.join(dst,"meta.json")
if os.path.exists(p):
    old=json.load(open(p)); meta["checks"]=old.get("checks",{})
    for k in ("breaks","needs_to_manifest"):
        if old.get(k,"see notes.md")!="see notes.md": meta[k]=old[k]
json.dump(meta,open(p,"w"),indent=1)
E
    echo "ACCEPTED -> $dst"
    ;;
run)
    name="$1"; tier="${2:-quick}"; shift; shift || true
    dst="$ROOT/seeded/$name"
    prop=$(python3 -c "import json;print(json.load(open('$dst/meta.json'))['property'])")
    if [ -n "$(git -C /repo status --porcelain -- src Cargo.toml)" ]; then echo "refusing: /repo has local changes"; exit 2; fi
    git -C /repo apply "$dst/patch.diff" || { echo "patch does not apply"; exit 2; }
    t0=$(date +%s)
    (cd "$ROOT" && ./check "$prop" "$tier" --no-evidence "$@") >"/tmp/seeded_$name.log" 2>&1; rc=$?
    t1=$(date +%s)
    git -C /repo checkout -- .
    # every case the check reported under the change must hold on the unchanged tree: anything that still fails
    # there is either a genuine defect or a false alarm of the harness, and is flagged for triage
    (cd "$ROOT" && ./check build >/dev/null 2>&1)
    for f in $(grep -E "^VIOLATION" "/tmp/seeded_$name.log" | sed -E 's/.*replay=//' | grep -v "/corpus/" | sort -u); do
        if ! "$ROOT/engine/target/release/verif-engine" replay "$prop" "$f" >/dev/null 2>&1; then echo "  FAILS-ON-UNCHANGED-TREE $f"; fi
    done
    sig=$(grep -m1 -E "^VIOLATION" "/tmp/seeded_$name.log")
    first=$(grep -m1 -E "^  signature:" "/tmp/seeded_$name.log" | cut -c1-300)
    if [ $rc -eq 1 ] && [ -n "$sig" ]; then res=CAUGHT; elif [ $rc -eq 0 ]; then res=MISSED; else res="ERROR($rc)"; fi
    echo "$name $prop $tier $res $((t1-t0))s  $first"
    python3 - "$dst/meta.json" "$tier" "$res" "$((t1-t0))" "$first" <<'E'
import json,sys
p,tier,res,secs,first=sys.argv[1:6]
m=json.load(open(p)); m.setdefault("checks",{})[tier]={"result":res,"seconds":int(secs),"first":first}
json.dump(m,open(p,"w"),indent=1)
E
    [ "$res" = CAUGHT ]
    ;;
fuzz)
    # run only the coverage-guided stage against a seeded change
    name="$1"; shift
    dst="$ROOT/seeded/$name"
    prop=$(python3 -c "import json;print(json.load(open('$dst/meta.json'))['property'])")
    if [ -n "$(git -C /repo status --porcelain -- src Cargo.toml)" ]; then echo "refusing: /repo has local changes"; exit 2; fi
    git -C /repo apply "$dst/patch.diff" || { echo "patch does not apply"; exit 2; }
    t0=$(date +%s)
    (cd "$ROOT" && ./check build >/dev/null 2>&1; fuzz/run_fuzz.sh "$prop" "$@") >"/tmp/seededfz_$name.log" 2>&1; rc=$?
    t1=$(date +%s)
    git -C /repo checkout -- .
    (cd "$ROOT" && ./check build >/dev/null 2>&1)
    if [ $rc -eq 1 ]; then res=CAUGHT; elif [ $rc -eq 0 ]; then res=MISSED; else res="ERROR($rc)"; fi
    first=$(grep -m1 -E "^  signature:" "/tmp/seededfz_$name.log" | cut -c1-200)
    echo "$name $prop fuzz $res $((t1-t0))s $first"
    python3 - "$dst/meta.json" "$res" "$((t1-t0))" "$first" <<'E'
import json,sys
p,res,secs,first=sys.argv[1:5]
m=json.load(open(p)); m.setdefault("checks",{})["fuzz_stage_alone"]={"result":res,"seconds":int(secs),"first":first}
json.dump(m,open(p,"w"),indent=1)
E
    ;;
runall)
    tier="${1:-quick}"
    for d in "$ROOT"/seeded/*/; do "$0" run "$(basename "$d")" "$tier"; done
    ;;
*) echo "usage: seeded.sh verify|run|runall"; exit 2;;
esac
