#!/usr/bin/env python3
"""tools/kf.py fixed|known <property> <signature> <commit-or-> <what...>  — append an entry to known_findings.json (edit-time only)"""
import json, sys, os
ROOT = os.path.dirname(os.path.dirname(os.path.abspath(__file__)))
p = os.path.join(ROOT, "known_findings.json")
d = json.load(open(p))
status, prop, sig, commit = sys.argv[1:5]
what = " ".join(sys.argv[5:])
e = {"property": prop, "signature": sig, "status": status}
if status == "fixed":
    e["commit"] = commit
    e["what"] = f"fixed: property={prop} {commit} {what}"
else:
    e["what"] = what
d.append(e)
json.dump(d, open(p, "w"), indent=1)
