#!/usr/bin/env python3
"""Regenerates /verif/MANIFEST.json from the table below (one entry per claimed property)."""
import json, os, subprocess
ROOT = os.path.dirname(os.path.dirname(os.path.abspath(__file__)))

# id -> (design_ref, technique, level text, level note)
CLAIMED = {}
def claim(id, technique, text, note):
    CLAIMED[id] = (technique, text, note)

exec(open(os.path.join(ROOT, "tools", "claims.py")).read())

props = [json.loads(l) for l in open(os.path.join(ROOT, "properties.jsonl"))]
checks = []
na = []
for p in props:
    i = p["id"]
    if i in CLAIMED:
        tech, text, note = CLAIMED[i]
        checks.append({
            "property_id": i,
            "quick_cmd": f"./check {i} quick",
            "thorough_cmd": f"./check {i} thorough",
            "evidence_file": f"/verif/evidence/{i}.json",
            "replay_cmd_template": f"./check {i} --replay {{path}}",
            "engine": "verif-engine",
            "level_claimed": {"category": "exploration", "text": text, "design_ref": f"DESIGN.md §2 {i}"},
            "level_note": note,
            "technique": tech + "; thorough tier adds coverage-guided fuzzing (libFuzzer via cargo-fuzz) whose input bytes are the random stream of the same generator, decided by the same oracle and re-decided/shrunk by the release engine",
        })
    else:
        na.append({"property_id": i, "reason": "check not built yet in this tree (planned in DESIGN.md §2; property-based testing applies)"})

hooks_commits = subprocess.run(["git", "-C", "/repo", "log", "--format=%H %s"], capture_output=True, text=True).stdout.splitlines()
hook_shas = [l.split()[0] for l in hooks_commits if l.split(" ", 1)[1].startswith("verif hook")]

m = {
    "version": 1,
    "setup_cmd": "./check build",
    "hooks": {
        "guard": "cargo feature `verif` of the engeom crate (default off)",
        "enable": "engine/Cargo.toml depends on engeom = { path = \"/repo\", features = [\"verif\"] }; every ./check run rebuilds it from /repo's working tree",
        "baseline_off_cmd": "cd /repo && cargo test --workspace --no-fail-fast --offline",
        "source_commits": hook_shas,
        "add_only": True,
    },
    "engines": [
        {"name": "verif-engine", "path": "/verif/engine", "serves_properties": sorted(CLAIMED), "kind_free_text": "Rust binary: proptest 1.11 TestRunner (fixed seed from VERIF_SEED, sharded over 16 threads), explicit oracles written in the harness, shrinking to a JSON replay file, killable worker processes for termination clauses; one cargo-fuzz/libFuzzer target under /verif/fuzz (property selected by VERIF_FUZZ_PROP; bytes = pass-through random stream of the property's strategy, vendored proptest with a patched pass-through RNG) run by the thorough tier after the generated search"},
    ],
    "checks": checks,
    "notes": "Family: property-based testing and fuzzing. Exit 0 = held on everything explored, 1 = VIOLATION line + replay file, 2 = inconclusive (build failure). Known findings: /verif/known_findings.json.",
    "not_applicable": na,
}
json.dump(m, open(os.path.join(ROOT, "MANIFEST.json"), "w"), indent=1)
print("claimed:", sorted(CLAIMED), "not claimed:", [x["property_id"] for x in na])
