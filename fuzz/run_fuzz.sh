#!/bin/bash
# Coverage-guided stage of the thorough tier:  fuzz/run_fuzz.sh <Cnn> [execs-per-worker]
#
# One libFuzzer target (fuzz_targets/prop.rs) serves every property: the input bytes are the random stream of the
# property's own proptest strategy, so each input decodes to an ordinary case and is decided by the same oracle as the
# generated search.  WORKERS independent libFuzzer processes run a fixed number of executions each (-runs, -seed from
# VERIF_SEED; approximately reproducible, see DESIGN.md), from a fresh scratch corpus seeded with random inputs of full
# length.  Whatever libFuzzer keeps (crash-*, timeout-*, oom-*) is NOT reported as such: each file is re-decided by the
# release engine (`verif-engine frombytes`, in a killable worker for the isolated properties), shrunk along the
# strategy's value tree and saved as a JSON replay; only that verdict counts.
# exit: 0 held (or stage skipped because the target does not build: a NOTE is printed) / 1 VIOLATION printed
set -u
ROOT="$(cd "$(dirname "$0")/.." && pwd)"
ID="$1"
export CARGO_NET_OFFLINE=true VERIF_ROOT="$ROOT"
# strategies may leave out families that only make sense under weighted generation (see C13): target and re-decision agree
export VERIF_BYTE_LEVEL=1
SEED="${VERIF_SEED:-1}"
WORKERS="${VERIF_FUZZ_WORKERS:-16}"
ENGINE="$ROOT/engine/target/release/verif-engine"
BIN="$ROOT/fuzz/target/x86_64-unknown-linux-gnu/release/prop"

# executions per worker, sized so that the stage takes a few minutes on 16 cores; timeout per input in seconds
case "$ID" in
  C18|C11|C16|C17|C08|C03) RUNS=400000; TMO=20;;
  C01|C04|C05|C06|C09|C19|C02) RUNS=150000; TMO=20;;
  C14|C15|C12) RUNS=40000; TMO=30;;
  C13) RUNS=40000; TMO=60;;
  C07) RUNS=6000; TMO=120;;
  C20) RUNS=6000; TMO=90;;
  C10) RUNS=2500; TMO=180;;
  *) echo "unknown property $ID"; exit 2;;
esac
RUNS="${2:-${VERIF_FUZZ_RUNS:-$RUNS}}"

cp "$ROOT/engine/Cargo.lock" "$ROOT/fuzz/Cargo.lock" 2>/dev/null
( cd "$ROOT/fuzz" && cargo +nightly fuzz build -O -s none --fuzz-dir . prop >"$ROOT/fuzz/build.log" 2>&1 )
if [ $? -ne 0 ] || [ ! -x "$BIN" ]; then
  grep -E "^error" -A8 "$ROOT/fuzz/build.log" | head -40
  echo "NOTE: coverage-guided stage skipped: the fuzz target did not build (see fuzz/build.log); the verdict of the generated search above stands and the evidence file carries no fuzz section"
  exit 0
fi

WORK="$ROOT/fuzz/work/$ID"
rm -rf "$WORK"; mkdir -p "$WORK/artifacts"
t0=$(date +%s)
pids=()
for w in $(seq 1 "$WORKERS"); do
  mkdir -p "$WORK/corpus$w"
  # starting corpus: a few random inputs at full length (libFuzzer grows inputs slowly from an empty corpus)
  python3 - "$WORK/corpus$w" "$SEED" "$w" <<'E'
import random,sys,os
d,seed,w=sys.argv[1],int(sys.argv[2]),int(sys.argv[3])
r=random.Random(seed*1000003+w)
for i,n in enumerate([64,256,1024,4096,4096,8192]):
    open(os.path.join(d,"seed%d"%i),"wb").write(bytes(r.getrandbits(8) for _ in range(n)))
E
  VERIF_FUZZ_PROP="$ID" VERIF_FUZZ_STATS="$WORK/stats$w.json" "$BIN" "$WORK/corpus$w" \
      -runs="$RUNS" -seed=$((SEED * 1000 + w)) -max_len=8192 -len_control=0 -timeout="$TMO" -rss_limit_mb=6144 \
      -artifact_prefix="$WORK/artifacts/w${w}-" -print_final_stats=1 >"$WORK/log$w.txt" 2>&1 &
  pids+=($!)
done
for p in "${pids[@]}"; do wait "$p"; done
t1=$(date +%s)

rc=0
shopt -s nullglob
arts=("$WORK"/artifacts/*)
for a in "${arts[@]}"; do
  out=$("$ENGINE" frombytes "$ID" "$a" 2>&1); r=$?
  if [ $r -eq 1 ]; then
    echo "$out"
    rc=1
  else
    echo "$out" | grep -E "^(NOTE|KNOWN-FINDING)" | head -2
  fi
done

python3 - "$ROOT" "$ID" "$WORK" "$WORKERS" "$RUNS" "$((t1 - t0))" "${#arts[@]}" "$rc" <<'E'
import json,sys,glob,re,os
root,pid,work,workers,runs,secs,narts,rc=sys.argv[1:9]
tot={"inputs":0,"decoded":0,"pass":0,"nontrivial":0,"distinct_nontrivial":0,"discard":0,"known_excluded":0,"failures":0}
labels={}
for f in glob.glob(os.path.join(work,"stats*.json")):
    try: s=json.load(open(f))
    except Exception: continue
    for k in tot: tot[k]+=s.get(k,0)
    for k,v in s.get("labels",{}).items(): labels[k]=labels.get(k,0)+v
cov=[];corp=[];execs=0
for f in glob.glob(os.path.join(work,"log*.txt")):
    t=open(f,errors="replace").read()
    m=re.findall(r"cov: (\d+) ft: (\d+) corp: (\d+)",t)
    if m: cov.append(int(m[-1][0])); corp.append(int(m[-1][2]))
    m=re.search(r"stat::number_of_executed_units: (\d+)",t)
    if m: execs+=int(m.group(1))
fz={"engine":"libFuzzer via cargo-fuzz, nightly, -O, no sanitizer; input = pass-through random stream of the property's proptest strategy",
    "workers":int(workers),"runs_per_worker":int(runs),"executions":execs,"wall_s":int(secs),
    "coverage_edges_max_worker":max(cov) if cov else None,"corpus_units_total":sum(corp),
    "artifacts_re_decided_by_release_engine":int(narts),"violations":int(rc),
    "distinct_nontrivial_is_per_worker_sum":True,**tot,"labels":labels}
p=os.path.join(root,"evidence",pid+".json")
try:
    e=json.load(open(p))
    if e.get("tier")=="thorough":
        e["coverage"]["fuzz"]=fz
        json.dump(e,open(p,"w"),indent=1)
except Exception as ex:
    print("note: evidence not updated:",ex)
print("%s fuzz workers=%s executions=%d decoded=%d nontrivial=%d distinct_nontrivial(sum over workers)=%d known_excluded=%d artifacts=%s wall=%ss violations=%s"%(pid,workers,execs,tot["decoded"],tot["nontrivial"],tot["distinct_nontrivial"],tot["known_excluded"],narts,secs,rc))
E
exit $rc
