//! One libFuzzer target for all twenty properties: the property is chosen by $VERIF_FUZZ_PROP.  The input bytes
//! are the random stream of the property's own proptest strategy (pass-through RNG), so every input decodes to an
//! ordinary case and is decided by the same oracle as the generated search; an unknown failing signature aborts,
//! which makes libFuzzer keep the input.  The release engine (`verif-engine frombytes`) then re-decides, shrinks and
//! reports it; nothing is reported from this (nightly, instrumented) build alone.
#![no_main]
use libfuzzer_sys::fuzz_target;
use std::cell::RefCell;

thread_local! {
    static FUZZER: RefCell<Option<Box<dyn FnMut(&[u8]) -> bool>>> = RefCell::new(None);
}

fn none() -> Box<dyn FnMut(&[u8]) -> bool> {
    eprintln!("VERIF_FUZZ_PROP must name a property C01..C20");
    std::process::exit(2)
}

fuzz_target!(|data: &[u8]| {
    FUZZER.with(|f| {
        let mut f = f.borrow_mut();
        if f.is_none() {
            let id = std::env::var("VERIF_FUZZ_PROP").unwrap_or_default();
            *f = Some(verif_engine::dispatch!(id.as_str(), make_fuzzer, none(),));
        }
        if (f.as_mut().unwrap())(data) {
            std::process::abort();
        }
    });
});
